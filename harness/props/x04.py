"""X04 (extension) — boundary arcs, horosphere/geodesic intersection, HorosphereArc forms, polygon
edges, geometry validation, from_angle.

Specifications (spec/hyp):
  HypBoundaryArc.tla  state machine: the word machine of HypIso (exact isometries) acting on an arc
                      <<p, q, fwd>> of the ideal circle, plus flip; witnesses inside / outside the arc are
                      carried along and TLC checks they stay on their side (orientation rule = image set).
  HypHoroMeet.tla     cases: horosphere /\\ geodesic with exact rational crossing points, tangencies and
                      misses (+ images under atoms), HorosphereArc construction forms, polygon edges.
  HypValid.tla        cases: validation table of Segment / TangentVector / Hyperplane with the switch
                      CHECK_LIGHT_CONE off and on, IdealPoint.from_angle at Pythagorean angles.
Binding (spec -> code): the LTS of HypBoundaryArc is walked with real BoundaryArc objects (atom @ arc,
flip_orientation in place, composites built from the units, item assignment); every CASE record of the
other two modules is replayed through the public constructors / methods and compared with the exact
values.  Violations of the written contract by the unchanged library carry stable keys (family prefix +
input) so that they can be listed as known findings.
"""
import concurrent.futures
import json
import math
import os
import random
import warnings

import numpy as np

from .. import core
from .. import hyp_common as hc
from .c14 import ITOL, TOL, Reporter, check_circle, fl, half_surd, hyp, poincare_surd, q, qv

MAXV_DEFAULT = 3
MEET_TOL = 1e-5         # crossing points: the routine goes through Poincare coordinates of the ideal centre (boundary-conditioned,
                        # up to ~3e-7, see C14) and solves a quadratic with them
TAN_TOL = 2e-3          # point of tangency: square root of that error (discriminant 0 +- 1e-6)


def jkey(x):
    return json.dumps(x, sort_keys=True, separators=(",", ":"))


def klein_of(v):
    v = np.asarray(v, float)
    return v[..., 1:] / v[..., :1]


def proj_rows_equal(a, b, tol=1e-9):
    return hc.proj_close(np.asarray(a, float), np.asarray(b, float), tol)


# ----------------------------------------------------------------------------------------
# TLC jobs
# ----------------------------------------------------------------------------------------
def run_jobs(run, jobs, parallel):
    def one(j):
        wd = os.path.join(run.work, j["name"])
        return core.run_tlc(os.path.join(core.SPEC, j["module"]), j["cfg"], wd, workers=j.get("workers", 2), seed=run.seed,
                            emit_prefix=j["prefix"])
    with concurrent.futures.ThreadPoolExecutor(max_workers=parallel) as ex:
        res = list(ex.map(one, jobs))
    out = {}
    for j, r in zip(jobs, res):
        run.states += r.distinct
        run.transitions += r.generated
        d = r.as_dict()
        d["module"] = "spec/" + j["module"]
        d["run"] = j["name"]
        run.tlc_runs.append(d)
        if not r.emits:
            raise core.MachineryFailure("TLC run %s printed nothing (vacuous)" % j["name"])
        out[j["name"]] = r
    return out


# ----------------------------------------------------------------------------------------
# A. boundary arcs: walk of the LTS
# ----------------------------------------------------------------------------------------
def arc_key(arc, hist):
    return "boundary_arc:%s:p=%s:q=%s:%s" % ("antipodal" if arc["antipodal"] else "generic", arc["p"], arc["q"], ";".join(hist) or "init")


def check_arc(H, obj, arc):
    """all obligations of one state of HypBoundaryArc; returns None or (clause, detail)"""
    M = H.Model
    if not isinstance(obj, H.BoundaryArc):
        return ("type", "object is %s" % type(obj).__name__)
    ends = np.asarray(obj.endpoints, float)
    P, Q = np.array(arc["p"], float), np.array(arc["q"], float)
    if ends.shape != (2, 3) or not ((proj_rows_equal(ends[0], P) and proj_rows_equal(ends[1], Q)) or (proj_rows_equal(ends[0], Q) and proj_rows_equal(ends[1], P))):
        return ("endpoints", "endpoints %r, spec {%r, %r}" % (ends.tolist(), arc["p"], arc["q"]))
    s, e = qv(arc["start"]), qv(arc["end"])
    with np.errstate(all="ignore"):
        ek = np.asarray(obj.endpoint_coords(M.KLEIN), float)
    if ek.shape != (2, 2) or not (np.abs(ek[0] - s).max() <= TOL and np.abs(ek[1] - e).max() <= TOL):
        return ("endpoint_coords.klein", "ordered end points %r, spec start %r end %r" % (ek.tolist(), s.tolist(), e.tolist()))
    with np.errstate(all="ignore"):
        ep = np.asarray(obj.endpoint_coords(M.POINCARE, ordered=True), float)
    if not (np.abs(ep[0] - s).max() <= ITOL and np.abs(ep[1] - e).max() <= ITOL):
        return ("endpoint_coords.poincare", "ordered end points %r, spec start %r end %r" % (ep.tolist(), s.tolist(), e.tolist()))
    if arc["hs"]:
        hs_, he = qv(arc["hstart"]), qv(arc["hend"])
        sc = max(1.0, (1 + (hs_ ** 2).sum()) / 2, (1 + (he ** 2).sum()) / 2)
        with np.errstate(all="ignore"):
            eh = np.asarray(obj.endpoint_coords(M.HALFSPACE), float)
        if not (np.abs(eh[0] - hs_).max() <= ITOL * sc and np.abs(eh[1] - he).max() <= ITOL * sc):
            return ("endpoint_coords.halfspace", "ordered end points %r, spec start %r end %r" % (eh.tolist(), hs_.tolist(), he.tolist()))
    for model, mm, tol in (("klein", M.KLEIN, TOL), ("poincare", M.POINCARE, ITOL), ("poincare-string", "poincare", ITOL)):
        for deg in (False, True):
            with np.errstate(all="ignore"):
                c, r, th = obj.circle_parameters(model=mm, degrees=deg)
            c, r, th = np.asarray(c, float), np.asarray(r, float), np.asarray(th, float)
            if c.shape != (2,) or r.shape != () or th.shape != (2,):
                return ("circle_parameters.shape", "shapes %r %r %r" % (c.shape, r.shape, th.shape))
            if np.abs(c).max() > 0 or float(r) != 1.0:
                return ("circle_parameters.unit_circle", "centre %r radius %r" % (c.tolist(), float(r)))
            a = np.radians(th) if deg else th
            got = np.stack([np.cos(a), np.sin(a)], -1)
            if not (np.abs(got[0] - s).max() <= tol and np.abs(got[1] - e).max() <= tol):
                return ("circle_parameters.arc", "model %s degrees %s: angles %r are the points %r; the arc runs counter-clockwise from %r to %r"
                        % (model, deg, th.tolist(), got.tolist(), s.tolist(), e.tolist()))
    try:
        obj.circle_parameters(model=M.HALFSPACE)
        return ("circle_parameters.halfspace_must_raise", "no GeometryError for the half-space model")
    except Exception as ex:
        if type(ex).__name__ != "GeometryError":
            return ("circle_parameters.halfspace_must_raise", "%s instead of GeometryError" % type(ex).__name__)
    return None


def arc_walk(run, emits, rng):
    H = hyp()
    rep = Reporter(run, "walk")
    rep_count = {}

    def report(key, clause, detail):
        fam = key.split(":")[1] + ":" + clause
        rep_count[fam] = rep_count.get(fam, 0) + 1
        if rep_count[fam] <= 4:
            run.violation(key, clause, detail)

    def skey(s):
        return (jkey(s["g"]), s["len"], jkey(s["arc"]["p"]), jkey(s["arc"]["q"]), s["arc"]["fwd"])
    lts, inits = {}, {}
    for e in emits:
        fk = skey(e["from"])
        lts.setdefault(fk, []).append((e["act"], e["to"], skey(e["to"])))
        if e["from"]["len"] == 0:
            inits[fk] = e["from"]
    atoms = {}

    def atom(a):
        k = jkey(a)
        if k not in atoms:
            atoms[k] = hc.lib_atom(a, 2)
        return atoms[k]
    frontier = []
    units = []              # (object, arc observation) of every accepted state: material for the composites
    for fk, st in sorted(inits.items()):
        arc = st["arc"]
        run.case(key=("arc-init", fk), action="BoundaryArc(p, q)")
        try:
            with np.errstate(all="ignore"):
                obj = H.BoundaryArc(np.array(arc["p"], float), np.array(arc["q"], float))
                bad = check_arc(H, obj, arc)
                if bad is None and not (np.asarray(obj.orientation(), float) > 0):
                    bad = ("orientation_positive_after_construction", "orientation() = %r" % float(obj.orientation()))
        except Exception as ex:
            bad = ("raised:constructor", "%s: %s" % (type(ex).__name__, ex))
        if bad:
            report(arc_key(arc, ()), bad[0], dict(p=arc["p"], q=arc["q"], observed=bad[1]))
            continue
        frontier.append((fk, obj, (), arc))
        units.append((obj, arc))
    seen = set(inits)
    ntrans = 0
    while frontier:
        nxt = []
        for fk, obj, hist, arc0 in frontier:
            for act, to, tk in lts.get(fk, []):
                ntrans += 1
                name = "flip" if act["a"] == "flip" else "apply:" + jkey(act["atom"])
                h2 = hist + (name,)
                run.actions["flip_orientation" if act["a"] == "flip" else "isometry @ arc (%s)" % act["atom"]["k"]] = \
                    run.actions.get("flip_orientation" if act["a"] == "flip" else "isometry @ arc (%s)" % act["atom"]["k"], 0) + 1
                try:
                    with np.errstate(all="ignore"):
                        if act["a"] == "flip":
                            obj2 = H.BoundaryArc(obj)          # copy, then mutate the copy in place
                            obj2.flip_orientation()
                            # the copy is independent of the object it was made from
                            bad = check_arc(H, obj, arc0)
                            if bad:
                                bad = ("flip_changed_the_original", bad[1])
                        else:
                            obj2 = atom(act["atom"]) @ obj
                            bad = None
                        bad = bad or check_arc(H, obj2, to["arc"])
                except Exception as ex:
                    bad = ("raised:" + name.split(":")[0], "%s: %s" % (type(ex).__name__, ex))
                if bad:
                    k0 = inits_arc_key(arc0, to, h2)
                    report(k0, bad[0], dict(initial=[to_init(arc0)], history=list(h2), spec=to["arc"], observed=bad[1]))
                    continue
                if tk not in seen:
                    seen.add(tk)
                    nxt.append((tk, obj2, h2, to["arc"]))
                    if len(units) < 400:
                        units.append((obj2, to["arc"]))
        frontier = nxt
    run.evaluations += ntrans
    run.traces += ntrans
    run.nontrivial_count += len(seen)
    mid = emits[len(emits) // 2]
    run.sample(dict(kind="boundary arc transition", **mid))
    arc_composites(run, H, units, rng)


def to_init(arc):
    return dict(p=arc["p"], q=arc["q"], fwd=arc["fwd"])


def inits_arc_key(arc0, to, hist):
    return "boundary_arc:%s:p=%s:q=%s:%s" % ("antipodal" if to["arc"]["antipodal"] else "generic", to["arc"]["p"], to["arc"]["q"], ";".join(hist))


def arc_composites(run, H, units, rng):
    """composite arcs: built from a list of units, item assignment, transformation of the composite; built from arrays"""
    M = H.Model
    if len(units) < 6:
        return
    sel = rng.sample(units, min(len(units), 60))
    start = np.array([qv(a["start"]) for _, a in sel])
    end = np.array([qv(a["end"]) for _, a in sel])

    def check(label, comp, start, end, key):
        with np.errstate(all="ignore"):
            c, r, th = comp.circle_parameters(model=M.KLEIN, degrees=False)
            ek = np.asarray(comp.endpoint_coords(M.KLEIN), float)
        th = np.asarray(th, float)
        K = len(start)
        if th.shape != (K, 2) or np.asarray(c).shape != (K, 2) or np.asarray(r).shape != (K,):
            run.violation(key, label + ".shape", dict(thetas=th.shape, centre=np.asarray(c).shape, radius=np.asarray(r).shape))
            return
        got0 = np.stack([np.cos(th[:, 0]), np.sin(th[:, 0])], -1)
        got1 = np.stack([np.cos(th[:, 1]), np.sin(th[:, 1])], -1)
        bad = ~((np.abs(got0 - start).max(-1) <= TOL) & (np.abs(got1 - end).max(-1) <= TOL)
                & (np.abs(ek[:, 0] - start).max(-1) <= TOL) & (np.abs(ek[:, 1] - end).max(-1) <= TOL))
        for i in np.nonzero(bad)[0][:3]:
            run.violation("%s:index=%d" % (key, i), label + ".arc", dict(thetas=fl(th[i]), spec_start=fl(start[i]), spec_end=fl(end[i])))
    key = "boundary_arc:composite_from_units"
    run.case(key=key, action="BoundaryArc([units])")
    try:
        comp = H.BoundaryArc([o for o, _ in sel])
        check("composite", comp, start, end, key)
        # item assignment: query, comp[k] = other unit, query
        src = list(range(len(sel)))
        for k in rng.sample(range(len(sel)), max(2, len(sel) // 5)):
            j = rng.randrange(len(sel))
            comp[k] = sel[j][0]
            src[k] = j
        check("composite.after_item_assignment", comp, start[src], end[src], key + ":setitem")
        # flip of the whole composite, in place
        comp.flip_orientation()
        check("composite.after_flip", comp, end[src], start[src], key + ":flip")
        run.evaluations += 3 * len(sel)
        run.traces += 1
    except Exception as ex:
        run.violation(key, "raised:composite", dict(error="%s: %s" % (type(ex).__name__, ex)))
    # the same arcs from arrays of end points
    gen = [(o, a) for o, a in units if not a["antipodal"] and a["fwd"] and max(map(abs, a["p"] + a["q"])) <= 200][:40]
    if gen:
        key = "boundary_arc:composite_from_arrays"
        run.case(key=key, action="BoundaryArc(array, array)")
        try:
            P = np.array([a["p"] for _, a in gen], float)
            Q = np.array([a["q"] for _, a in gen], float)
            comp = H.BoundaryArc(P, Q)
            check("composite_from_arrays", comp, klein_of(P), klein_of(Q), key)
        except Exception as ex:
            run.violation(key, "raised:composite_from_arrays", dict(p=P[:2].tolist(), q=Q[:2].tolist(), arcs=len(gen), error="%s: %s" % (type(ex).__name__, ex)))


# ----------------------------------------------------------------------------------------
# B. horosphere /\ geodesic
# ----------------------------------------------------------------------------------------
def meet_observe(klein, want, count):
    """klein: (2, n) array of the returned points; returns None or (clause, text).  Tolerances are multiplied by the
    conformal factor 1 / (1 - |k|^2) of the expected points: the routine works in a frame centred on the geodesic and the
    boost back magnifies its (boundary-conditioned, ~1e-8) errors by that factor."""
    fin = np.isfinite(klein).all(-1)
    if count == 0:
        if fin.any():
            return ("miss.no_finite_point", "finite point(s) %r returned for a geodesic that misses the horosphere" % klein[fin].tolist())
        return None
    scale = float(max(1.0, (1.0 / (1.0 - (want ** 2).sum(-1))).max()))
    if count == 1:
        for row in klein[fin]:
            if not np.abs(row - want[0]).max() <= TAN_TOL * scale:
                return ("tangent.point", "returned %r, point of tangency %r" % (row.tolist(), want[0].tolist()))
        return None
    if not fin.all():
        return ("cross.two_points", "returned %r, crossing points %r" % (klein.tolist(), want.tolist()))
    d_same = max(np.abs(klein[0] - want[0]).max(), np.abs(klein[1] - want[1]).max())
    d_swap = max(np.abs(klein[0] - want[1]).max(), np.abs(klein[1] - want[0]).max())
    if not min(d_same, d_swap) <= MEET_TOL * scale:
        return ("cross.points", "returned %r, crossing points %r (error %.2e, allowed %.2e)" % (klein.tolist(), want.tolist(), min(d_same, d_swap), MEET_TOL * scale))
    return None


def replay_meets(run, n, cases, rng):
    H = hyp()
    M = H.Model
    rep = Reporter(run, "meet")
    atoms = {}

    def atom(a):
        k = jkey(a)
        if k not in atoms:
            atoms[k] = hc.lib_atom(a, n)
        return atoms[k]

    def obs(h, *args):
        with np.errstate(all="ignore"), warnings.catch_warnings():
            warnings.simplefilter("ignore")
            r = h.intersect_geodesic(*args)
            if not isinstance(r, H.Point):
                return None, ("result_type", "result is %s" % type(r).__name__)
            if np.asarray(r.proj_data).shape != (2, n + 1):
                return None, ("result_shape", "proj_data shape %r, two points of H^%d expected" % (np.asarray(r.proj_data).shape, n))
            return r, None
    for e in cases:
        key = "n=%d:%s:U=%s:R=%s:G1=%s:G2=%s" % (n, e["sub"], e["U"], e["R"], e["G1"], e["G2"])
        U, R, G1, G2 = (np.array(e[k], float) for k in ("U", "R", "G1", "G2"))
        want = np.array([qv(k) for k in e["kpts"]]) if e["kpts"] else np.zeros((0, n))
        run.case(key=("meet", key), action="intersect_geodesic (%d points)" % e["count"])
        try:
            h = H.Horosphere(U.copy(), R.copy())
            forms = [("two_points", (G1.copy(), G2.copy()))]
            if rng.random() < 0.25:
                forms += [("stacked", (np.stack([G1, G2]),)), ("Segment", (H.Segment(G1.copy(), G2.copy()),))]
                if e["sub"] == "chord":
                    forms.append(("Geodesic", (H.Geodesic(G1.copy(), G2.copy()),)))
            for fname, args in forms:
                r, bad = obs(h, *args)
                if bad is None:
                    with np.errstate(all="ignore"):
                        bad = meet_observe(np.asarray(r.coords(M.KLEIN), float), want, e["count"])
                if bad:
                    rep(bad[0], key + ":" + fname, dict(horosphere=[e["U"], e["R"]], geodesic=[e["G1"], e["G2"]], given_as=fname, spec_points=e["pts"], observed=bad[1]))
                    break
            # equivariance: transform then intersect = intersect then transform = exact image
            if rng.random() < 0.5:
                for im in e["images"]:
                    g = atom(im["atom"])
                    wanti = np.array([qv(k) for k in im["kpts"]]) if im["kpts"] else np.zeros((0, n))
                    with np.errstate(all="ignore"), warnings.catch_warnings():
                        warnings.simplefilter("ignore")
                        r1, bad = obs(g @ h, g @ H.Segment(G1.copy(), G2.copy()))
                        if bad is None:
                            bad = meet_observe(np.asarray(r1.coords(M.KLEIN), float), wanti, e["count"])
                        if bad is None:
                            r2, bad = obs(H.Horosphere(np.array(im["U"], float), np.array(im["R"], float)), np.array(im["G1"], float), np.array(im["G2"], float))
                            if bad is None:
                                bad = meet_observe(np.asarray(r2.coords(M.KLEIN), float), wanti, e["count"])
                        if bad is None and r is not None:
                            bad = meet_observe(np.asarray((g @ r).coords(M.KLEIN), float), wanti, e["count"])
                    run.evaluations += 3
                    if bad:
                        rep("equivariance." + bad[0], key + ":" + jkey(im["atom"]), dict(horosphere=[e["U"], e["R"]], geodesic=[e["G1"], e["G2"]], isometry=im["atom"],
                                                                                      spec_image_points=im["kpts"], observed=bad[1]))
                        break
        except Exception as ex:
            rep("raised:intersect_geodesic", key, dict(horosphere=[e["U"], e["R"]], geodesic=[e["G1"], e["G2"]], error="%s: %s" % (type(ex).__name__, ex)))
    run.traces += len(cases)
    # composite horospheres and geodesics: one call for many pairs
    sub = cases[:: max(1, len(cases) // 40)][:40]
    key = "meet:composite:n=%d" % n
    run.case(key=key, action="intersect_geodesic (composite)")
    try:
        Us, Rs, A, B = (np.array([e[k] for e in sub], float) for k in ("U", "R", "G1", "G2"))
        with np.errstate(all="ignore"), warnings.catch_warnings():
            warnings.simplefilter("ignore")
            r = H.Horosphere(Us, Rs).intersect_geodesic(A, B)
            kl = np.asarray(r.coords(M.KLEIN), float)
        if kl.shape != (len(sub), 2, n):
            run.violation(key, "composite.shape", dict(got=kl.shape, want=(len(sub), 2, n)))
        else:
            nbad = 0
            first = None
            for i, e in enumerate(sub):
                want = np.array([qv(k) for k in e["kpts"]]) if e["kpts"] else np.zeros((0, n))
                bad = meet_observe(kl[i], want, e["count"])
                if bad:
                    nbad += 1
                    first = first or dict(index=i, horosphere=[e["U"], e["R"]], geodesic=[e["G1"], e["G2"]], spec_points=e["pts"], observed=bad[1])
            if nbad:
                run.violation(key, "composite.points", dict(pairs=len(sub), wrong=nbad, first=first))
    except Exception as ex:
        run.violation(key, "raised:composite", dict(pairs=len(sub), error="%s: %s" % (type(ex).__name__, ex)))
    mid = cases[len(cases) // 2]
    run.sample(dict(kind="horosphere /\\ geodesic (n=%d)" % n, horosphere=[mid["U"], mid["R"]], geodesic=[mid["G1"], mid["G2"]], count=mid["count"], points=mid["pts"]))


# ----------------------------------------------------------------------------------------
# C. HorosphereArc construction forms
# ----------------------------------------------------------------------------------------
def arc_unit_check(H, obj, e, idx=None):
    """circle of the horosphere + arc avoiding the ideal centre, both models; returns None or (clause, text)"""
    M = H.Model
    for model, mm in (("poincare", M.POINCARE), ("halfspace", M.HALFSPACE)):
        if model == "halfspace" and not e["hs"]:
            continue
        with np.errstate(all="ignore"):
            c, r, th = obj.circle_parameters(model=mm, degrees=False)
        c, r, th = np.asarray(c, float), np.asarray(r, float), np.asarray(th, float)
        if idx is not None:
            c, r, th = c[idx], r[idx], th[idx]
        if c.shape != (2,) or th.shape != (2,):
            return ("shape", "centre %r thetas %r" % (c.shape, th.shape))
        ec, er = (qv(e["pc"]), q(e["pr"])) if model == "poincare" else (qv(e["hc"]), q(e["hr"]))
        ex_, ey = (qv(e["px"]), qv(e["py"])) if model == "poincare" else (qv(e["hx"]), qv(e["hy"]))
        first = e["pfirst" if model == "poincare" else "hfirst"]
        e1, e2 = (ex_, ey) if first == 1 else (ey, ex_)
        sc = max(1.0, er)
        if model == "halfspace":
            sc = max(sc, (1 + (qv(e["hu"]) ** 2).sum()) / 2)
        p0 = c + r * np.array([np.cos(th[0]), np.sin(th[0])])
        p1 = c + r * np.array([np.cos(th[1]), np.sin(th[1])])
        if not (np.abs(c - ec).max() <= ITOL * sc and abs(float(r) - er) <= ITOL * sc):
            return ("%s.circle" % model, "centre %r radius %r, spec %r %r" % (c.tolist(), float(r), ec.tolist(), er))
        if not (np.abs(p0 - e1).max() <= ITOL * sc and np.abs(p1 - e2).max() <= ITOL * sc):
            return ("%s.arc" % model, "angles %r are the points %r %r, spec start %r end %r" % (th.tolist(), p0.tolist(), p1.tolist(), e1.tolist(), e2.tolist()))
    return None


def replay_arcforms(run, cases, rng):
    H = hyp()
    rep = Reporter(run, "arcform")
    prev = None
    for e in cases:
        key = "U=%s:X=%s:Y=%s" % (e["U"], e["X"], e["Y"])
        U, X, Y = (np.array(e[k], float) for k in ("U", "X", "Y"))
        assert set(e["forms"]["ok"]) == {"three", "stacked", "from_object", "from_list"}
        run.case(key=("arcform", key), action="HorosphereArc forms")
        objs = {}
        for form in sorted(e["forms"]["ok"]):
            try:
                if form == "three":
                    o, idx = H.HorosphereArc(U.copy(), X.copy(), Y.copy()), None
                elif form == "stacked":
                    o, idx = H.HorosphereArc(np.stack([U, X, Y])), None
                elif form == "from_object":
                    o, idx = H.HorosphereArc(H.HorosphereArc(U.copy(), X.copy(), Y.copy())), None
                else:
                    other = prev if prev is not None else H.HorosphereArc(U.copy(), Y.copy(), X.copy())
                    o, idx = H.HorosphereArc([other, H.HorosphereArc(U.copy(), X.copy(), Y.copy())]), 1
                if not isinstance(o, H.HorosphereArc):
                    bad = ("type", type(o).__name__)
                elif np.asarray(o.proj_data).shape != ((3, 3) if idx is None else (2, 3, 3)):
                    bad = ("data_shape", "proj_data shape %r" % (np.asarray(o.proj_data).shape,))
                else:
                    bad = arc_unit_check(H, o, e, idx)
                    data = np.asarray(o.proj_data, float) if idx is None else np.asarray(o.proj_data, float)[idx]
                    if bad is None and not all(proj_rows_equal(data[i], v) for i, v in enumerate((U, X, Y))):
                        bad = ("stored_data", "rows %r, given centre / end points %r" % (data.tolist(), [e["U"], e["X"], e["Y"]]))
            except Exception as ex:
                bad = ("raised", "%s: %s" % (type(ex).__name__, ex))
            run.evaluations += 1
            if bad:
                rep("form.%s.%s" % (form, bad[0]), key + ":" + form, dict(centre=e["U"], endpoints=[e["X"], e["Y"]], form=form, observed=bad[1]))
        for form in sorted(e["forms"]["geometry_error"]):
            try:
                if form == "only_p1":
                    H.HorosphereArc(U.copy(), p1=X.copy())
                else:
                    H.HorosphereArc(U.copy(), p2=Y.copy())
                bad = "accepted"
            except Exception as ex:
                bad = None if type(ex).__name__ == "GeometryError" else "%s: %s" % (type(ex).__name__, ex)
            run.evaluations += 1
            if bad:
                rep("form.%s.must_raise_GeometryError" % form, key + ":" + form, dict(centre=e["U"], form=form, observed=bad))
        try:
            prev = H.HorosphereArc(U.copy(), X.copy(), Y.copy())
        except Exception:
            prev = None
    run.traces += len(cases)
    if cases:
        mid = cases[len(cases) // 2]
        run.sample(dict(kind="HorosphereArc forms", centre=mid["U"], endpoints=[mid["X"], mid["Y"]], forms=mid["forms"]))


# ----------------------------------------------------------------------------------------
# D. polygon edges
# ----------------------------------------------------------------------------------------
def edge_exp(edges, model):
    K = len(edges)
    if model == "poincare":
        st = np.array([e["straight"] for e in edges])
        c = np.array([qv(e["pc"]) if not e["straight"] else np.full(2, np.nan) for e in edges])
        r = np.array([math.sqrt(q(e["pr2"])) if not e["straight"] else np.nan for e in edges])
        a = np.array([poincare_surd(e["p1"]) for e in edges])
        b = np.array([poincare_surd(e["p2"]) for e in edges])
        f = np.array([e["pfirst"] for e in edges])
        extra = {}
    else:
        st = np.zeros(K, bool)
        c = np.array([qv(e["hc"]) for e in edges])
        r = np.array([math.sqrt(q(e["hr2"])) for e in edges])
        a = np.array([half_surd(e["h1"]) for e in edges])
        b = np.array([half_surd(e["h2"]) for e in edges])
        f = np.array([e["hfirst"] for e in edges])
        extra = dict(ctol=ITOL, scale=np.maximum(1.0, (1 + (c ** 2).sum(-1) + r ** 2)))
    e1, e2 = np.where((f == 1)[:, None], a, b), np.where((f == 1)[:, None], b, a)
    tol = np.full(K, TOL if model == "poincare" else ITOL)
    return dict(c=c, r=r, straight=st, e1=e1, e2=e2, tol1=tol, tol2=tol, q1=a, q2=b,
                k1=np.array([qv(e["k1"]) for e in edges]), k2=np.array([qv(e["k2"]) for e in edges]), **extra)


def replay_polygons(run, cases, rng):
    H = hyp()
    M = H.Model
    rep = Reporter(run, "polygon")
    groups = {}
    for e in cases:
        groups.setdefault(len(e["vs"]), []).append(e)
    raised = None
    for nv, es in sorted(groups.items()):
        K = len(es)
        run.evaluations += K
        run.traces += K
        run.nontrivial_count += K
        run.actions["polygon with %d vertices" % nv] = K
        V = np.array([e["vs"] for e in es], float)
        edges = [ed for e in es for ed in e["edges"]]
        keys = ["vs=%s:edge=%d" % (e["vs"], i + 1) for e in es for i in range(nv)]
        try:
            poly = H.Polygon(V.copy())
            segs = poly.get_edges()
            if np.asarray(segs.proj_data).shape != (K, nv, 2, 3):
                rep("get_edges.shape", keys[0], dict(got=np.asarray(segs.proj_data).shape))
                continue
            ends = np.asarray(segs.endpoint_coords(M.KLEIN), float).reshape(K * nv, 2, 2)
            want = np.stack([np.array([qv(ed["k1"]) for ed in edges]), np.array([qv(ed["k2"]) for ed in edges])], 1)
            rep.mask(~(np.abs(ends - want).max((-1, -2)) <= TOL), "get_edges.vertex_i_to_vertex_i_plus_1", keys, lambda i: dict(lib=fl(ends[i]), spec=fl(want[i])))
            for model, mm in (("poincare", M.POINCARE), ("halfspace", M.HALFSPACE)):
                idx = np.arange(K * nv) if model == "poincare" else np.array([i for i, ed in enumerate(edges) if ed["hs"]])
                if not len(idx):
                    continue
                with np.errstate(all="ignore"):
                    out = segs.circle_parameters(False, mm)
                    outd = segs.circle_parameters(True, mm)
                shp = [np.asarray(x).shape for x in out]
                if shp != [(K, nv, 2), (K, nv), (K, nv, 2)]:
                    rep("edges.circle_parameters.shape", keys[0], dict(got=shp))
                    continue
                flat = tuple(np.asarray(x, float).reshape((K * nv,) + np.asarray(x).shape[2:])[idx] for x in out)
                flatd = tuple(np.asarray(x, float).reshape((K * nv,) + np.asarray(x).shape[2:])[idx] for x in outd)
                check_circle(rep, H, "edges.%s" % model, 2, model, [keys[i] for i in idx], flat, edge_exp([edges[i] for i in idx], model), both_degrees=flatd)
                # the method of the polygon itself
                try:
                    with np.errstate(all="ignore"):
                        pout = poly.circle_parameters(degrees=False, model=mm)
                    same = all(np.array_equal(np.asarray(a), np.asarray(b), equal_nan=True) for a, b in zip(pout, out))
                    if not same:
                        rep("Polygon.circle_parameters.equals_edges", keys[0], dict(model=model))
                except Exception as ex:
                    raised = raised or dict(vertices=es[0]["vs"], model=model, error="%s: %s" % (type(ex).__name__, ex))
        except Exception as ex:
            rep("raised:polygon", keys[0], dict(error="%s: %s" % (type(ex).__name__, ex)))
    if raised:
        run.violation("polygon:Polygon.circle_parameters", "raised:Polygon.circle_parameters", raised)
    # unit polygons
    for e in rng.sample(cases, min(len(cases), 25)):
        key = "vs=%s:unit" % (e["vs"],)
        try:
            segs = H.Polygon(np.array(e["vs"], float)).get_edges()
            with np.errstate(all="ignore"):
                out = segs.circle_parameters(False, M.POINCARE)
            check_circle(rep, H, "unit.edges.poincare", 2, "poincare", ["%s:edge=%d" % (key, i + 1) for i in range(len(e["vs"]))], out, edge_exp(e["edges"], "poincare"))
        except Exception as ex:
            rep("raised:polygon.unit", key, dict(error="%s: %s" % (type(ex).__name__, ex)))
        run.evaluations += 1
    if cases:
        mid = cases[len(cases) // 2]
        run.sample(dict(kind="polygon edges", vertices=mid["vs"], first_edge=mid["edges"][0]))


# ----------------------------------------------------------------------------------------
# E. validation, from_angle, minkowski
# ----------------------------------------------------------------------------------------
def replay_valid(run, cases, rng):
    from geometry_tools import hyperbolic as HM
    H = hyp()
    rep_cnt = {}

    def report(key, clause, detail, fam):
        rep_cnt[fam] = rep_cnt.get(fam, 0) + 1
        if rep_cnt[fam] <= 3:
            run.violation(key, clause, detail)
    saved = HM.CHECK_LIGHT_CONE
    try:
        for e in cases:
            rows = np.array(e["rows"], float)
            key = "valid:%s:flag=%s:rows=%s" % (e["cls"], e["flag"], e["rows"])
            run.case(key=("valid", key), action="%s(%s rows, CHECK_LIGHT_CONE=%s) -> %s" % (e["cls"], len(e["rows"]), e["flag"], e["outcome"]))
            HM.CHECK_LIGHT_CONE = bool(e["flag"])
            obj = None
            try:
                with np.errstate(all="ignore"), warnings.catch_warnings():
                    warnings.simplefilter("ignore")
                    if e["cls"] == "Segment":
                        obj = H.Segment(rows.copy())
                    elif e["cls"] == "TangentVector":
                        obj = H.TangentVector(rows.copy())
                    elif e["cls"] == "Hyperplane":
                        obj = H.Hyperplane(rows.copy())
                    else:
                        obj = H.Hyperplane(rows[0].copy())
                got = "accept"
            except Exception as ex:
                got = "geometry_error" if type(ex).__name__ == "GeometryError" else "%s: %s" % (type(ex).__name__, ex)
            finally:
                HM.CHECK_LIGHT_CONE = saved
            fam = "%s:%s:%s->%s" % (e["cls"], e["flag"], e["outcome"], got.split(":")[0])
            if got != e["outcome"]:
                report(key, "outcome", dict(cls=e["cls"], rows=e["rows"], causal_types=e["types"], check_light_cone=e["flag"], spec=e["outcome"], observed=got), fam)
                continue
            if got == "accept":
                data = np.asarray(obj.proj_data, float)
                form = np.asarray(obj.minkowski, float)
                if form.shape != (3, 3) or not np.array_equal(form, np.array(e["form"], float)):
                    report(key, "minkowski", dict(observed=form.tolist(), spec=e["form"]), "minkowski")
                if e["cls"] != "HyperplaneNormal":
                    if data.shape != rows.shape or not np.array_equal(data, rows):
                        report(key, "stored_unchanged", dict(given=e["rows"], stored=data.tolist()), fam + ":stored")
                else:
                    nrm = np.asarray(obj.spacelike_vector, float)
                    ib = np.asarray(obj.ideal_basis, float)
                    ok = proj_rows_equal(nrm, rows[0]) and ib.shape == (2, 3)
                    if ok:
                        nn = np.abs(hc.mink(ib, ib)) / (ib ** 2).sum(-1)
                        orth = np.abs(hc.mink(ib, rows[0][None])) / np.sqrt((ib ** 2).sum(-1) * (rows[0] ** 2).sum())
                        ok = bool((nn <= 1e-9).all() and (orth <= 1e-9).all() and np.linalg.matrix_rank(ib) == 2)
                    if not ok:
                        report(key, "hyperplane_of_normal", dict(normal=e["rows"][0], stored=data.tolist()), fam + ":normal")
        # composite: all valid segments / tangent vectors at once, validation on
        for cls in ("Segment", "TangentVector"):
            good = [e["rows"] for e in cases if e["cls"] == cls and e["flag"] and e["outcome"] == "accept"]
            if len(good) < 2:
                continue
            key = "valid:%s:flag=True:composite" % cls
            run.case(key=key, action="%s(composite of valid units, CHECK_LIGHT_CONE=True)" % cls)
            HM.CHECK_LIGHT_CONE = True
            try:
                with np.errstate(all="ignore"):
                    getattr(H, cls)(np.array(good, float))
            except Exception as ex:
                run.violation(key, "outcome", dict(cls=cls, units=len(good), first=good[0], spec="accept", observed="%s: %s" % (type(ex).__name__, ex)))
            finally:
                HM.CHECK_LIGHT_CONE = saved
    finally:
        HM.CHECK_LIGHT_CONE = saved
    run.traces += len(cases)
    mid = cases[len(cases) // 2]
    run.sample(dict(kind="validation case", **{k: mid[k] for k in ("cls", "rows", "types", "flag", "outcome")}))


def replay_angles(run, cases, rng):
    H = hyp()
    rep = Reporter(run, "angle")
    for e in cases:
        a, b, c = e["t"]
        theta = math.atan2(b, a)
        key = "t=%s:dim=%d:dtype=%s" % (e["t"], e["dim"], e["dtype"])
        run.case(key=("angle", key), action="from_angle -> %s" % e["outcome"])
        kw = {} if e["dtype"] == "none" else dict(dtype=np.dtype(e["dtype"]))
        try:
            pt = H.IdealPoint.from_angle(theta, dimension=e["dim"], **kw)
            got = "accept"
        except Exception as ex:
            got = "geometry_error" if type(ex).__name__ == "GeometryError" else "%s: %s" % (type(ex).__name__, ex)
        if got != e["outcome"]:
            rep("from_angle.outcome", key, dict(angle=theta, dimension=e["dim"], spec=e["outcome"], observed=got))
            continue
        if got != "accept":
            continue
        want = np.array(e["point"], float)
        data = np.asarray(pt.proj_data, float)
        if not isinstance(pt, H.IdealPoint) or data.shape != want.shape or data.dtype.kind != "f" or not proj_rows_equal(data, want):
            rep("from_angle.point", key, dict(angle=theta, observed=data.tolist(), spec=e["point"], type=type(pt).__name__))
        if not np.array_equal(np.asarray(pt.minkowski, float), np.array(e["form"], float)):
            rep("minkowski", key, dict(observed=np.asarray(pt.minkowski).tolist()))
    # arrays of angles, and the alias in H^2
    for dim in (2, 3, 4):
        es = [e for e in cases if e["dim"] == dim and e["dtype"] == "none"]
        th = np.array([math.atan2(e["t"][1], e["t"][0]) for e in es])
        want = np.array([e["point"] for e in es], float)
        key = "array:dim=%d" % dim
        try:
            for shape in ((len(es),), (1, len(es))):
                pt = H.IdealPoint.from_angle(th.reshape(shape), dimension=dim)
                data = np.asarray(pt.proj_data, float)
                if data.shape != shape + (dim + 1,) or not proj_rows_equal(data.reshape(-1, dim + 1), want):
                    rep("from_angle.array", key, dict(shape=shape, observed_shape=data.shape))
            if dim == 2:
                for e in es:
                    d2 = np.asarray(H.get_boundary_point(math.atan2(e["t"][1], e["t"][0])).proj_data, float)
                    if not proj_rows_equal(d2, np.array(e["point"], float)):
                        rep("get_boundary_point", "t=%s" % e["t"], dict(observed=d2.tolist(), spec=e["point"]))
        except Exception as ex:
            rep("raised:from_angle.array", key, dict(error="%s: %s" % (type(ex).__name__, ex)))
        run.evaluations += len(es)
    run.traces += len(cases)


# ----------------------------------------------------------------------------------------
def run(run, replay=None):
    quick = run.tier == "quick"
    rng = random.Random(run.seed)
    run.rule = ("boundary arcs: one case per transition of HypBoundaryArc.tla walked with real objects (all obligations of the target state); "
                "other families: one case per CASE record; distinct_nontrivial = distinct arc states + polygons + keyed cases")
    run.assumptions += [
        "H^2 for boundary arcs, HorosphereArc forms, polygons and the validation table; H^2 and H^3 for horosphere /\\ geodesic",
        "isometries: the exact atoms of HypIso (sheet preserving); end points / horospheres rational (Pythagorean ideal points, reference "
        "points with -<x,x> a perfect square), crossing points rational by construction",
        "tolerance 1e-9, 1e-6 where the library passes through conformal coordinates of ideal points, 1e-5 at tangencies",
        "functions needing sage / snappy are out of scope: IdealPoint.from_angle(base_ring=...), HyperbolicObject.minkowski with a literal ring",
    ]
    W = max(1, min(3, core.NCPU // 2))
    hm = dict(Kinds=set(), CoefMax=1, NearM={10}, Bw=1, Bs=1)
    inv_meet = ["MeetLaws", "FormLaws", "PolyLaws", "XEmit"]
    inv_arc = ["EndsIdeal", "Witnesses", "Accumulated", "AtomsSheet", "FormPreserved", "Normalised"]
    if quick:
        arcc = dict(N=2, MaxLen=2, BA=5, BP=1)
        m2 = dict(N=2, B=13, Bx=5, Thin=3, CThin=11, XKinds={"meet", "arcform", "polygon"}, Bp=3, PThin=101, **hm)
        m3 = dict(N=3, B=3, Bx=3, Thin=29, CThin=113, XKinds={"meet"}, Bp=1, PThin=1, **hm)
    else:
        arcc = dict(N=2, MaxLen=2, BA=13, BP=5)
        m2 = dict(N=2, B=13, Bx=9, Thin=1, CThin=2, XKinds={"meet", "arcform", "polygon"}, Bp=3, PThin=11, **hm)
        m3 = dict(N=3, B=3, Bx=3, Thin=5, CThin=7, XKinds={"meet"}, Bp=1, PThin=1, **hm)
    jobs = [dict(name="HypBoundaryArc", module="hyp/HypBoundaryArc.tla", prefix="EMIT ", workers=W,
                 cfg=core.cfg(constants=arcc, init="ArcInit", next_="ArcNext", invariants=inv_arc, view="ArcView", action_constraints=["ArcEmit"])),
            dict(name="HypHoroMeet_n2", module="hyp/HypHoroMeet.tla", prefix="CASE ", workers=W,
                 cfg=core.cfg(constants=m2, init="XInit", next_="XNext", invariants=inv_meet)),
            dict(name="HypHoroMeet_n3", module="hyp/HypHoroMeet.tla", prefix="CASE ", workers=W,
                 cfg=core.cfg(constants=m3, init="XInit", next_="XNext", invariants=inv_meet)),
            dict(name="HypValid", module="hyp/HypValid.tla", prefix="CASE ", workers=1,
                 cfg=core.cfg(constants=dict(N=2), invariants=["Monotone", "ShapeFirst", "TangentMeaning", "AngleIdeal", "EmitCase"]))]
    res = run_jobs(run, jobs, parallel=2 if core.NCPU <= 4 else 4)
    arc_walk(run, res["HypBoundaryArc"].emits, rng)
    count = {}
    for name, n in (("HypHoroMeet_n2", 2), ("HypHoroMeet_n3", 3)):
        fams = {}
        for e in sorted(res[name].emits, key=jkey):
            fams.setdefault(e["kind"], []).append(e)
        for k, v in fams.items():
            count["%s n=%d" % (k, n)] = len(v)
        if not fams.get("meet"):
            raise core.MachineryFailure("no horosphere /\\ geodesic cases for n=%d" % n)
        replay_meets(run, n, fams["meet"], rng)
        if n == 2:
            for need in ("arcform", "polygon"):
                if not fams.get(need):
                    raise core.MachineryFailure("no %s cases (vacuous)" % need)
            replay_arcforms(run, fams["arcform"], rng)
            replay_polygons(run, fams["polygon"], rng)
    vc = sorted(res["HypValid"].emits, key=jkey)
    replay_valid(run, [e for e in vc if e["kind"] == "valid"], rng)
    replay_angles(run, [e for e in vc if e["kind"] == "angle"], rng)
    count["validation"] = sum(1 for e in vc if e["kind"] == "valid")
    count["from_angle"] = sum(1 for e in vc if e["kind"] == "angle")
    run.extra["cases_by_family"] = count
