"""C10 — automaton operations transform the accepted language as documented.

spec/fsa/FSAOps.tla: TLC checks, on EVERY deterministic automaton over the constants, the
theorems relating acceptance, enumeration, k-multiples, the recurrent version (greatest
fixed point), the shortest-path version and relabelling, and emits per automaton the table
of specified results.  spec/fsa/Prune.tla explores every order of pruning dead vertices
(confluence).  Conformance: the product exploration of C09 (every history of FSA.tla
actions up to depth k on the real object) runs, on every new concrete state, every
language-level operation of the library against the table of its abstract state; results of
operations are fed back (queries on the derived automata).
"""
from .. import core
from .. import fsa_ops
from . import c09


def ops_table(run, verts, labels, maxlen, maxmult, workers):
    c = core.cfg(constants=dict(Verts=set(verts), Labels=set(labels), Start=0, MaxLen=maxlen,
                                MaxMult=maxmult, Foreign="z"),
                 invariants=["EnumerationIsAcceptance", "EnumerateWordsBound", "MultipleLanguage", "MultipleDeterministic",
                             "RecurrentGreatest", "ShortestPathsSound", "RenameCommutes", "EmitObs"])
    r = run.tlc("fsa/FSAOps.tla", c, name="FSAOps_%dv%dl" % (len(verts), len(labels)), workers=workers,
                emit_prefix="OBS ")
    table = {}
    for o in r.emits:
        table[fsa_ops.obs_key(o)] = fsa_ops.prepare(o)
    if r.emits:
        o = r.emits[len(r.emits) // 2]
        run.sample(dict(kind="FSAOps table row", vs=o["vs"], E=o["E"], rec=o["rec"], mult2=o["mult"][1] if o["mult"] else None))
    return table


def prune_confluence(run, verts, labels):
    c = core.cfg(constants=dict(Verts=set(verts), Labels=set(labels)),
                 invariants=["Confluent", "TypeOK"])
    run.tlc("fsa/Prune.tla", c, name="Prune", workers=min(8, core.NCPU))


def run(run, replay=None):
    quick = run.tier == "quick"
    run.rule = ("every deterministic automaton over the universe is a TLC state of FSAOps.tla; every history of "
                "FSA.tla actions up to depth k is executed on the real FSA and on each new concrete state the "
                "whole operation battery is compared with the spec table; distinct_nontrivial = distinct "
                "(abstract state, concrete fingerprint) pairs on which the battery ran")
    run.assumptions += [
        "universe 3 vertices x 2 labels (+ 2 x 3 thorough), words up to length 3 (4 thorough) plus a foreign letter, k <= 3",
        "edge_ties=False and several start vertices are not covered",
    ]
    prune_confluence(run, [0, 1, 2], ["a", "b"])
    if quick:
        table = ops_table(run, [0, 1, 2], ["a", "b"], 3, 3, workers=core.NCPU)
        c09.product(run, [0, 1, 2], ["a", "b"], max_build=2, depth=1, ops=table, tag="+ops")
    else:
        table = ops_table(run, [0, 1, 2], ["a", "b"], 4, 3, workers=core.NCPU)
        c09.product(run, [0, 1, 2], ["a", "b"], max_build=3, depth=3, ops=table, tag="+ops")
        table = ops_table(run, [0, 1], ["a", "b", "c"], 3, 3, workers=core.NCPU)
        c09.product(run, [0, 1], ["a", "b", "c"], max_build=3, depth=3, ops=table, tag="+ops_3labels")
    from . import c10_big
    c10_big.run(run)
