"""X02 (extension, outside the listed properties) — FSA.initial_rejected_subword and kbmag_utils.dict_to_dot.

spec/fsa/FSAExtras.tla extends FSAOps.tla: on EVERY deterministic automaton of the universe TLC checks that the
specified rejected prefix is rejected, minimal and adjacent to the accepted prefix, and emits per automaton the table of
specified results.  Conformance: each automaton is built as a real FSA through three constructor routes and both
functions are compared with the table; the object must be unchanged afterwards.
"""
import re
from .. import core
from .. import fsa_common as fc


def W(w):
    return "".join(w)


def build(fsa, vs, E, route):
    if route == "dict":
        d = {v: {} for v in sorted(vs)}
        for a, l, b in sorted(E):
            d[a][l] = b
        return fsa.FSA(d, start_vertices=[0])
    if route == "out_dict":
        d = {v: {} for v in sorted(vs)}
        for a, l, b in sorted(E):
            d[a].setdefault(b, []).append(l)
        return fsa.FSA(d, start_vertices=[0], graph_dict=False)
    f = fsa.FSA({}, start_vertices=[0])
    f.add_vertices(sorted(vs))
    f.add_edges([(a, b, l) for a, l, b in sorted(E, key=lambda e: (e[2], e[0], e[1]))])
    return f


DOT_EDGE = re.compile(r'^\s*(\S+) -> (\S+) \[label="(.*)"\];$')
DOT_SINK = re.compile(r'^\s*(\S+);$')


def check_dot(text, name, pairs, sinks):
    lines = text.split("\n")
    if lines[0] != "digraph %s {" % name or lines[-2:] != ["}", ""]:
        return "frame", text[:80]
    got_pairs, got_sinks = [], []
    for ln in lines[1:-2]:
        m = DOT_EDGE.match(ln)
        if m:
            got_pairs.append((int(m.group(1)), int(m.group(2)), m.group(3)))
            continue
        m = DOT_SINK.match(ln)
        if m:
            got_sinks.append(int(m.group(1)))
            continue
        return "line", ln
    if sorted(got_sinks) != sorted(sinks):
        return "sinks", "%r, spec %r" % (got_sinks, sorted(sinks))
    if sorted((a, b) for a, b, _ in got_pairs) != sorted(pairs):
        return "pairs", "%r, spec %r" % (got_pairs, sorted(pairs))
    for a, b, l in got_pairs:
        if l not in pairs[(a, b)]:
            return "label", "%d -> %d labelled %r, spec one of %r" % (a, b, l, pairs[(a, b)])
    return None


def run(run, replay=None):
    quick = run.tier == "quick"
    run.rule = ("every deterministic automaton over the universe is a TLC state of FSAExtras.tla; each is built as a real "
                "FSA through 3 constructor routes; initial_rejected_subword on every probe word and dict_to_dot on the "
                "out view are compared with the emitted table")
    run.exhaustive = True
    geo = core.import_repo()
    fsa = fc.fsa_mod()
    from geometry_tools.automata import kbmag_utils
    verts, labels, maxlen = ([0, 1, 2], ["a", "b"], 3) if quick else ([0, 1, 2], ["a", "b"], 4)
    universes = [(verts, labels, maxlen)] + ([] if quick else [([0, 1], ["a", "b", "c"], 3)])
    for verts, labels, maxlen in universes:
        c = core.cfg(constants=dict(Verts=set(verts), Labels=set(labels), Start=0, MaxLen=maxlen, MaxMult=1, Foreign="z"),
                     invariants=["RejectedMinimal", "AcceptedRejectedAdjacent", "DotMentionsAll", "EmitObsX"])
        r = run.tlc("fsa/FSAExtras.tla", c, name="FSAExtras_%dv%dl" % (len(verts), len(labels)), workers=core.NCPU,
                    emit_prefix="OBS ")
        for o in r.emits:
            vs, E = set(o["vs"]), {tuple(e) for e in o["E"]}
            pairs = {(p[0], p[1]): set(p[2]) for p in o["pairs"]}
            for route in ("dict", "out_dict", "edges"):
                key = "fsa:%s:%s:%s" % (sorted(vs), sorted(E), route)
                f = build(fsa, vs, E, route)
                for w, acc, rej in o["rej"]:
                    w = W(w)
                    run.case((key, w), nontrivial=True, action="initial_rejected_subword")
                    got = f.initial_rejected_subword(w)
                    if acc:
                        if got is not None:
                            run.violation("rejected_subword:accepted_word", "initial_rejected_subword.accepted_is_none",
                                          dict(automaton=key, word=w, got=got, spec=None))
                    elif got != W(rej):
                        run.violation(key + ":" + w, "initial_rejected_subword.value", dict(word=w, got=got, spec=W(rej)))
                    if (not acc) and got is not None and f.accepts(got):
                        run.violation(key + ":" + w, "initial_rejected_subword.is_rejected", dict(word=w, got=got))
                if True:
                    run.case((key, "dot"), nontrivial=bool(E), action="dict_to_dot")
                    text = kbmag_utils.dict_to_dot(f.out_dict, name="A", newlines=True)
                    bad = check_dot(text, "A", pairs, o["sinks"])
                    if bad:
                        run.violation(key + ":dot", "dict_to_dot." + bad[0], dict(detail=bad[1]))
                    flat = kbmag_utils.dict_to_dot(f.out_dict, name="A", newlines=False)
                    if flat != text.replace("\n", "").replace("\t", ""):
                        run.violation(key + ":dot", "dict_to_dot.newlines_only_layout", dict(flat=flat[:200]))
                bad = fc.project_check(f, vs, E)
                if bad:
                    run.violation(key, "object_changed_by_query:" + bad[0], dict(detail=bad[1]))
                run.traces += 1
        if r.emits:
            o = r.emits[len(r.emits) // 2]
            run.sample(dict(kind="FSAExtras table row", vs=o["vs"], E=o["E"], rej=o["rej"][:4], pairs=o["pairs"], sinks=o["sinks"]))
    run.assumptions += ["universe 3 vertices x 2 labels (+ 2 x 3 thorough), probe words up to length 3 (4 thorough) plus a foreign letter",
                        "run_kbmag (external kbmag binaries at a hard-coded path) is out of scope"]
