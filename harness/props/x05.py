"""X05 (extension check) — Lie-algebra coordinates, Killing form of form algebras, subspace actions,
Transformation.commute, ConvexPolygon, data validation.

Specifications (the contract of every function is written at the top of its module):
  spec/lie/LieAlg.tla      gl_n / sl_n coordinates, the differential of a bilinear form, so(B) with an exact integer
                           basis, structure constants and Killing form, the adjoint action of O(B)(Z) on so(B) along a
                           walk by integer reflections, the determinant form on Hermitian 2x2 matrices
  spec/lie/SubAction.tla   restriction of A = F U F^-1 to an invariant subspace, in several bases; a non-invariant one
  spec/proj/Commute.tla    commuting verdicts of a pool of integer matrices; elementwise / pairwise tables of composites
  spec/proj/ConvexHull.tla exact convex hull (gift wrapping) of histories of integer points with positive weights
  spec/proj/ProjData.tla   accept / refuse verdicts of ProjectiveObject.set along histories; automatic affine chart

Conformance (spec -> code): every emitted case / transition is replayed through the library and compared with the exact
value.  Functions whose public entry point fails on every input of the domain (see the final report / known findings)
are additionally bound at the level of the mechanism they are made of, so that the specification of that mechanism is
still tied to the code (form_adjoint -> subspace_action(gln_adjoint(g), basis); ConvexPolygon -> _convexify()).
"""
import json
import random
import warnings
from concurrent.futures import ThreadPoolExecutor

import numpy as np

from .. import core

TOL = 1e-9


def lie():
    from geometry_tools import lie as L
    return L


def proj():
    from geometry_tools import projective
    return projective


def gerr():
    from geometry_tools.base import GeometryError
    return GeometryError


def err(ex):
    return "%s: %s" % (type(ex).__name__, str(ex)[:200])


def num(x):
    a = np.asarray(x)
    if a.dtype == object:
        a = a.astype(complex)
        if not np.abs(a.imag).max(initial=0) > 0:
            a = a.real
    return a


def close(a, b, tol=TOL):
    a, b = np.asarray(a), np.asarray(b)
    if a.shape != b.shape:
        return False
    with np.errstate(all="ignore"):
        return bool(np.isfinite(a).all() and np.abs(a - b).max(initial=0) <= tol * max(1.0, np.abs(b).max(initial=0)))


def lst(a):
    a = np.asarray(a)
    if np.iscomplexobj(a):
        return np.round(a, 6).astype(str).tolist()
    return np.round(a.astype(float), 6).tolist()


def quiet(f, *a, **k):
    with warnings.catch_warnings():
        warnings.simplefilter("ignore")
        return f(*a, **k)


def tab_of(r, prefix="TAB "):
    for line in r.stdout.splitlines():
        if line.startswith('"' + prefix):
            return json.loads(json.loads(line)[len(prefix):])
    raise core.MachineryFailure("no %s table" % prefix.strip())


def obs_of(r):
    out = []
    for line in r.stdout.splitlines():
        if line.startswith('"OBS '):
            out.append(json.loads(json.loads(line)[4:]))
    return out


def skey(x):
    return json.dumps(x, separators=(",", ":"))


def projector(cols):
    q, _ = np.linalg.qr(np.asarray(cols, float))
    return q @ q.T


# ========================================================================================
# LieAlg.tla
# ========================================================================================
def lie_tables(run, form, tab, first):
    L = lie()
    from geometry_tools import utils
    n = tab["n"]
    B = np.array(tab["B"], dtype=float)
    tag = "lie:%s" % form

    def viol(key, clause, **kw):
        run.violation(key, clause, dict(form=form, B=tab["B"], **kw))

    # ---- coordinates
    Xs = np.array([p["X"] for p in tab["pool"]], dtype=float)
    gls = np.array([p["gl"] for p in tab["pool"]], dtype=float)
    Ts = np.array([p["T"] for p in tab["pool"]], dtype=float)
    sls = np.array([p["sl"] for p in tab["pool"]], dtype=float)
    k = len(Xs)
    for nm, to, frm, mats, vecs in (("gln", L.gln_lie_algebra_coords, L.coords_to_gln_lie_algebra, Xs, gls),
                                    ("sln", L.sln_lie_algebra_coords, L.coords_to_sln_lie_algebra, Ts, sls)):
        for dt in (float, np.int64):
            for shp in [None, (k,), (1, k)]:
                key = "%s:coords:%s:%s:%r" % (tag, nm, np.dtype(dt).name, shp)
                run.case(key=key, action="coords." + nm)
                try:
                    if shp is None:
                        for i in range(k):
                            c = num(quiet(to, mats[i].astype(dt)))
                            m = num(quiet(frm, vecs[i].astype(dt)))
                            if not close(c, vecs[i]):
                                viol(key, "%s_lie_algebra_coords.value" % nm, matrix=mats[i].tolist(), library=lst(c), spec=vecs[i].tolist())
                                break
                            if m.size != n * n or not close(m.reshape(n, n), mats[i]):
                                viol(key, "coords_to_%s_lie_algebra.value" % nm, coords=vecs[i].tolist(), library=lst(m), spec=mats[i].tolist())
                                break
                            back = num(quiet(to, m.reshape(n, n)))
                            if not close(back, vecs[i]):
                                viol(key, "%s_coords.round_trip" % nm, coords=vecs[i].tolist(), library=lst(back))
                                break
                    else:
                        c = num(quiet(to, mats.reshape(shp + (n, n)).astype(dt)))
                        m = num(quiet(frm, vecs.reshape(shp + (vecs.shape[-1],)).astype(dt)))
                        if c.shape != shp + (vecs.shape[-1],) or not close(c.reshape(vecs.shape), vecs):
                            viol(key, "%s_lie_algebra_coords.batch" % nm, shape=list(shp), got=list(c.shape))
                        # the packaging of the batch axes is not specified: only the sequence of matrices
                        if m.size != mats.size or m.shape[-2:] != (n, n) or not close(m.reshape(mats.shape), mats):
                            viol(key, "coords_to_%s_lie_algebra.batch" % nm, shape=list(shp), got=list(m.shape))
                except Exception as ex:
                    viol(key, "raised:coords." + nm, error=err(ex))
                run.evaluations += k
    key = tag + ":coords:bad_length"
    run.case(key=key, action="coords.gln")
    try:
        quiet(L.coords_to_gln_lie_algebra, np.arange(n * n - 1.0) if n * n - 1 not in (1, 4, 9, 16) else np.arange(n * n + 1.0))
        viol(key, "coords_to_gln_lie_algebra.non_square_length_refused")
    except gerr():
        pass
    except Exception as ex:
        viol(key, "raised:coords_to_gln_lie_algebra.non_square_length", error=err(ex))
    # ---- differential and its kernel
    D = np.array(tab["diff"], dtype=float)
    N = np.array(tab["nmat"], dtype=float)
    key = tag + ":differential"
    run.case(key=key, action="bilinear_form_differential")
    try:
        got = num(quiet(L.bilinear_form_differential, B.copy()))
        if not close(got, D):
            viol(key, "bilinear_form_differential.value", library=lst(got), spec=tab["diff"])
        ker = num(quiet(utils.kernel, got.astype(float)))
        if ker.shape != (n * n, tab["dim"]) or not close(projector(ker), projector(N), 1e-8):
            viol(key, "bilinear_form_differential.kernel_is_so(B)", kernel_shape=list(ker.shape), dim=tab["dim"])
    except Exception as ex:
        viol(key, "raised:bilinear_form_differential", error=err(ex))
    # ---- Killing form
    K = np.array(tab["killing"], dtype=float)
    Klib = None
    key = tag + ":killing"
    run.case(key=key, action="form_alg_killing_form")
    try:
        Klib = num(quiet(L.form_alg_killing_form, B.copy(), basis=N.copy(), dtype=float))
        if not close(Klib, K):
            viol(key, "killing_form.value", library=lst(Klib), spec=tab["killing"], spec_factor_of_trace_form=tab["killing_factor"])
            Klib = None
        p, q = tab["signature"]
        if p + q == n:
            K2 = num(quiet(L.so_killing_form, p, q, basis=N.copy(), dtype=float))
            if not close(K2, K):
                viol(key + ":so", "so_killing_form.value", p=p, q=q, library=lst(K2), spec=tab["killing"])
    except Exception as ex:
        viol(key, "raised:form_alg_killing_form", error=err(ex))
    # the documented call: form and basis only
    key = "lie:killing:documented_call"
    run.case(key=key + form, action="form_alg_killing_form")
    try:
        K3 = num(quiet(L.form_alg_killing_form, B.copy(), basis=N.copy()))
        if not close(K3, K):
            viol(key, "killing_form.documented_call", library=lst(K3), spec=tab["killing"])
    except Exception as ex:
        viol(key, "killing_form.documented_call", call="form_alg_killing_form(B, basis=N)", error=err(ex))
    # ---- Hermitian determinant form (independent of the form: once)
    if first:
        F = np.array(tab["herm2"], dtype=float) / 2
        key = "lie:herm2_bilinear_form"
        run.case(key=key, action="herm2_bilinear_form")
        try:
            got = num(quiet(L.herm2_bilinear_form))
            if not close(got, F):
                viol(key, "herm2.determinant_form", library=lst(got), spec=F.tolist())
        except Exception as ex:
            viol(key, "herm2.determinant_form", error=err(ex))
        for rec in tab["hermgroup"]:
            gm = np.array(rec["g"]["re"], dtype=float) + 1j * np.array(rec["g"]["im"], dtype=float)
            n2 = rec["det"][0] ** 2 + rec["det"][1] ** 2
            key = "lie:herm_action:%s" % skey(rec["g"])
            run.case(key=key, action="sl2c_herm_action")
            try:
                HA = num(quiet(L.sl2c_herm_action, gm))
                if np.iscomplexobj(HA) or not close(HA.T @ F @ HA, n2 * F):
                    viol(key, "herm_action.scales_determinant_form", g=lst(gm), det_norm=n2, got=lst(HA.T @ F @ HA))
            except Exception as ex:
                viol(key, "raised:sl2c_herm_action", error=err(ex))
    return Klib


def lie_walk(run, form, r, first):
    L = lie()
    tab = tab_of(r)
    Klib = lie_tables(run, form, tab, first)
    n = tab["n"]
    B = np.array(tab["B"], dtype=float)
    N = np.array(tab["nmat"], dtype=float)
    obs = {}
    for o in obs_of(r):
        k = skey(o["g"])
        if k not in obs or o["len"] < obs[k]["len"]:
            obs[k] = o
    Xs = np.array([p["X"] for p in tab["pool"]], dtype=float)
    Ts = np.array([p["T"] for p in tab["pool"]], dtype=float)
    vals = {}

    def state(k):
        """library value of the adjoint on so(B) in the spec's basis, bound at mechanism level"""
        if k in vals:
            return vals[k]
        o = obs[k]
        g = np.array(o["g"], dtype=float)
        key = "lie:%s:g=%s" % (form, k)
        run.case(key=key, action="subspace_action(gln_adjoint)")
        v = None
        try:
            ad = num(quiet(L.gln_adjoint, g.copy())).astype(float)
            if not close(ad, np.array(o["adgl"], dtype=float)):
                run.violation(key, "gln_adjoint.value", dict(form=form, g=o["g"], library=lst(ad)))
            else:
                # adjoint in the coordinates of gl_n / sl_n
                gi = np.linalg.inv(g)
                for X, T in zip(Xs, Ts):
                    if not close(ad @ L.gln_lie_algebra_coords(X), L.gln_lie_algebra_coords(g @ X @ gi), 1e-8):
                        run.violation(key, "gln_adjoint.in_coordinates", dict(form=form, g=o["g"], X=X.tolist()))
                    ads = num(quiet(L.sln_adjoint, g.copy())).astype(float)
                    if not close(ads @ L.sln_lie_algebra_coords(T), L.sln_lie_algebra_coords(g @ T @ gi), 1e-8):
                        run.violation(key, "sln_adjoint.in_coordinates", dict(form=form, g=o["g"], X=T.tolist()))
                fa = num(quiet(L.subspace_action, ad, N.copy()))
                if not close(fa, np.array(o["formad"], dtype=float), 1e-8):
                    run.violation(key, "subspace_action.restriction_of_adjoint", dict(form=form, g=o["g"], library=lst(fa), spec=o["formad"]))
                else:
                    v = fa
                    if Klib is not None and not close(fa.T @ Klib @ fa, Klib, 1e-8):
                        run.violation(key, "form_adjoint.preserves_killing_form", dict(form=form, g=o["g"]))
        except Exception as ex:
            run.violation(key, "raised:subspace_action(gln_adjoint)", dict(form=form, g=o["g"], error=err(ex)))
        run.evaluations += 3
        vals[k] = v
        return v

    ntrans = 0
    for e in r.emits:
        fk, tk = skey(e["from"]), skey(e["to"])
        rk = skey(e["refl"])
        if rk not in obs:
            continue
        a, b, c = state(fk), state(rk), state(tk)
        ntrans += 1
        if a is not None and b is not None and c is not None and not close(c, a @ b, 1e-8):
            run.violation("lie:%s:g=%s:v=%s" % (form, fk, e["v"]), "form_adjoint.homomorphism",
                          dict(form=form, g=e["from"], reflection_in=e["v"], library_product=lst(a @ b), library_value=lst(c)))
    run.traces += ntrans
    run.nontrivial_count += len(vals)
    # ---- the public entry points of the adjoint on so(B)
    g1 = np.array(r.emits[0]["refl"], dtype=float) if r.emits else np.eye(n)
    for nm, call in (("form_adjoint", lambda g_: L.hom.form_adjoint(B.copy())(g_)),
                     ("form_adjoint_action", lambda g_: L.form_adjoint_action(g_, B.copy()))):
        key = "lie:%s" % nm
        run.case(key=key + form, action=nm)
        try:
            from geometry_tools import utils
            Mx = num(quiet(call, g1.copy()))
            Nk = num(quiet(utils.kernel, num(L.bilinear_form_differential(B.copy())).astype(float)))
            ad = num(quiet(L.gln_adjoint, g1.copy())).astype(float)
            if not close(Nk @ Mx, ad @ Nk, 1e-8):
                run.violation(key, nm + ".restriction_of_adjoint", dict(form=form, g=g1.tolist(), library=lst(Mx)))
        except Exception as ex:
            run.violation(key, nm + ".callable", dict(form=form, g=g1.tolist(), call=nm, error=err(ex)))
    if r.emits:
        e = r.emits[len(r.emits) // 2]
        run.sample(dict(kind="reflection step in O(B)(Z)", form=form, B=tab["B"], **{"from": e["from"], "reflection_in": e["v"], "to": e["to"],
                        "spec_adjoint_on_so(B)_of_target": obs[skey(e["to"])]["formad"]}))


# ========================================================================================
# SubAction.tla
# ========================================================================================
def sub_replay(run, cfg, r):
    L = lie()
    m, k = cfg[0], cfg[1]
    stackA, stackW, stackM = [], [], []
    for o in r.emits:
        A = np.array(o["A"], dtype=float)
        key0 = "subaction:m=%d:k=%d:A=%s" % (m, k, skey(o["A"]))
        for ci, c in enumerate(o["cases"]):
            W = np.array(c["W"], dtype=float)
            Mx = np.array(c["action"], dtype=float)
            key = key0 + ":%d" % ci
            run.case(key=key, action="subspace_action")
            try:
                got = num(quiet(L.subspace_action, A.copy(), W.copy()))
                if not close(got, Mx, 1e-8):
                    run.violation(key, "subspace_action.value", dict(A=o["A"], W=c["W"], library=lst(got), spec=c["action"]))
            except Exception as ex:
                run.violation(key, "raised:subspace_action", dict(A=o["A"], W=c["W"], error=err(ex)))
            run.evaluations += 1
            if ci == len(o["cases"]) - 1:
                stackA.append(A); stackW.append(W); stackM.append(Mx)
        # refusals
        Wn = np.array(o["not_invariant"], dtype=float)
        for nm, call in (("not_invariant", lambda: L.subspace_action(A.copy(), Wn.copy())),
                         ("non_square", lambda: L.subspace_action(A[:-1].copy(), np.array(o["cases"][0]["W"], dtype=float)))):
            try:
                got = quiet(call)
                run.violation(key0 + ":" + nm, "subspace_action.refuses:" + nm, dict(A=o["A"], W=o["not_invariant"], returned=lst(got)))
            except ValueError:
                pass
            except Exception as ex:
                run.violation(key0 + ":" + nm, "raised:subspace_action.refuses:" + nm, dict(A=o["A"], error=err(ex)))
            run.evaluations += 1
    # families of inputs with one stable key each
    if r.emits:
        o = r.emits[-1]
        A = np.array(o["A"], dtype=float)
        W = np.array(o["cases"][0]["W"], dtype=float)
        try:
            got = quiet(L.subspace_action, A.copy(), W[:-1].copy())
            run.violation("subaction:wrong_ambient_dimension", "subspace_action.refuses:wrong_ambient_dimension", dict(A=o["A"], returned=lst(got)))
        except ValueError:
            pass
        except Exception as ex:
            run.violation("subaction:wrong_ambient_dimension", "subspace_action.refuses:wrong_ambient_dimension",
                          dict(A=o["A"], W_shape=list(W[:-1].shape), expected="ValueError", error=err(ex)))
        if k == 1:
            try:
                got = num(quiet(L.subspace_action, A.copy(), W[:, 0].copy()))
                if got.size != 1 or not close(got.reshape(1, 1), np.array(o["cases"][0]["action"], dtype=float), 1e-8):
                    run.violation("subaction:vector_subspace", "subspace_action.vector_subspace", dict(A=o["A"], w=W[:, 0].tolist(), library=lst(got)))
            except Exception as ex:
                run.violation("subaction:vector_subspace", "subspace_action.vector_subspace", dict(A=o["A"], w=W[:, 0].tolist(), error=err(ex)))
    # elementwise composites
    S = len(stackA)
    for shp in [(S,)] + ([(S // 2, 2)] if S >= 2 else []) + ([(1, S // 3, 3)] if S >= 3 else []):
        cnt = int(np.prod(shp))
        key = "subaction:m=%d:k=%d:composite:%r" % (m, k, shp)
        run.case(key=key, action="subspace_action.composite")
        try:
            got = num(quiet(L.subspace_action, np.array(stackA[:cnt]).reshape(shp + (m, m)), np.array(stackW[:cnt]).reshape(shp + (m, k))))
            want = np.array(stackM[:cnt]).reshape(shp + (k, k))
            if not close(got, want, 1e-8):
                run.violation(key, "subspace_action.composite", dict(shape=list(shp), got_shape=list(got.shape)))
        except Exception as ex:
            run.violation(key, "raised:subspace_action.composite", dict(shape=list(shp), error=err(ex)))
        run.evaluations += cnt
    run.traces += len(r.emits)
    run.nontrivial_count += len(r.emits)
    if r.emits:
        o = r.emits[len(r.emits) // 2]
        run.sample(dict(kind="invariant subspace", A=o["A"], W=o["cases"][-1]["W"], spec_action=o["cases"][-1]["action"]))


# ========================================================================================
# Commute.tla
# ========================================================================================
def commute_replay(run, n, r):
    P = proj()
    tab = tab_of(r)
    pool = [np.array(x, dtype=float) for x in tab["pool"]]
    table = np.array(tab["table"], dtype=bool)

    def tr(idx, layout="column", scale=1.0, shape=None):
        a = np.array([pool[i - 1] for i in idx]) * scale
        if shape is not None:
            a = a.reshape(shape + (n, n))
        return P.Transformation(a.copy(), column_vectors=True) if layout == "column" else P.Transformation(a.swapaxes(-1, -2).copy())

    for i in range(len(pool)):
        for j in range(len(pool)):
            for layout, sc in (("column", 1.0), ("row", 1.0), ("column", -2.5)):
                key = "commute:unit:n=%d:%d:%d:%s:%g" % (n, i + 1, j + 1, layout, sc)
                run.case(key=key, action="commute.unit")
                try:
                    a = tr([i + 1], layout, sc, ())
                    b = tr([j + 1], layout, 1.0, ())
                    got = np.asarray(quiet(a.commute, b))
                    if got.shape != () or bool(got) != bool(table[i, j]):
                        run.violation(key, "commute.unit", dict(A=pool[i].tolist(), B=pool[j].tolist(), layout=layout, scale=sc,
                                                               library=got.tolist(), spec=bool(table[i, j])))
                except Exception as ex:
                    run.violation(key, "raised:commute.unit", dict(A=pool[i].tolist(), B=pool[j].tolist(), error=err(ex)))
                run.evaluations += 1
    for o in r.emits:
        s1, s2 = o["s1"], o["s2"]
        key = "n=%d:s1=%s:s2=%s" % (n, s1, s2)
        run.case(key="commute:" + key, action="commute.composite")
        if len(s1) == len(s2):
            want = np.array(o["elementwise"], dtype=bool)
            for shp in [(len(s1),), (1, len(s1)), (len(s1), 1)]:
                try:
                    got = np.asarray(quiet(tr(s1, shape=shp).commute, tr(s2, shape=shp)))
                    if got.shape != shp or (got.reshape(want.shape) != want).any():
                        run.violation("commute:elementwise:%s:%r" % (key, shp), "commute.elementwise",
                                      dict(s1=s1, s2=s2, shape=list(shp), library=got.tolist(), spec=want.tolist()))
                except Exception as ex:
                    run.violation("commute:elementwise:%s:%r" % (key, shp), "raised:commute.elementwise", dict(s1=s1, s2=s2, shape=list(shp), error=err(ex)))
                run.evaluations += len(s1)
        want = np.array(o["pairwise"], dtype=bool)
        try:
            got = np.asarray(quiet(tr(s1).commute, tr(s2), broadcast="pairwise"))
            if got.shape != want.shape or (got != want).any():
                run.violation("commute:pairwise", "commute.pairwise", dict(n=n, s1=s1, s2=s2, matrices="pool of Commute.tla", library=got.tolist(), spec=want.tolist()))
        except Exception as ex:
            run.violation("commute:pairwise", "commute.pairwise", dict(n=n, s1=s1, s2=s2, error=err(ex)))
        run.evaluations += want.size
    run.traces += len(r.emits)
    run.nontrivial_count += len(r.emits)
    if r.emits:
        o = r.emits[len(r.emits) // 2]
        run.sample(dict(kind="composites of transformations", pool=tab["pool"], **o))


# ========================================================================================
# ConvexHull.tla
# ========================================================================================
def cyc_equal(a, b):
    """sequences equal up to rotation and reversal"""
    a, b = [tuple(x) for x in a], [tuple(x) for x in b]
    if len(a) != len(b) or set(a) != set(b):
        return False
    for seq in (b, b[::-1]):
        i = seq.index(a[0])
        if seq[i:] + seq[:i] == a:
            return True
    return False


def hull_replay(run, r):
    P = proj()
    GE = gerr()
    tab = tab_of(r)
    states = [o for o in obs_of(r) if o["defined"]]
    steps = [e for e in r.emits if e["hull_before"] and e["hull_after"]]
    maps = tab["maps"]

    def lifts(o):
        return np.array([[w, w * p[0], w * p[1]] for p, w in zip(o["pts"], o["weights"])], dtype=float)

    def check(cp, o, L_, key, what):
        V = np.asarray(cp.proj_data, float)
        rows = {tuple(x) for x in L_.tolist()}
        if V.ndim != 2 or any(tuple(v) not in rows for v in V.tolist()):
            run.violation(key, what + ".vertices_are_given_representatives", dict(points=o["pts"], weights=o["weights"], library=V.tolist()))
            return False
        got = [[int(round(v[1] / v[0])), int(round(v[2] / v[0]))] for v in V]
        if not cyc_equal(got, o["hull"]):
            run.violation(key, what + ".hull_in_cyclic_order", dict(points=o["pts"], library=got, spec=o["hull"]))
            return False
        E = np.asarray(cp.aux_data, float)
        if E.shape != (len(V), 2, 3) or not (np.abs(E[:, 0] - V).max() == 0 and np.abs(E[:, 1] - np.roll(V, -1, axis=0)).max() == 0):
            run.violation(key, what + ".edges_join_consecutive_vertices", dict(points=o["pts"], edges_shape=list(E.shape)))
            return False
        d = np.asarray(cp.dual_data, float)
        if d.shape != (3,) or not (L_ @ d > 0).all():
            run.violation(key, what + ".dual_positive_on_every_point", dict(points=o["pts"], dual=lst(d)))
            return False
        return True

    def mechanism(L_):
        cp = P.ConvexPolygon(L_.copy(), dual_data=np.array([1.0, 0, 0]))
        cp._convexify()
        return cp

    for si, o in enumerate(states):
        L_ = lifts(o)
        key = "convex:pts=%s" % skey(o["pts"])
        run.case(key=key, action="ConvexPolygon")
        cp = None
        try:
            cp = quiet(P.ConvexPolygon, L_.copy())
            check(cp, o, L_, key, "constructor")
        except Exception as ex:
            run.violation("convex:constructor", "convex.constructor_computes_dual",
                          dict(call="ConvexPolygon(points)", points=L_.tolist(), error=err(ex)))
            cp = None
        if cp is None:
            try:
                cp = quiet(mechanism, L_)
                if not check(cp, o, L_, key, "_convexify"):
                    cp = None
            except Exception as ex:
                run.violation(key, "raised:_convexify", dict(points=o["pts"], error=err(ex)))
                cp = None
        run.evaluations += 1
        # a projective transformation preserving the chart: hull of the images = images of the hull
        if cp is not None:
            mp = maps[si % len(maps)]
            T = np.array([[1, 0, 0], [mp[2][0], mp[0][0], mp[0][1]], [mp[2][1], mp[1][0], mp[1][1]]], dtype=float)
            try:
                img = quiet(lambda: P.Transformation(T.copy(), column_vectors=True) @ cp)
                cp2 = quiet(mechanism, L_ @ T.T)
                a = {tuple(np.round(v, 9)) for v in np.asarray(img.proj_data, float).tolist()}
                b = {tuple(np.round(v, 9)) for v in np.asarray(cp2.proj_data, float).tolist()}
                if not isinstance(img, P.ConvexPolygon) or a != b:
                    run.violation(key + ":map", "convex.invariant_under_chart_preserving_maps", dict(points=o["pts"], map=mp))
            except Exception as ex:
                run.violation(key + ":map", "raised:convex.transform", dict(points=o["pts"], map=mp, error=err(ex)))
            run.evaluations += 1
    # histories: the hull of the points handed over so far, then add_points(one more point)
    stride = max(1, len(steps) // (400 if run.tier == "quick" else 3000))
    for e in steps[::stride]:
        before = dict(pts=e["from"], weights=e["weights"][:-1], hull=e["hull_before"])
        after = dict(pts=e["from"] + [e["add"]], weights=e["weights"], hull=e["hull_after"])
        key = "convex:pts=%s:add=%s" % (skey(e["from"]), skey(e["add"]))
        run.case(key=key, action="add_points")
        try:
            base = quiet(mechanism, lifts(before))
            if not check(base, before, lifts(before), key, "_convexify"):
                continue
        except Exception as ex:
            run.violation(key, "raised:_convexify", dict(points=e["from"], error=err(ex)))
            continue
        La = lifts(after)
        for in_place in (False, True):
            try:
                res = quiet(base.add_points, La[-1:].copy(), in_place=in_place)
                tgt = base if in_place else res
                if not isinstance(tgt, P.ConvexPolygon):
                    run.violation(key, "add_points.type", dict(points=after["pts"], in_place=in_place, got=type(tgt).__name__))
                else:
                    check(tgt, after, La, key + ":%s" % in_place, "add_points")
                    if not in_place and not cyc_equal([[int(round(v[1] / v[0])), int(round(v[2] / v[0]))] for v in np.asarray(base.proj_data)], e["hull_before"]):
                        run.violation(key, "add_points.leaves_original_unchanged", dict(points=after["pts"]))
            except Exception as ex:
                run.violation("convex:add_points", "convex.add_points", dict(points=after["pts"], in_place=in_place, error=err(ex)))
            run.evaluations += 1
    run.traces += len(steps[::stride])
    # composites are refused
    if states:
        L_ = lifts(states[0])
        for nm, call in (("add_points", lambda c: c.add_points(L_[:1].copy())), ("_convexify", lambda c: c._convexify())):
            key = "convex:composite:" + nm
            run.case(key=key, action="ConvexPolygon.composite")
            try:
                comp = P.ConvexPolygon(np.stack([L_, L_]), dual_data=np.array([[1.0, 0, 0], [1.0, 0, 0]]))
                quiet(call, comp)
                run.violation(key, "convex.composite_refused", dict(method=nm))
            except GE:
                pass
            except Exception as ex:
                run.violation(key, "raised:convex.composite_refused", dict(method=nm, error=err(ex)))
    run.traces += len(states)
    run.nontrivial_count += len(states)
    if states:
        o = states[len(states) // 2]
        run.sample(dict(kind="history of points and its exact hull", **o))


# ========================================================================================
# ProjData.tla
# ========================================================================================
def arr(shape, fill):
    if shape == [0]:
        return None
    return (np.arange(int(np.prod(shape)), dtype=float) + fill).reshape(shape)


def data_replay(run, decl, r):
    P = proj()
    GE = gerr()
    u, a, d = decl
    lts = {}
    for e in r.emits:
        lts.setdefault(skey(e["from"]), []).append(e)
    init = skey([[0], [0], [0]])

    def stored_ok(obj, st, datas):
        for nm, shp, dat in zip(("proj_data", "aux_data", "dual_data"), st, datas):
            got = getattr(obj, nm, "missing")
            if shp == [0]:
                if got is not None:
                    return "%s should be None" % nm
            elif not isinstance(got, np.ndarray) or list(got.shape) != shp or (dat is not None and not np.array_equal(got, dat)):
                return "%s differs from the accepted data" % nm
        return None

    def perform(obj, act, fill):
        """one Set: returns (object after, stored data, failure or None)"""
        p, x, y = arr(act["p"], fill), arr(act["x"], fill + 100), arr(act["y"], fill + 200)
        before = None if obj is None else [None if v is None else np.array(v) for v in (obj.proj_data, obj.aux_data, obj.dual_data)]
        try:
            if obj is None:
                new = quiet(P.ProjectiveObject, p, x, y, unit_ndims=u, aux_ndims=a, dual_ndims=d)
            else:
                quiet(obj.set, p, x, y)
                new = obj
            if not act["accepted"]:
                return new, None, ("set.refuses:" + act["refusal"], "ill-formed data accepted")
            return new, (p, x if a > 0 else None, y if d > 0 else None), None
        except GE as ex:
            if act["accepted"]:
                return obj, None, ("set.accepts", err(ex))
        except Exception as ex:
            if act["accepted"]:
                return obj, None, ("raised:set", err(ex))
            return obj, "other:" + err(ex), None
        # refused with GeometryError: the object must be as before
        if obj is not None:
            after = [obj.proj_data, obj.aux_data, obj.dual_data]
            for b, c in zip(before, after):
                if (b is None) != (c is None) or (b is not None and not np.array_equal(b, c)):
                    return obj, None, ("set.refused_leaves_object_unchanged", "data changed by a refused set")
        return obj, None, None

    n = 0
    for e1 in lts.get(init, []):
        obj, dat, bad = perform(None, e1["act"], 1.0)
        key = "projdata:u=%d:a=%d:d=%d:%s" % (u, a, d, skey([e1["act"]["p"], e1["act"]["x"], e1["act"]["y"]]))
        run.case(key=key, action="set." + ("accepted" if e1["act"]["accepted"] else "refused:" + e1["act"]["refusal"]))
        n += 1
        if bad:
            run.violation(key, bad[0], dict(declaration=dict(unit_ndims=u, aux_ndims=a, dual_ndims=d), shapes=e1["act"], observed=bad[1]))
            continue
        if isinstance(dat, str):      # refused, but not with GeometryError
            run.violation("projdata:refusal_error_type:" + e1["act"]["refusal"], "set.refuses_with_GeometryError",
                          dict(declaration=dict(unit_ndims=u, aux_ndims=a, dual_ndims=d), shapes=e1["act"], error=dat[6:]))
            continue
        if not e1["act"]["accepted"]:
            continue
        msg = stored_ok(obj, e1["to"], dat)
        if msg:
            run.violation(key, "set.stores_accepted_data", dict(declaration=[u, a, d], shapes=e1["act"], observed=msg))
            continue
        # _assert_data_consistent on the stored triple
        try:
            quiet(obj._assert_data_consistent, *dat)
            if not e1["act"]["consistent"]:
                run.violation(key, "data_consistent.refuses", dict(declaration=[u, a, d], shapes=e1["act"]))
        except GE:
            if e1["act"]["consistent"]:
                run.violation(key, "data_consistent.accepts", dict(declaration=[u, a, d], shapes=e1["act"]))
        except Exception as ex:
            run.violation("projdata:data_consistent", "data_consistent.refuses_with_GeometryError" if not e1["act"]["consistent"] else "raised:data_consistent",
                          dict(declaration=[u, a, d], shapes=e1["act"], error=err(ex)))
        # second step of the history
        for e2 in lts.get(skey(e1["to"]), []):
            import copy
            o2 = copy.copy(obj)
            o2, dat2, bad = perform(o2, e2["act"], 7.0)
            n += 1
            key2 = key + "->" + skey([e2["act"]["p"], e2["act"]["x"], e2["act"]["y"]])
            if bad:
                run.violation(key2, bad[0], dict(declaration=[u, a, d], first=e1["act"], second=e2["act"], observed=bad[1]))
            elif isinstance(dat2, str):
                run.violation("projdata:refusal_error_type:" + e2["act"]["refusal"], "set.refuses_with_GeometryError",
                              dict(declaration=[u, a, d], shapes=e2["act"], error=dat2[6:]))
            elif e2["act"]["accepted"]:
                msg = stored_ok(o2, e2["to"], dat2)
                if msg:
                    run.violation(key2, "set.stores_accepted_data", dict(declaration=[u, a, d], shapes=e2["act"], observed=msg))
    run.traces += n
    run.evaluations += n
    run.nontrivial_count += n
    if r.emits:
        run.sample(dict(kind="set on a ProjectiveObject", declaration=dict(unit_ndims=u, aux_ndims=a, dual_ndims=d), **r.emits[len(r.emits) // 2]))


def misc_replay(run, r):
    """automatic chart, objects built from lists of objects, base_ring without Sage"""
    P = proj()
    GE = gerr()
    tab = tab_of(r)
    for rec in tab["charts"]:
        pts = np.array(rec["pts"], dtype=float)
        key = "autochart:%s" % skey(rec["pts"])
        run.case(key=key, action="affine_coords(chart_index=None)")
        try:
            aff, k = quiet(P.affine_coords, pts.copy())
            if not rec["good"]:
                run.violation(key, "auto_chart.refuses", dict(points=rec["pts"], returned_chart=int(k)))
            elif int(k) not in rec["good"]:
                run.violation(key, "auto_chart.contains_all_points", dict(points=rec["pts"], chart=int(k), spec_charts=rec["good"]))
            elif not close(aff, np.delete(pts / pts[:, [int(k)]], int(k), axis=-1)):
                run.violation(key, "auto_chart.coordinates", dict(points=rec["pts"], chart=int(k), library=lst(aff)))
        except GE:
            if rec["good"]:
                run.violation(key, "auto_chart.accepts", dict(points=rec["pts"], spec_charts=rec["good"]))
        except Exception as ex:
            run.violation(key, "raised:auto_chart", dict(points=rec["pts"], error=err(ex)))
        run.evaluations += 1
    # objects built from a list of objects: the composite of the units (primary and derived data)
    key = "construct:list_of_objects"
    run.case(key=key, action="_construct_from_object")
    try:
        a, b = np.array([1.0, 2, 3]), np.array([0.0, 1, 1])
        pt = P.Point([P.Point(a), P.Point(b)])
        q1 = P.Polygon(np.array([[1.0, 0, 0], [1, 1, 0], [1, 0, 1]]))
        q2 = P.Polygon(np.array([[1.0, 2, 0], [1, 3, 1], [1, 0, 4]]))
        pg = P.Polygon([q1, q2])
        ok = np.array_equal(pt.proj_data, np.stack([a, b])) and pt.aux_data is None \
            and np.array_equal(pg.proj_data, np.stack([q1.proj_data, q2.proj_data])) and np.array_equal(pg.aux_data, np.stack([q1.aux_data, q2.aux_data]))
        if not ok:
            run.violation(key, "construct.list_of_objects_is_the_composite", dict())
    except Exception as ex:
        run.violation(key, "raised:construct.list_of_objects", dict(error=err(ex)))
    key = "construct:base_ring_without_sage"
    run.case(key=key, action="_set_optional")
    try:
        from geometry_tools import utils
        if not utils.SAGE_AVAILABLE:
            try:
                P.Point(np.array([1.0, 2, 3]), base_ring="QQ")
                run.violation(key, "set_optional.base_ring_needs_sage", dict())
            except EnvironmentError:
                pass
    except Exception as ex:
        run.violation(key, "raised:set_optional", dict(error=err(ex)))


# ========================================================================================
def run(run, replay=None):
    quick = run.tier == "quick"
    core.import_repo()
    run.rule = ("one case per emitted state / transition / table row of the five X05 modules replayed through the library; "
                "distinct_nontrivial = distinct spec states and transitions replayed")
    run.assumptions += [
        "integer matrices, points, shapes from small fixed pools; walks / histories of bounded length",
        "form_alg_killing_form(basis=None), so_killing_form(basis=None) need exact arithmetic (Sage) according to their "
        "docstring; sp_adjoint, change_base_ring and every base_ring= path need Sage: out of scope",
    ]
    forms = [("j12", 2), ("j21", 2), ("e3", 2), ("b3", 2), ("j13", 1), ("j11", 2)] if quick else \
            [("j12", 3), ("j21", 3), ("e3", 3), ("b3", 3), ("j13", 2), ("j11", 3)]
    subs = [(3, 1, 2), (3, 2, 2), (4, 2, 2), (5, 3, 1)] if quick else [(3, 1, 3), (3, 2, 3), (4, 2, 3), (5, 3, 2), (5, 2, 2), (6, 3, 2)]
    comms = [(2, 2), (3, 2)] if quick else [(2, 3), (3, 3)]
    hulls = [(2, 5, 3)] if quick else [(2, 6, 3), (3, 5, 5)]
    decls = [(1, 0, 0), (1, 0, 1), (2, 3, 1), (2, 1, 0), (1, 1, 2)] if quick else [(1, 0, 0), (1, 0, 1), (2, 3, 1), (2, 1, 0), (1, 1, 2), (2, 2, 2), (3, 0, 1)]
    jobs = [("hull", h) for h in hulls] + [("lie", f) for f in forms] + [("sub", s) for s in subs] + [("comm", c) for c in comms] + [("data", d) for d in decls]
    w = 2

    def tlc(job):
        kind, a = job
        if kind == "lie":
            c = core.cfg(constants=dict(Form=a[0], MaxLen=a[1]), invariants=["InGroup", "Restriction", "Homomorphism", "KillingPreserved", "EmitObs"],
                         view="View", action_constraints=["Emit"])
            return run.tlc("lie/LieAlg.tla", c, name="LieAlg_" + a[0], workers=w)
        if kind == "sub":
            c = core.cfg(constants=dict(M=a[0], K=a[1], MaxLen=a[2]), invariants=["InverseKept", "Invariant", "NotInvariant", "EmitObs"], view="View")
            return run.tlc("lie/SubAction.tla", c, name="SubAction_%d_%d" % a[:2], workers=w, emit_prefix="OBS ")
        if kind == "comm":
            c = core.cfg(constants=dict(N=a[0], MaxLen=a[1]), invariants=["Laws", "EmitObs"])
            return run.tlc("proj/Commute.tla", c, name="Commute_%d" % a[0], workers=w, emit_prefix="OBS ")
        if kind == "hull":
            c = core.cfg(constants=dict(Grid=a[0], MaxPts=a[1], Stride=a[2]),
                         invariants=["StrictlyConvex", "Contains", "VerticesGiven", "InteriorStable", "AffineInvariant", "EmitObs"],
                         view="View", action_constraints=["Emit"])
            return run.tlc("proj/ConvexHull.tla", c, name="ConvexHull_%d_%d" % a[:2], workers=w)
        c = core.cfg(constants=dict(U=a[0], A=a[1], D=a[2], MaxLen=2), invariants=["StoredValid"], view="View", action_constraints=["Emit"])
        return run.tlc("proj/ProjData.tla", c, name="ProjData_%d%d%d" % a, workers=w)

    with ThreadPoolExecutor(max(1, min(4, core.NCPU // 2))) as ex:
        res = list(ex.map(tlc, jobs))
    first = True
    misc_done = False
    for (kind, a), r in zip(jobs, res):
        if kind == "lie":
            lie_walk(run, a[0], r, first)
            first = False
        elif kind == "sub":
            sub_replay(run, a, r)
        elif kind == "comm":
            commute_replay(run, a[0], r)
        elif kind == "hull":
            hull_replay(run, r)
        else:
            data_replay(run, a, r)
            if not misc_done:
                misc_replay(run, r)
                misc_done = True
