"""C12 — results are independent of number packaging and of homogeneous rescaling.

(a) spec/num/Packaging.tla: finite case analysis entry point x packaging x value; the rule (domain, result kind,
    equality with the canonical packaging, follow-up routines succeed) is the specification; TLC enumerates it.
(b) spec/hyp/Rescale.tla: rescaling is a stuttering step of the abstract (projective) state; TLC checks that the
    canonical forms used by all hyperbolic specs are scale invariant and emits (object, scale vector, isometry)
    cases with the exact observations; the harness rescales the library-side representatives unit by unit and
    re-runs the observations of C01 / C03 / C13 / C14 against the unchanged spec state.
"""
import json
import math

import numpy as np

from .. import core
from .. import hyp_common as hc
from . import c03
from . import c12_pack


RESCALE_CASES = []


def frac(f):
    return f[0] / f[1]


INT_CLASSES = {"point": "Point", "pair": "PointPair", "segment": "Segment", "geodesic": "Geodesic", "polygon": "Polygon",
               "hyperplane": "Hyperplane"}


def integral(sc):
    return all(c[1] == 1 for c in sc)


def build_scaled(o, sc, as_int=False):
    """the object of the spec through the representatives sc[i] * row[i]; as_int: the (integral) representatives are
    handed over as an integer array - the same numbers in another packaging"""
    H = hc.H()
    cls = o["cls"]
    if as_int:
        rows = np.array([[int(v) * c[0] for v in r] for r, c in zip(o["rows"], sc)], dtype=np.int64)
        return getattr(H, INT_CLASSES[cls])(rows[0] if cls in ("point", "hyperplane") else rows)
    if cls == "tangent":
        c0, c1 = frac(sc[0]), abs(frac(sc[1]))
        x = np.array(o["rows"][0], float) * c0
        v = np.array(o["vec"], float) * (math.copysign(1.0, c0) * c1)
        return H.TangentVector(H.Point(x), v)
    o2 = dict(o)
    o2["rows"] = [list(np.array(r, float) * frac(c)) for r, c in zip(o["rows"], sc)]
    return c03.build(cls, o2)


def rat_vec(c):
    return np.array([p[0] / p[1] for p in c], float)


def observe(run, e, X0, as_int=False):
    """class specific observations on the rescaled object X (library) against spec values / the unscaled library object"""
    H = hc.H()
    o, sc, obs = e["obj"], e["sc"], e["obs"]
    cls = o["cls"]
    X = build_scaled(o, sc, as_int)
    bad = c03.same(X, cls, o, type(X0), X0.shape)
    if bad:
        return ("constructor:" + bad[0], bad[1])
    A = H.Isometry(hc.spec_matrix(e["A"]), column_vectors=True)
    bad = c03.same(A @ X, cls, e["imgA"], type(X0), X0.shape)
    if bad:
        return ("image:" + bad[0], bad[1])

    def post_check():
        # the observations are read-only: the rescaled object must still be the same object afterwards
        b = c03.same(X, cls, o, type(X0), X0.shape)
        if b:
            return ("object_moved_by_queries:" + b[0], b[1])
        if cls == "tangent":
            ang = float(X.angle(X))
            if not abs(ang) <= 1e-6:
                return ("angle_with_itself_after_queries", "%r" % ang)
            nb = c03.same(X.normalized(), cls, o, type(X0), X0.shape)
            if nb:
                return ("normalized_after_queries:" + nb[0], nb[1])
        return None
    if cls == "point" and "coords" in obs:
        for m, cc in obs["coords"].items():
            got = np.asarray(X.coords(m), float)
            want = rat_vec(cc)
            err = np.abs(got - want).max()
            if m == "hyperboloid":
                err = min(err, np.abs(got + want).max())
            if not err <= 1e-9 * max(1, np.abs(want).max()):
                return ("coords:" + m, "%r vs %r" % (got.tolist(), want.tolist()))
        Mo, M1 = np.asarray(X0.origin_to().matrix, float), np.asarray(X.origin_to().matrix, float)
        if not hc.mat_proj_close(Mo, M1, 1e-8):
            return ("origin_to_as_projective_map", "%r vs unscaled %r" % (np.round(M1, 6).tolist(), np.round(Mo, 6).tolist()))
    if cls == "hyperplane":
        # the reflection across the hyperplane: the exact matrix of the spec, whatever representative of the normal
        for rep in (X.reflection_across(), X.reflection_across()):           # asked twice: the first call may not move X
            bad = c03.same(rep, "isometry", dict(h=obs["refl"]), H.Isometry, ())
            if bad:
                return ("hyperplane.reflection_across:" + bad[0], bad[1])
    if cls == "pair" and "coshsq" in obs:
        p, q = X.get_end_pair(as_points=True)
        d = float(p.distance(q))
        want = math.sqrt(obs["coshsq"][0] / obs["coshsq"][1])
        # compare d itself for nearby points (cosh d - 1 ~ d^2/2 hides errors of order d)
        d_want = math.acosh(max(want, 1.0))
        if not (abs(math.cosh(d) - want) <= 1e-9 * want and abs(d - d_want) <= 1e-6 * max(1.0, d_want) + 1e-7):
            return ("distance", "d %r (cosh %r) vs d %r (cosh %r)" % (d, math.cosh(d), d_want, want))
        if o["rows"][0] == o["rows"][1]:
            if not d <= 1e-6:
                return ("distance_of_equal_points", "d = %r" % d)
            return post_check()
        t = p.unit_tangent_towards(q)
        spec_t = dict(cls="tangent", rows=[o["rows"][0]], vec=obs["towards"])
        bad = c03.same(t, "tangent", spec_t, H.TangentVector, ())
        if bad:
            return ("unit_tangent_towards:" + bad[0], bad[1])
        arrive = np.asarray(t.point_along(d).proj_data, float)
        if not hc.proj_close(arrive, np.array(o["rows"][1], float), 1e-8):
            return ("unit_tangent_towards.point_along(d)", "%r vs %r" % (arrive.tolist(), o["rows"][1]))
    if cls == "tangent":
        t = math.atanh(obs["tanh"][0] / obs["tanh"][1])
        for dist, want in ((t, obs["along"]), (-t, obs["back"])):
            got = np.asarray(X.point_along(dist).proj_data, float)
            if not hc.proj_close(got, np.array(want, float), 1e-9):
                return ("point_along", "t=%r: %r vs %r" % (dist, got.tolist(), want))
        Mo, M1 = np.asarray(X0.origin_to().matrix, float), np.asarray(X.origin_to().matrix, float)
        if not hc.mat_proj_close(Mo, M1, 1e-8):
            return ("tangent.origin_to_as_projective_map", "%r vs unscaled %r" % (np.round(M1, 6).tolist(), np.round(Mo, 6).tolist()))
    if cls in ("segment", "geodesic"):
        # a geodesic ending at the half-space point at infinity (1,1,0,...) is outside the domain in that model
        at_inf = any(list(r[:2]) == [1, 1] and not any(r[2:]) for r in (o.get("ends") or o["rows"]))
        for model in ("poincare",) if at_inf else ("poincare", "halfspace"):
            for deg in (True, False):
                c0, r0, th0 = X0.circle_parameters(degrees=deg, model=model)
                c1, r1, th1 = X.circle_parameters(degrees=deg, model=model)
                if not (np.isfinite(c0).all() and np.isfinite(r0).all() and np.isfinite(th0).all()):
                    continue        # geodesic through the half-space point at infinity: outside the domain
                # ideal endpoints reach the conformal models through a square root at the boundary: 1e-16 -> 1e-8
                if not (np.allclose(c0, c1, rtol=1e-6, atol=2e-7) and np.allclose(r0, r1, rtol=1e-6) and
                        np.allclose(np.exp(1j * np.asarray(th0) * (math.pi / 180 if deg else 1)),
                                    np.exp(1j * np.asarray(th1) * (math.pi / 180 if deg else 1)), atol=2e-6)):
                    return ("circle_parameters:%s" % model, "scaled %r vs unscaled %r" % ((c1, r1, th1), (c0, r0, th0)))
    if cls == "polygon":
        k0 = np.asarray(X0.coords("klein"), float)
        k1 = np.asarray(X.coords("klein"), float)
        if not np.allclose(k0, k1, atol=1e-9):
            return ("polygon.klein_coords", "%r vs %r" % (k1.tolist(), k0.tolist()))
    if cls == "horosphere":
        for model in ("poincare", "halfspace"):
            c0, r0 = X0.sphere_parameters(model=model)
            c1, r1 = X.sphere_parameters(model=model)
            if not (np.isfinite(c0).all() and np.isfinite(r0).all()):
                continue
            if not (np.allclose(c0, c1, rtol=1e-6, atol=2e-7) and np.allclose(r0, r1, rtol=1e-6)):
                return ("horosphere.sphere_parameters:%s" % model, "scaled %r vs unscaled %r" % ((c1, r1), (c0, r0)))
    return post_check()


def rescale(run):
    c = core.cfg(init="RInit", next_="RNext", constants=dict(N=2, MaxLen=0),
                 invariants=["PrimInvariant", "TangentClassInvariant", "CoshInvariant", "ReflInvariant", "TowardsIsTangent", "AlongOnGeodesic", "EmitRescale"],
                 view="RView", constraints=["InPatterns"])
    r = run.tlc("hyp/Rescale.tla", c, name="Rescale", workers=min(8, core.NCPU), emit_prefix="CASE ")
    seen = set()
    n = 0
    RESCALE_CASES.clear()
    for e in r.emits:
        k = json.dumps([e["obj"], e["A"], e["sc"]], sort_keys=True)
        if k in seen:
            continue
        seen.add(k)
        RESCALE_CASES.append(e)
        n += 1
        o = e["obj"]
        trivial = all(c == [1, 1] for c in e["sc"])
        run.case(key=None, nontrivial=not trivial, action="rescale:" + o["cls"])
        try:
            with np.errstate(all="ignore"):
                X0 = build_scaled(o, [[1, 1]] * len(e["sc"]))
                bad = observe(run, e, X0)
        except Exception as ex:
            bad = ("raised", "%s: %s" % (type(ex).__name__, ex))
        if bad:
            run.violation("rescale:%s:%s:sc=%s" % (o["cls"], json.dumps(o.get("rows")), json.dumps(e["sc"])), "rescale:" + bad[0],
                          dict(obj=o, scale=e["sc"], A=e["A"], observed=bad[1]))
        if o["cls"] in INT_CLASSES and integral(e["sc"]):
            # integral representatives handed over as integer arrays (both sentences of the property at once)
            run.case(key=None, nontrivial=True, action="rescale_int:" + o["cls"])
            try:
                with np.errstate(all="ignore"):
                    bad = observe(run, e, X0, as_int=True)
            except Exception as ex:
                bad = ("raised", "%s: %s" % (type(ex).__name__, ex))
            if bad:
                run.violation("rescale_int:%s:%s:sc=%s" % (o["cls"], json.dumps(o.get("rows")), json.dumps(e["sc"])), "rescale_int:" + bad[0],
                              dict(obj=o, scale=e["sc"], A=e["A"], packaging="int64 ndarray", observed=bad[1]))
        if not trivial and o["cls"] in ("tangent", "segment"):
            run.sample(dict(kind="rescale case (%s)" % o["cls"], obj=o, scale=e["sc"], obs=e["obs"]))
    run.traces += n
    rescale_composites(run, [json.loads(k) for k in []] or RESCALE_CASES)


def rescale_composites(run, cases):
    """composite objects whose UNITS carry different scale factors (mixed signs): every vectorised result must be,
    unit by unit, what the unscaled unit object gives"""
    H = hc.H()
    by_cls = {}
    for e in cases:
        o = e["obj"]
        if o["cls"] == "point" and "coords" not in e["obs"]:
            continue            # origin_to / conformal coordinates of ideal points are outside the domain
        if o["cls"] in ("tangent", "point", "segment") and not all(c == [1, 1] for c in e["sc"]):
            by_cls.setdefault((o["cls"], len(o.get("rows", []))), {})[json.dumps([o, e["sc"]], sort_keys=True)] = e
    for (cls, k), d in sorted(by_cls.items()):
        es = list(d.values())
        # pick units with different sign patterns
        neg = [e for e in es if e["sc"][0][0] < 0][:2]
        pos = [e for e in es if e["sc"][0][0] > 0 and e["obj"] not in [n["obj"] for n in neg]][:2]
        group = neg[:1] + pos[:1] + neg[1:2]
        if len(group) < 2:
            continue
        run.case(key=None, action="rescale_composite:" + cls)
        try:
            with np.errstate(all="ignore"):
                units = [build_scaled(e["obj"], e["sc"]) for e in group]
                plain = [build_scaled(e["obj"], [[1, 1]] * len(e["sc"])) for e in group]
                if cls == "tangent":
                    X = H.TangentVector(np.array([u.proj_data for u in units]))
                else:
                    X = type(units[0])(units)
                bad = None
                if cls in ("tangent", "point"):
                    M = np.asarray(X.origin_to().matrix, float)
                    for i, p in enumerate(plain):
                        if not hc.mat_proj_close(M[i], np.asarray(p.origin_to().matrix, float), 1e-8):
                            bad = ("composite.origin_to[%d]" % i, "%r vs unit %r" % (np.round(M[i], 5).tolist(), np.round(np.asarray(p.origin_to().matrix, float), 5).tolist()))
                            break
                if not bad and cls == "tangent":
                    pa = np.asarray(X.point_along(0.5).proj_data, float)
                    for i, p in enumerate(plain):
                        if not hc.proj_close(pa[i], np.asarray(p.point_along(0.5).proj_data, float), 1e-8):
                            bad = ("composite.point_along[%d]" % i, "%r" % (pa[i].tolist(),))
                            break
                    if not bad:
                        Y = H.TangentVector(np.array([u.proj_data for u in units[::-1]]))
                        T = np.asarray(X.isometry_to(Y).matrix, float)
                        for i, p in enumerate(plain):
                            want = np.asarray(p.isometry_to(plain[len(plain) - 1 - i]).matrix, float)
                            img = H.Isometry(T[i]) @ p
                            tgt = plain[len(plain) - 1 - i]
                            spec_t = dict(cls="tangent", rows=[group[len(plain) - 1 - i]["obj"]["rows"][0]], vec=group[len(plain) - 1 - i]["obj"]["vec"])
                            b = c03.same(img, "tangent", spec_t, H.TangentVector, ())
                            if b:
                                bad = ("composite.isometry_to[%d]:%s" % (i, b[0]), b[1])
                                break
                if not bad and cls == "point":
                    for m in ("klein", "poincare", "halfspace"):
                        got = np.asarray(X.coords(m), float)
                        for i, p in enumerate(plain):
                            if not np.allclose(got[i], np.asarray(p.coords(m), float), atol=1e-9):
                                bad = ("composite.coords[%d]:%s" % (i, m), "%r" % (got[i].tolist(),))
                                break
                if not bad and cls == "segment":
                    got = np.asarray(X.ideal_endpoint_coords(), float)
                    for i, p in enumerate(plain):
                        w = np.asarray(p.ideal_endpoint_coords(), float)
                        if not (np.allclose(got[i], w, atol=1e-8) or np.allclose(got[i], w[::-1], atol=1e-8)):
                            bad = ("composite.ideal_endpoints[%d]" % i, "%r vs %r" % (got[i].tolist(), w.tolist()))
                            break
        except Exception as ex:
            bad = ("raised:composite", "%s: %s" % (type(ex).__name__, ex))
        if bad:
            run.violation("rescale_composite:%s:%s" % (cls, json.dumps([[e["obj"].get("rows"), e["sc"]] for e in group])[:300]),
                          "rescale:" + bad[0], dict(cls=cls, units=[[e["obj"], e["sc"]] for e in group], observed=bad[1]))


def run(run, replay=None):
    run.rule = ("packaging: one case per (entry point, packaging, value) state of Packaging.tla; rescaling: one case per "
                "(object, scale vector, isometry) state of Rescale.tla; non-trivial = scale vector not all ones / packaging "
                "not the canonical one")
    run.assumptions += [
        "only the installed NumPy (2.x) can be exercised; other versions accepted by setup.py are not covered",
        "scale factors from {-3, -1, -1/2, 1/3, 2, 1} in 12 patterns per object; objects of HypAction.tla (dimension 2)",
        "circle / sphere parameters under rescaling are compared with the library's own unscaled output (metamorphic)",
        "packagings: Python int/float, NumPy float64/float32/int64/int32/int16/uint8 scalars, 0-d arrays and ndarrays of them, nested "
        "lists, tuples; unsigned packagings only for entry points whose integral test value has no negative entry",
        "integral scale patterns are also replayed with the representatives handed over as int64 arrays (point, pair, segment, "
        "geodesic, polygon, hyperplane)",
    ]
    c12_pack.run(run)
    rescale(run)
