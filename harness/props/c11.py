"""C11 - derived data stays coherent with primary data; queries do not move objects.

spec/comp/Derived.tla is a state machine over objects that carry derived data (projective and
hyperbolic polygons: edges; hyperbolic segments: ideal endpoints; tangent vectors: projected vector;
plus hyperbolic points as the class without derived data): state = (class, shape, array of unit ids
read from the primary data, array of unit ids read from the derived data), one action per public
method (construct / copy / apply / reshape / flatten / index / slice / set item with integer,
negative, tuple, index-list, integer-array, boolean-mask and stepped-slice keys / swap through a
temporary / stack / combine / astype) with the shape and index behaviour of Composite.tla, read-only
queries as stuttering actions; an indexed sub-object the caller keeps (tmp = obj[i], sub = obj[a:b])
is a second object of the state.  TLC checks Coherent and TypeOK on every reachable state and emits the labelled
transition system.

Conformance (spec -> code): every history of actions up to the depth bound is executed on the real
object; after every step the object is projected back: shape, unit ids decoded from proj_data
(exact payloads of CompUnits.tla), unit ids decoded independently from aux_data, and aux_data
against type(obj)(obj.proj_data).aux_data; then every query the specification lists for the class
is called and the object, the other operand and the caller's arrays must still represent the same
projective points (and a tangent vector must not come out reversed).  The kept sub-object and every
array the caller handed over are projected after every step as well; branches of the exploration are
cloned so that aliasing between arrays survives (views, shared buffers).  X[i] = Y is additionally replayed for every pair of shapes of Composite.tla.
"""
import copy
import json
import multiprocessing as mp
import os
import random
import warnings
import zlib

import numpy as np

from .. import core
from .. import comp_common as cc
from .. import comp_trace

TABS = None
LTS = None          # name of the TLC run -> {key -> list of (act, to_key, to_state)}
QUERIES = None      # cls -> sorted list of query names (from the spec's Query transitions)
DERIVED_CLASSES = ["Polygon", "HPolygon", "Segment", "Tangent", "HPoint"]


def skey(s):
    h = (tuple(s["hshape"]), tuple(cc.as_id(i) for i in s["hpc"])) if s.get("held") else None
    return (s["cls"], bool(s["built"]), tuple(s["shape"]), tuple(cc.as_id(i) for i in s["pc"]), s["n"], h)


def act_str(a):
    k = a["a"]
    if k == "construct":
        return "construct(%s)" % a["route"]
    if k == "copy":
        return "copy(%s)" % a["kind"]
    if k == "apply":
        return "apply(T%s=%s,%s)" % (tuple(a["tshape"]), a["tcell"], a["mode"])
    if k == "reshape":
        return "reshape%s" % (tuple(a["shape"]),)
    if k == "index":
        return "[%d]" % a["i"]
    if k == "slice":
        return "[%d:%d]" % (a["lo"], a["hi"])
    if k == "setitem":
        return "[%d]=%s(%s:%s)" % (a["i"], a["src"], a["as"], ",".join(cc.ids_str(a["ycell"])))
    if k == "setkey":
        return "[%s:%s]=%s(%s)" % (a["kind"], ",".join(map(str, a["rows"])), a["src"], ",".join(cc.ids_str(a["ycell"])))
    if k == "settuple":
        return "[%s]=unit(%s)" % (",".join(map(str, a["ix"])), ",".join(cc.ids_str(a["ycell"])))
    if k == "swap":
        return "tmp=[%d];[%d]=[%d];[%d]=tmp" % (a["i"], a["i"], a["j"], a["j"])
    if k == "hold":
        return "tmp=obj[%d]" % a["lo"] if a["kind"] == "index" else "tmp=obj[%d:%d]" % (a["lo"], a["hi"])
    if k == "putheld":
        return "[%d]=tmp" % a["i"]
    if k == "setheld":
        return "tmp[0]=unit(%s)" % ",".join(cc.ids_str(a["ycell"]))
    if k == "combine":
        return "combine(%s%s)" % ("+" if a.get("order", "first") == "first" else "first:",
                                  ";".join(",".join(cc.ids_str(o["cell"])) for o in a["others"]) or "nothing")
    if k == "astype":
        return "astype(%s)" % a["dtype"]
    return k


# ----------------------------------------------------------------------------------------
# executing one action of the specification on the live object
# ----------------------------------------------------------------------------------------
class Ctx:
    """the live object, the indexed sub-object the caller keeps, and the arrays the caller passed in"""
    def __init__(self, cls, dim):
        self.cls = cls
        self.dim = dim
        self.obj = None
        self.held = None      # tmp = obj[i] / sub = obj[a:b]
        self.inputs = []      # (array held by the caller, copy made when it was handed over)
        self.tol = cc.TOL
        self.complex = False
        self.negreps = False  # some units were handed over as -x
        self.prev = None      # the receiver of the last call that returned a new object, and its abstract state
        self.prev_state = None

    def hold(self, arr):
        self.inputs.append((arr, np.array(arr, copy=True)))


def _root(a):
    while isinstance(a.base, np.ndarray):
        a = a.base
    return a


def clone_ctx(ctx):
    """A private copy of the context for one branch of the exploration that PRESERVES aliasing between arrays
    (a sub-object that is a view into its parent, an object sharing the caller's array, shallow copies): every
    distinct root buffer is copied once and every array is re-created as the same view of the copied root.
    copy.deepcopy would silently turn views into independent arrays and hide exactly those histories."""
    roots = {}

    def amap(a):
        r = _root(a)
        if not (r.flags.owndata and (r.flags.c_contiguous or r.flags.f_contiguous)) or a.dtype.hasobject:
            return copy.deepcopy(a)
        key = id(r)
        if key not in roots:
            roots[key] = (r, r.copy(order="K"))
        r0, r1 = roots[key]
        if a is r0:
            return r1
        off = a.__array_interface__["data"][0] - r0.__array_interface__["data"][0]
        if r1.strides != r0.strides or off < 0 or a.dtype != r0.dtype:
            return copy.deepcopy(a)
        buf = r1 if r1.flags.c_contiguous else r1.T          # a C-contiguous window on the copied root
        return np.ndarray(shape=a.shape, dtype=a.dtype, buffer=buf, offset=off, strides=a.strides)

    # every array the caller can reach directly is cloned alias-preservingly and entered into the deepcopy memo, so
    # that any other reference to the SAME array object (e.g. a memo inside the library object that remembers "the
    # array my cached value was computed from") is mapped to the same clone: identity relations survive as well
    memo = {}
    keep = []
    for o in (ctx.obj, ctx.held, ctx.prev):
        if o is not None:
            for v in o.__dict__.values():
                if isinstance(v, np.ndarray) and id(v) not in memo:
                    memo[id(v)] = amap(v)
                    keep.append(v)
    for (arr, _snap) in ctx.inputs:
        if id(arr) not in memo:
            memo[id(arr)] = amap(arr)
            keep.append(arr)
    c = copy.copy(ctx)
    c.obj, c.held, c.prev, arrs = copy.deepcopy((ctx.obj, ctx.held, ctx.prev, [arr for (arr, _s) in ctx.inputs]), memo)
    c.inputs = [(a2, snap) for a2, (_a, snap) in zip(arrs, ctx.inputs)]
    return c


def perform(ctx, act, frm, to):
    """mutates ctx (a private deep copy). Library exceptions propagate to the caller."""
    k = act["a"]
    cls, dim = ctx.cls, ctx.dim
    C = cc.lib_class(cls)
    if k in ("copy", "apply", "reshape", "flatten", "index", "slice", "stack", "combine", "astype"):
        # these calls return a new object: the caller still holds the receiver, which must stay what it was
        ctx.prev, ctx.prev_state = ctx.obj, frm
        # copy.copy is Python's shallow copy: sharing the arrays with the original is its documented meaning, so the
        # original is only required to stay put until the copy is edited
        ctx.prev_shallow = (k == "copy" and act.get("kind") == "copy")
    elif k in ("setitem", "setkey", "settuple", "swap", "putheld") and ctx.prev is not None \
            and not getattr(ctx, "prev_shallow", False):
        # the result of the last deriving call is edited in place: the receiver the caller still holds is a different
        # object and must stay in the state it was in (no array shared between the two may be written)
        pass
    else:
        ctx.prev = ctx.prev_state = None
    if k == "construct":
        obj, (data,) = cc.build(TABS, cls, dim, to["shape"], to["pc"], route=act["route"], neg=act.get("neg", ()))
        ctx.obj = obj
        ctx.negreps = bool(act.get("neg"))
        ctx.hold(data)
    elif k == "copy":
        if act["kind"] == "copy":
            ctx.obj = copy.copy(ctx.obj)
        elif act["kind"] == "deepcopy":
            ctx.obj = copy.deepcopy(ctx.obj)
        else:
            ctx.obj = C(ctx.obj)
    elif k == "apply":
        T = cc.build_trans(TABS, cls, dim, act["tshape"], act["tcell"])
        ctx.obj = T.apply(ctx.obj, broadcast=act["mode"])
    elif k == "reshape":
        ctx.obj = ctx.obj.reshape(tuple(act["shape"]))
    elif k == "flatten":
        ctx.obj = ctx.obj.flatten_to_unit()
    elif k == "index":
        ctx.obj = ctx.obj[act["i"]]
    elif k == "slice":
        ctx.obj = ctx.obj[act["lo"]:act["hi"]]
    elif k == "setitem":
        if act["src"] == "item":
            n = frm["shape"][0]
            val = ctx.obj[(act["i"] + 1) % n]
        else:
            val, _ = cc.build(TABS, cls, dim, act["yshape"], act["ycell"])
        if act["as"] == "array":
            val = np.array(val.proj_data)
            ctx.hold(val)
        elif act["as"] == "points":
            val = cc._mods()[1].Point(np.array(val.proj_data))
        ctx.obj[act["i"]] = val
    elif k == "setkey":
        rows = list(act["rows"])
        n = frm["shape"][0]
        kind = act["kind"]
        if kind == "neg":
            key = rows[0] - n
        elif kind == "list":
            key = rows
        elif kind == "intarray":
            key = np.array(rows)
        elif kind == "mask":
            key = np.zeros(n, dtype=bool)
            key[rows] = True
        elif kind == "step2":
            key = slice(None, None, 2)
        elif kind == "reversed":
            key = slice(None, None, -1)
        else:
            raise core.MachineryFailure("unknown key kind %r" % kind)
        val, _ = cc.build(TABS, cls, dim, act["yshape"], act["ycell"])
        if act["src"] == "cells":
            val = np.array(val.proj_data)
            ctx.hold(val)
        ctx.obj[key] = val
    elif k == "settuple":
        val, _ = cc.build(TABS, cls, dim, act["yshape"], act["ycell"])
        ctx.obj[tuple(act["ix"])] = val
    elif k == "swap":
        tmp = ctx.obj[act["i"]]
        ctx.obj[act["i"]] = ctx.obj[act["j"]]
        ctx.obj[act["j"]] = tmp
    elif k == "hold":
        ctx.held = ctx.obj[act["lo"]] if act["kind"] == "index" else ctx.obj[act["lo"]:act["hi"]]
    elif k == "putheld":
        ctx.obj[act["i"]] = ctx.held
    elif k == "setheld":
        val, _ = cc.build(TABS, cls, dim, (), act["ycell"])
        ctx.held[0] = val
    elif k == "stack":
        ids = [cc.as_id(i) for i in frm["pc"]][::-1]
        other, _ = cc.build(TABS, cls, dim, frm["shape"], ids, scale=0.3)
        ctx.obj = C([ctx.obj, other])
    elif k == "combine":
        others = [cc.build(TABS, cls, dim, o["shape"], o["cell"], scale=0.3)[0] for o in act["others"]]
        ctx.obj = C.combine([ctx.obj] + others if act.get("order", "first") == "first" else others + [ctx.obj])
    elif k == "astype":
        ctx.obj = ctx.obj.astype(act["dtype"])
        if act["dtype"] == "float32":
            ctx.tol = cc.TOL32
        if act["dtype"].startswith("complex"):
            ctx.complex = True
    else:
        raise core.MachineryFailure("unknown action %r" % (act,))
    if ctx.obj is not None and np.iscomplexobj(ctx.obj.proj_data):
        ctx.complex = True


# ----------------------------------------------------------------------------------------
# queries
# ----------------------------------------------------------------------------------------
def run_query(q, obj, other, cls, dim):
    H, P = cc._mods()
    M = H.Model
    models = (M.PROJECTIVE, M.KLEIN, M.POINCARE, M.HYPERBOLOID, M.HALFSPACE)
    out = []            # every value the queries return (compared with the values a fresh object returns)
    if q == "projective_coords":
        out.append(obj.projective_coords())
    elif q == "kleinian_coords":
        out.append(obj.kleinian_coords())
        out.append(obj.coords(M.KLEIN))
    elif q == "affine_coords":
        out.append(obj.affine_coords(chart_index=0))
    elif q == "in_standard_chart":
        out.append(obj.in_standard_chart())
    elif q == "get_edges":
        e = obj.get_edges()
        if cls == "HPolygon":
            out.append(e.endpoint_coords(M.POINCARE))
            out.append(e.endpoint_coords(M.HYPERBOLOID))
        else:
            out.append(e.endpoint_affine_coords(0))
    elif q == "get_vertices":
        v = obj.get_vertices()
        out.append(v.affine_coords(chart_index=0))
    elif q == "vertex_coords_all_models":
        v = obj.get_vertices()
        for m in models:
            out.append(v.coords(m))
    elif q == "edges_circle_parameters":
        if dim == 2:
            out.append(obj.get_edges().circle_parameters())
            out.append(obj.get_edges().circle_parameters(degrees=False, model=M.HALFSPACE))
    elif q == "edges_ideal_endpoints":
        out.append(obj.get_edges().ideal_endpoint_coords())
    elif q == "endpoint_coords_all_models":
        for m in models:
            out.append(obj.endpoint_coords(m))
    elif q == "ideal_endpoint_coords":
        out.append(obj.ideal_endpoint_coords())
        out.append(obj.ideal_endpoint_coords(M.POINCARE))
    elif q == "circle_parameters":
        if dim == 2:
            out.append(obj.circle_parameters())
            out.append(obj.circle_parameters(degrees=False, model=M.HALFSPACE))
    elif q == "sphere_parameters":
        out.append(obj.sphere_parameters(M.POINCARE))
        out.append(obj.sphere_parameters(M.HALFSPACE))
    elif q == "geodesic":
        out.append(obj.geodesic().ideal_basis_coords())
    elif q == "get_end_pair":
        a, b = obj.get_end_pair(as_points=True)
        out.append(a.coords(M.HYPERBOLOID))
        out.append(obj.get_endpoints().coords(M.HYPERBOLOID))
    elif q == "endpoint_distance":
        a, b = obj.get_end_pair(as_points=True)
        out.append(a.distance(b))
    elif q == "origin_to":
        out.append(obj.origin_to())
        out.append(obj.origin_to(force_oriented=False))
    elif q == "isometry_to":
        out.append(obj.isometry_to(other))
        out.append(other.isometry_to(obj))
    elif q == "normalized":
        out.append(obj.normalized())
        out.append(obj.point)
        out.append(obj.vector)
    elif q == "angle":
        out.append(obj.angle(other))
    elif q == "point_along":
        out.append(obj.point_along(0.5))
    elif q == "base_point_coords_all_models":
        p = H.Point(obj.point)
        for m in models:
            out.append(p.coords(m))
    elif q == "coords_all_models":
        for m in models:
            out.append(obj.coords(m))
    elif q == "distance":
        out.append(obj.distance(other))
        out.append(other.distance(obj))
    elif q == "unit_tangent_towards":
        out.append(obj.unit_tangent_towards(other))
    else:
        raise core.MachineryFailure("query %r of the specification has no binding" % q)
    return out


def _flat_values(x):
    """numeric content of a query result (arrays, tuples of arrays, library objects)"""
    if isinstance(x, (tuple, list)):
        return [v for y in x for v in _flat_values(y)]
    if hasattr(x, "proj_data"):
        return [np.asarray(x.proj_data)] + ([np.asarray(x.aux_data)] if getattr(x, "aux_data", None) is not None else [])
    try:
        return [np.asarray(x).astype(complex)]
    except Exception:
        return []


def results_differ(got, want, tol, angles=False):
    """Compare what a query returns on the object that went through the history with what it returns on a fresh
    object of the same abstract state.  The two objects hold projectively equal but not bit-identical data, so only
    well-conditioned outputs are compared: entries that are finite and of moderate size (< 1e6) in BOTH results;
    whole arrays are first tried as equal up to tolerance, then as projectively equal rows (representatives and
    frame-dependent matrices).  A stale memoised result differs grossly on ordinary entries."""
    a, b = _flat_values(got), _flat_values(want)
    if len(a) != len(b):
        return "different number of returned arrays"
    for x, y in zip(a, b):
        x, y = np.asarray(x).astype(complex), np.asarray(y).astype(complex)
        if x.shape != y.shape:
            return "shape %r vs %r" % (x.shape, y.shape)
        if x.size == 0:
            continue
        okm = np.isfinite(x) & np.isfinite(y) & (np.abs(x) < 1e6) & (np.abs(y) < 1e6)
        if x.ndim >= 1:
            # one huge or non-finite coordinate makes the whole row (a centre, a point) ill-conditioned
            okm = okm & np.all(okm, axis=-1, keepdims=True)
        if not okm.any():
            continue
        err = np.abs(x - y)
        if angles:
            # arc angles (degrees or radians) are defined modulo a full turn: 360 and 0 are the same angle
            err = np.minimum(err, np.minimum(np.abs(err - 360.0), np.abs(err - 2 * np.pi)))
        err = err[okm]
        scale = np.maximum(1.0, np.abs(y)[okm])
        if (err <= max(tol, 1e-6) * scale).all():
            continue
        if x.ndim == 0 or not okm.all():
            # cannot try the projective comparison on partially ill-conditioned rows: only gross differences count
            if (err > 1e-3 * scale).any():
                return "values differ: %r vs fresh %r" % (np.round(x.ravel()[:6], 6).tolist(), np.round(y.ravel()[:6], 6).tolist())
            continue
        x2, y2 = x.reshape(-1, x.shape[-1]), y.reshape(-1, y.shape[-1])
        nx, ny = np.linalg.norm(x2, axis=-1, keepdims=True), np.linalg.norm(y2, axis=-1, keepdims=True)
        ok = bool((nx > 0).all() and (ny > 0).all())
        if ok:
            ph = np.sum((x2 / nx) * np.conj(y2 / ny), axis=-1)
            ok = bool((np.abs(np.abs(ph) - 1) <= 1e-6).all())
        if not ok and (err > 1e-3 * scale).any():
            return "values differ: %r vs fresh %r" % (np.round(x.ravel()[:6], 6).tolist(), np.round(y.ravel()[:6], 6).tolist())
    return None


_FRESH = {}      # (class, dim, abstract state, query) -> values a fresh object of that state returns


def fresh_values(cls, dim, state, ids, oids, q):
    key = (cls, dim, tuple(state["shape"]), tuple(ids), q)
    if key not in _FRESH:
        fresh, _ = cc.build(TABS, cls, dim, state["shape"], ids)
        fresh_other, _ = cc.build(TABS, cls, dim, state["shape"], oids)
        _FRESH[key] = [np.array(v, dtype=complex) for v in _flat_values(run_query(q, fresh, fresh_other, cls, dim))]
        if len(_FRESH) > 200000:
            _FRESH.clear()
    return _FRESH[key]


def tangent_frame(obj):
    """what the API shows of a tangent vector: (point, vector), read from primary and derived data"""
    return np.real(np.array(obj.point, dtype=complex)), np.real(np.array(obj.vector, dtype=complex))


def tangent_reversed(before, obj):
    """(x, v) and (-x, -v) are the same tangent vector and in-place normalisation rescales each row by a positive
    factor; (x, -v) is the reversed vector.  None, or a message if some unit got reversed."""
    bp, bv = before
    ap, av = tangent_frame(obj)
    if ap.shape != bp.shape or av.shape != bv.shape:
        return None
    s = np.sign((bp * ap).sum(-1)) * np.sign((bv * av).sum(-1))
    if (s < 0).any():
        return "the (point, vector) pair of unit %d now describes the reversed tangent vector" % int(np.argmax((s < 0).reshape(-1)))
    return None


def battery(ctx, state, obj=None):
    """call every query of the class; the object, the other operand and the caller's arrays must not move"""
    cls, dim = ctx.cls, ctx.dim
    obj = ctx.obj if obj is None else obj
    ids = [cc.as_id(i) for i in state["pc"]]
    K = TABS.K
    oids = [((i[0] % K) + 1, ()) for i in ids]          # another object of the same shape, other units
    other, (odata,) = cc.build(TABS, cls, dim, state["shape"], oids)
    whole = TABS.whole[cls]
    n = 0
    # the same abstract state built from scratch: a query on the object that went through the history must return
    # what it returns on this fresh object (stale memoised results, caches not invalidated by in-place edits)
    # chart-0 coordinates are defined only if every row of every unit has x_0 != 0 (flag computed by TLC)
    chart0 = all(TABS.units[dim][cls][i]["chart0"] for i in ids)
    for q in QUERIES[cls]:
        if not chart0 and q in ("affine_coords", "get_vertices", "get_edges", "kleinian_coords"):
            continue
        before = cc.snapshot(obj)
        obefore = cc.snapshot(other)
        tbefore = (tangent_frame(obj), tangent_frame(other)) if cls == "Tangent" else None
        n += 1
        try:
            with warnings.catch_warnings():
                warnings.simplefilter("ignore")
                with np.errstate(all="ignore"):
                    got = run_query(q, obj, other, cls, dim)
                    want = fresh_values(cls, dim, state, ids, oids, q)
        except core.MachineryFailure:
            raise
        except Exception as e:
            return n, ("query.raised:" + q, "%s: %s" % (type(e).__name__, e))
        # after astype(float32) the object carries single-precision data: near-degenerate outputs (radii of almost
        # straight arcs, NaN patterns) legitimately differ from the double-precision fresh object
        bad = (results_differ(got, want, ctx.tol, angles=q in ("circle_parameters", "edges_circle_parameters"))
               if (ctx.tol <= 1e-6 and not ctx.negreps) else None)
        if bad and q in ("circle_parameters", "edges_circle_parameters", "sphere_parameters"):
            # centre, radius and angles of one unit belong together: when any of them is degenerate (a geodesic
            # through the half-space point at infinity, a diameter) the others carry no information either
            vals = _flat_values(got) + _flat_values(want)
            if any((~np.isfinite(v)).any() or (np.abs(v[np.isfinite(v)]) > 1e6).any() for v in vals if v.size):
                bad = None
        if bad:
            return n, ("query_result_differs_from_fresh_object:" + q, bad)
        m = cc.moved(before, obj, whole, tol=ctx.tol)
        if m:
            return n, ("query_moved_object:" + q, m)
        m = cc.moved(obefore, other, whole, tol=ctx.tol)
        if m:
            return n, ("query_moved_argument:" + q, m)
        if tbefore is not None:
            m = tangent_reversed(tbefore[0], obj)
            if m:
                return n, ("query_reversed_tangent_vector:" + q, m)
            m = tangent_reversed(tbefore[1], other)
            if m:
                return n, ("query_reversed_argument:" + q, m)
        for (arr, snap) in ctx.inputs:
            m = cc.moved(snap.astype(complex), arr, whole, tol=ctx.tol)
            if m:
                return n, ("query_moved_caller_array:" + q, m)
    return n, None


# ----------------------------------------------------------------------------------------
# bounded-exhaustive histories
# ----------------------------------------------------------------------------------------
class Stats:
    def __init__(self):
        self.steps = 0
        self.nodes = 0
        self.queries = 0
        self.hist = 0
        self.viol = []
        self.per = {}
        self.sample = None


def project(ctx, state):
    """projection of everything the caller can see onto the specification's state. Returns None or (clause, detail)."""
    bad = cc.check_object(TABS, ctx.obj, ctx.cls, ctx.dim, state["shape"], state["pc"], tol=ctx.tol)
    if bad:
        return bad
    if state.get("held"):
        # the indexed sub-object the caller kept is an object of its own: later calls on the object it was taken
        # from do not change it, and assigning into it does not change that object
        if ctx.held is None:
            return ("held.missing", "harness lost the held object")
        bad = cc.check_object(TABS, ctx.held, ctx.cls, ctx.dim, state["hshape"], state["hpc"], tol=ctx.tol)
        if bad:
            return ("held_object:" + bad[0], bad[1])
    if ctx.prev is not None:
        # a call that returns a new object leaves its receiver in the state it was in
        bad = cc.check_object(TABS, ctx.prev, ctx.cls, ctx.dim, ctx.prev_state["shape"], ctx.prev_state["pc"], tol=ctx.tol)
        if bad:
            return ("receiver_of_last_call:" + bad[0], bad[1])
    # arrays the caller handed over (constructor input, assigned values) are the caller's: no later call on the
    # object may write into them
    for n, (arr, snap) in enumerate(ctx.inputs):
        m = cc.moved(snap.astype(complex), arr, TABS.whole[ctx.cls], tol=ctx.tol)
        if m:
            return ("caller_array_written", "array #%d handed over by the caller: %s" % (n, m))
    return None


def explore(ctx, key, state, hist, depth, st, qrate, rng, root=False, lts="main"):
    """ctx.obj realises `state`. Check it, query it, then try every action."""
    st.nodes += 1
    try:
        bad = project(ctx, state)
    except core.MachineryFailure:
        raise
    except Exception as e:
        bad = ("projection.raised", "%s: %s" % (type(e).__name__, e))
    if bad:
        if len(st.viol) < 10:
            st.viol.append((list(hist), bad))
        return
    edited = bool(hist) and "]=" in hist[-1]          # the last action was an item assignment
    # after an item assignment the queries always run (stale memoised results); in the third level of the thorough
    # tier on a seeded tenth of those states
    if edited and len(hist) > 4:
        edited = rng.random() < 0.1
    # the first call after the constructor that returns a new object: query the result, then the receiver (memoised
    # values shared between an object and the objects made from it)
    derived = ctx.prev is not None and len(hist) == 3 and ctx.dim == 2 and hist[1].startswith("construct(array)")
    if not ctx.complex and (root or edited or derived or qrate >= 1.0 or rng.random() < qrate):
        try:
            n, bad = battery(ctx, state)
            st.queries += n
            if not bad and ctx.prev is not None and not np.iscomplexobj(ctx.prev.proj_data):
                n, bad = battery(ctx, ctx.prev_state, obj=ctx.prev)
                st.queries += n
                if bad:
                    bad = ("receiver_queried_after_result:" + bad[0], bad[1])
            if not bad:
                bad = project(ctx, state)
                if bad:
                    bad = ("after_queries:" + bad[0], bad[1])
        except core.MachineryFailure:
            raise
        except Exception as e:
            bad = ("query.raised", "%s: %s" % (type(e).__name__, e))
        if bad:
            if len(st.viol) < 10:
                st.viol.append((list(hist) + ["<queries>"], bad))
            return
    succ = LTS[lts].get(key, []) if depth > 0 else []
    if depth == 0 or not succ:
        st.hist += 1
        if st.sample is None and len(hist) >= 3 and ctx.cls != "HPoint":
            st.sample = dict(kind="history", cls=ctx.cls, dim=ctx.dim, actions=list(hist), final_shape=list(state["shape"]),
                             final_units=cc.ids_str(state["pc"]))
        return
    for (act, tk, to) in succ:
        c2 = clone_ctx(ctx)
        h2 = hist + [act_str(act)]
        st.steps += 1
        st.per[act["a"]] = st.per.get(act["a"], 0) + 1
        try:
            with warnings.catch_warnings():
                warnings.simplefilter("ignore")
                with np.errstate(all="ignore"):
                    perform(c2, act, state, to)
        except core.MachineryFailure:
            raise
        except Exception as e:
            if len(st.viol) < 10:
                st.viol.append((h2, ("raised:" + act["a"], "%s: %s" % (type(e).__name__, e))))
            continue
        explore(c2, tk, to, h2, depth - 1, st, qrate, rng, lts=lts)


def explore_chunk(args):
    jobs, depth, qrate, seed = args
    st = Stats()
    for (cls, dim, act, tk, to, d, ltsname) in jobs:
        rng = random.Random(zlib.crc32(repr((seed, cls, dim, act_str(act), tk)).encode()))
        ctx = Ctx(cls, dim)
        st.steps += 1
        st.per["construct"] = st.per.get("construct", 0) + 1
        h = [cls + ".dim%d" % dim, act_str(act) + "%s:%s" % (tuple(to["shape"]), ",".join(cc.ids_str(to["pc"])))]
        try:
            with warnings.catch_warnings():
                warnings.simplefilter("ignore")
                with np.errstate(all="ignore"):
                    perform(ctx, act, None, to)
        except core.MachineryFailure:
            raise
        except Exception as e:
            st.viol.append((h, ("raised:construct", "%s: %s" % (type(e).__name__, e))))
            continue
        explore(ctx, tk, to, h, d, st, qrate, rng, root=True, lts=ltsname)
    return st


def derived_lts(run, classes, maxops, maxsize, name, K=5, lean=False):
    """labelled transition system of Derived.tla. The stuttering query actions are taken from a run with MaxOps = 0
    (they are enabled in every built state; leaving them out of the big run keeps its output small)."""
    def go(ops, withq, nm):
        c = core.cfg(constants=dict(Classes=set(classes), K=K, MaxWord=2, MaxOps=ops, MaxSize=maxsize, WithQueries=withq, Lean=lean),
                     invariants=["TypeOK", "Coherent"], view="View", action_constraints=["Emit"])
        return run.tlc("comp/Derived.tla", c, name=nm, workers=min(8, core.NCPU))
    queries = {}
    for e in go(0, True, name + "_queries").emits:
        if e["act"]["a"] == "query":
            queries.setdefault(e["from"]["cls"], set()).add(e["act"]["q"])
    lts = {}
    seen = set()
    r = go(maxops, False, name)
    for e in r.emits:
        fk, tk = skey(e["from"]), skey(e["to"])
        a = e["act"]
        sig = (fk, json.dumps(a, sort_keys=True), tk)
        if sig in seen:
            continue
        seen.add(sig)
        lts.setdefault(fk, []).append((a, tk, e["to"]))
    r.emits = None
    if not lts or not queries:
        raise core.MachineryFailure("Derived.tla emitted no transitions")
    return lts, {c: sorted(q) for c, q in queries.items()}


# ----------------------------------------------------------------------------------------
# X[i] = Y over every pair of shapes of Composite.tla
# ----------------------------------------------------------------------------------------
def setitem_chunk(args):
    cases, seed = args
    n = 0
    viol = []
    sample = None
    for (cls, dim, sx, st, as_) in cases:
        rec = TABS.setitem[(sx, st)]
        rng = random.Random(zlib.crc32(repr((seed, cls, dim, sx, st)).encode()))
        K = TABS.K
        nx = int(np.prod(sx))
        nt = int(np.prod(st)) if st else 1
        xids = [rng.randrange(K) + 1 for _ in range(nx)]
        yids = [rng.randrange(K) + 1 for _ in range(nt)]
        for i, exp in enumerate(rec):
            n += 1
            ids = [yids[c - 1001] if c > 1000 else xids[c - 1] for c in exp["cell"]]
            try:
                with warnings.catch_warnings():
                    warnings.simplefilter("ignore")
                    with np.errstate(all="ignore"):
                        X, _ = cc.build(TABS, cls, dim, sx, xids)
                        Y, _ = cc.build(TABS, cls, dim, st, yids)
                        X[i] = np.array(Y.proj_data) if as_ == "array" else cc._mods()[1].Point(np.array(Y.proj_data)) if as_ == "points" else Y
                bad = cc.check_object(TABS, X, cls, dim, exp["shape"], ids)
            except Exception as e:
                bad = ("raised", "%s: %s" % (type(e).__name__, e))
            if bad:
                if len(viol) < 10:
                    viol.append((dict(cls=cls, dim=dim, sx=list(sx), st=list(st), i=i, value=as_), bad))
                break
            if sample is None and len(sx) == 2 and len(st) == 1 and sx[0] > 1:
                sample = dict(kind="set item", cls=cls, sx=list(sx), sy=list(st), i=i, x_units=xids, y_units=yids,
                              spec_units_after=ids)
    return n, viol, sample


def run(run, replay=None):
    global TABS, LTS, QUERIES
    quick = run.tier == "quick"
    if os.environ.get("VERIF_C11_PART") == "suite":
        # only the validation of the histories of the repository's own tests (used to show what that part catches alone)
        from . import c11_suite
        c11_suite.run(run)
        return
    if replay:
        try:
            rp = json.load(open(replay))
            run.seed = int(rp.get("seed", run.seed))
        except Exception as e:
            raise core.MachineryFailure("cannot read replay file %s: %s" % (replay, e))
    run.rule = ("a case is one executed step of a history of Derived.tla actions on the real object (each followed by "
                "the projection onto primary / derived unit ids) or one X[i] = Y assignment; distinct_nontrivial counts "
                "executed steps of distinct histories; traces counts complete histories")
    run.assumptions += [
        "classes: projective Polygon, hyperbolic Polygon, Segment, TangentVector (derived data) and hyperbolic Point; "
        "dimension 2 (and 3 with a smaller depth)",
        "histories: constructor (from an array / an array with some units stored as -x / an integer-typed array / a "
        "Fortran-contiguous array / a non-contiguous negative-stride view / a list of objects / an object) "
        "then up to 2 state-changing calls (one less for the other constructor routes than from an array, in dimension 3 "
        "and for hyperbolic Point; quick: depth 2 only from the objects of shape (), (2,), (3,), (2,2) and one "
        "representative per family of item-assignment arguments); thorough adds depth 3 from the array-built objects of "
        "shape (), (2,), (2,2) in dimension 2 with one representative per family of item-assignment arguments",
        "objects of at most 6 units, at most two transformations per unit; an indexed sub-object kept by the caller "
        "(tmp = obj[i], sub = obj[a:b]) is part of the state and is projected after every step; every array the caller "
        "handed over must keep representing the same points after every step",
        "the receiver of a call that returns a new object is projected after the call; for the first such call after an "
        "array constructor (dimension 2) the result is queried and then the receiver, both against fresh objects; the "
        "other operand of stack / combine holds float data scaled by 0.3 (mixed dtypes with the integer-typed route), "
        "combine in both orders",
        "the query battery runs after the constructor, after every item assignment (a seeded tenth of them at depth 3) "
        "and on a seeded 5% (quick) / 4% (thorough) of the other states; the comparison with a fresh object is skipped "
        "for objects built from -x representatives (sign conventions of returned representatives are C12's subject)",
        "queries are not executed on complex-valued objects (after astype(complex128)); tolerance 5e-4 after float32",
        "ConvexPolygon is not covered (composite use documented as unsupported)",
    ]
    depth = 2 if quick else 3
    # the TLC runs are independent: explore Derived.tla while the payload / index tables are produced
    import threading
    box = {}

    def lts_job():
        try:
            if quick:
                box["main"] = derived_lts(run, DERIVED_CLASSES, 2, 6, "Derived_depth2", K=5, lean=True)
            else:
                # every argument combination to depth 2; one representative per family of item-assignment arguments
                # (Lean) to depth 3
                box["main"] = derived_lts(run, DERIVED_CLASSES, 2, 6, "Derived_depth2", K=5, lean=False)
                box["deep"] = derived_lts(run, [c for c in DERIVED_CLASSES if c != "HPoint"], 3, 6, "Derived_depth3_lean", K=5,
                                          lean=True)
        except BaseException as e:
            box["err"] = e
    th = threading.Thread(target=lts_job)
    th.start()
    try:
        TABS = cc.load_all(run, maxrank=2 if quick else 3, dims=(2, 3), K=5, maxword=2, classes=DERIVED_CLASSES)
    finally:
        th.join()
    if "err" in box:
        raise box["err"]
    LTS = {k: v[0] for k, v in box.items()}
    QUERIES = box["main"][1]
    nproc = min(8, core.NCPU)
    # jobs: one per (class, dimension, constructor transition)
    jobs = []
    for key, succ in LTS["main"].items():
        if key[1]:
            continue
        for (act, tk, to) in succ:
            cls = key[0]
            # depth 2 in dimension 2 for the array route; one level less for the other constructor routes, for dimension 3
            # and for the class without derived data
            d2 = 2 if act["route"] == "array" else 1
            if cls == "HPoint":
                d2 -= 1
            if quick and tuple(to["shape"]) in ((1, 2), (2, 1)):
                d2 = min(d2, 1)           # quick: depth 2 from the objects of shape (), (2,), (3,), (2,2)
            jobs.append((cls, 2, act, tk, to, d2, "main"))
            if act["route"] in ("array", "negarray", "list", "iterator", "object"):
                jobs.append((cls, 3, act, tk, to, max(d2 - 1, 0), "main"))
    for key, succ in LTS.get("deep", {}).items():
        if key[1]:
            continue
        for (act, tk, to) in succ:
            # thorough: depth 3 from the objects of shape (), (2,), (2,2) built from an array, dimension 2
            if act["route"] == "array" and tuple(to["shape"]) in ((), (2,), (2, 2)):
                jobs.append((key[0], 2, act, tk, to, 3, "deep"))
    jobs.sort(key=lambda j: -j[5])
    qrate = 0.05 if quick else 0.04
    # interleave jobs over the workers, heavy ones first
    chunks = [jobs[i::nproc * 4] for i in range(nproc * 4)]
    with mp.get_context("fork").Pool(nproc) as pool:
        outs = pool.map(explore_chunk, [(c, depth, qrate, run.seed) for c in chunks if c], chunksize=1)
    steps = hist = nodes = queries = 0
    for st in outs:
        steps += st.steps
        hist += st.hist
        nodes += st.nodes
        queries += st.queries
        for a, k in st.per.items():
            run.actions[a] = run.actions.get(a, 0) + k
        for h, bad in st.viol:
            run.violation(";".join(h), bad[0], dict(history=h, observed=bad[1]))
        if st.sample:
            run.sample(st.sample)
    run.actions["query"] = queries
    run.evaluations += steps + queries
    run.nontrivial_count += steps
    run.traces += hist
    run.extra["histories"] = dict(depth_after_constructor=depth, steps=steps, states_checked=nodes, complete_histories=hist,
                                  queries_called=queries, query_rate_below_root=qrate)
    # X[i] = Y for all shape pairs
    cases = []
    for (sx, st) in sorted(TABS.setitem):
        for cls in DERIVED_CLASSES:
            for dim in (2, 3):
                for as_ in ("object", "array", "points"):
                    if quick and (len(sx) + len(st) > 3) and dim == 3:
                        continue
                    cases.append((cls, dim, sx, st, as_))
    random.Random(run.seed).shuffle(cases)
    chunks = [cases[i::nproc] for i in range(nproc)]
    with mp.get_context("fork").Pool(nproc) as pool:
        outs = pool.map(setitem_chunk, [(c, run.seed) for c in chunks if c])
    tot = 0
    for (n, viol, sample) in outs:
        tot += n
        for ctx, bad in viol:
            run.violation("setitem:%(cls)s:dim%(dim)d:%(sx)s:%(st)s:%(i)d:%(value)s" % ctx, "setitem:" + bad[0],
                          dict(case=ctx, observed=bad[1]))
        if sample:
            run.sample(sample)
    run.evaluations += tot
    run.nontrivial_count += tot
    run.traces += tot
    run.actions["setitem(all shapes)"] = tot
    # code -> spec: random long histories on larger shapes, validated by TLC against CompositeTrace.tla
    nhist = 300 if quick else 4000
    traces, meta, errors = comp_trace.record(TABS, random.Random(run.seed + 11), DERIVED_CLASSES, (2, 3), nhist, 10,
                                             query_fn=run_query, queries=QUERIES)
    comp_trace.validate_and_report(run, traces, meta, errors, clause="trace")

    # code -> spec on the repository's OWN tests: the suite runs under an external tracing plug-in, every history it
    # exercises on ProjectiveObject-family objects is validated by TLC against CompositeTrace.tla
    from . import c11_suite
    c11_suite.run(run)
