"""C01 — hyperbolic model coordinates are mutually consistent and carry one metric.

spec/hyp/HypPoints.tla (conversion machine over exact rational coordinates; invariants
PointFixed, InModel) and spec/hyp/HypMetric.tla (cosh^2 d exact; reversed Cauchy-Schwarz,
agreement of the five closed-form metrics, integer triangle inequality on all triples).
Conformance: every emitted conversion transition (x, m1, c1) -> (m2, c2) is replayed as
Point(c1, model=m1).coords(m2) (unit objects and composite arrays of several shapes), chains
of conversions are walked through the LTS; every emitted pair is replayed through
Point.distance and compared with the exact cosh^2; each model's closed form is evaluated on
the library's own coordinates; metric laws are evaluated on the library's values.
The caller's coordinate arrays are handed to the library as they are (not copies) and must still
hold the spec's coordinates afterwards; rebuilding from the same array gives the same point.
Query histories of HypPoints.tla (HInit / HNext: build from coordinates in a model, then a
sequence of queries) are executed on one live object; every array handed out is kept (not
copied) and re-compared with the spec value after every later query.  Distances are also taken
between points supplied through different models (DPAIRS) and different representatives (REPS).
"""
import itertools
import json
import random

import numpy as np

from .. import core

TOL = 1e-9


def rat(c):
    return np.array([p[0] / p[1] for p in c], dtype=float)


def hyp():
    from geometry_tools import hyperbolic
    return hyperbolic


def proj_equal(a, b, tol=TOL):
    """rows of a and b projectively equal"""
    a = np.atleast_2d(np.asarray(a, float))
    b = np.atleast_2d(np.asarray(b, float))
    na = a / np.linalg.norm(a, axis=-1, keepdims=True)
    nb = b / np.linalg.norm(b, axis=-1, keepdims=True)
    s = np.sign(np.sum(na * nb, axis=-1, keepdims=True))
    return np.abs(na - s * nb).max(axis=-1) <= tol


def coords_equal(m, got, want, tol=TOL):
    got = np.atleast_2d(np.asarray(got, float))
    want = np.atleast_2d(np.asarray(want, float))
    if got.shape != want.shape:
        return np.zeros(len(want), bool)
    if m == "projective":
        return proj_equal(got, want, tol)
    scale = np.maximum(1.0, np.abs(want).max(axis=-1))
    err = np.abs(got - want).max(axis=-1)
    if m == "hyperboloid":      # sheet (global sign) is not fixed by the property
        err = np.minimum(err, np.abs(got + want).max(axis=-1))
    return err <= tol * scale


def conversion_lts(run, n, B, bpair, bhist, depth):
    """one TLC run per dimension: conversion transitions (EMIT), query histories (HIST), tables (FAR, DPAIRS, ...)"""
    c = core.cfg(constants=dict(N=n, B=B, MaxSteps=1, BPair=bpair, BHist=bhist, MaxQueries=depth),
                 invariants=["PointFixed", "InModel", "HeldValid", "OriginDistance", "EmitHist"], view="View",
                 action_constraints=["Emit"])
    r = run.tlc("hyp/HypPoints.tla", c, name="HypPoints_n%d" % n, workers=min(8, core.NCPU))
    far, farpairs, near, dpairs = None, None, None, None
    hist = []
    for line in r.stdout.splitlines():
        if line.startswith('"HIST '):
            hist.append(json.loads(json.loads(line)[5:]))
            continue
        if line.startswith('"DPAIRS '):
            dpairs = json.loads(json.loads(line)[7:])
        if line.startswith('"NEARPAIRS '):
            near = json.loads(json.loads(line)[10:])
        if line.startswith('"FAR '):
            far = json.loads(json.loads(line)[4:])
        if line.startswith('"FARPAIRS '):
            farpairs = json.loads(json.loads(line)[9:])
    if far is None or farpairs is None or dpairs is None:
        raise core.MachineryFailure("no FAR / DPAIRS tables printed by HypPoints.tla")
    replay_far(run, n, far, farpairs)
    replay_near(run, n, near or [])
    return r.emits, dpairs, hist


def replay_near(run, n, near):
    """nearly coincident pairs: the reported distance must be the small positive exact distance (not 0, not NaN) and
    agree with the closed forms of the conformal models evaluated on the library's own coordinates"""
    H = hyp()
    for (x, y, eps) in near:
        e = eps[0] / eps[1]                      # cosh d - 1, exact
        d_want = float(np.log1p(e + np.sqrt(e * (2 + e))))
        key = "near:n=%d:x=%s:y=%s" % (n, x, y)
        run.case(key=key, action="distance_near")
        try:
            P, Q = H.Point(np.array(x, float)), H.Point(np.array(y, float))
            with np.errstate(all="ignore"):
                d1, d2 = float(P.distance(Q)), float(Q.distance(P))
                p, q = np.asarray(P.coords("poincare")), np.asarray(Q.coords("poincare"))
                cp = 2 * ((p - q) ** 2).sum() / ((1 - (p ** 2).sum()) * (1 - (q ** 2).sum()))       # cosh - 1
            # arccosh near 1 is square-root conditioned: eps_machine / e relative error in cosh - 1
            tol = max(1e-6, 4e-16 / e)
            bad = None
            if not (np.isfinite(d1) and abs(d1 - d_want) <= tol * d_want and abs(d2 - d_want) <= tol * d_want):
                bad = ("distance_near.value", "d = %r / %r, exact %r" % (d1, d2, d_want))
            elif not abs(cp - e) <= 1e-6 * e:
                bad = ("closed_form_near.poincare", "cosh-1 from library coordinates %r, exact %r" % (cp, e))
        except Exception as ex:
            bad = ("raised:distance_near", "%s: %s" % (type(ex).__name__, ex))
        if bad:
            run.violation(key, bad[0], dict(n=n, x=x, y=y, observed=bad[1]))


def replay_far(run, n, far, farpairs):
    """points far from the origin (cosh d up to 3363): conversions among projective / Klein / Poincare / hyperboloid
    against the exact coordinates, the half-space model through its round trip, distances against the exact cosh"""
    H = hyp()
    models = ["projective", "klein", "poincare", "hyperboloid"]
    coords = {m: np.array([rat(f[m]) if m != "projective" else np.array(f["x"], float) for f in far]) for m in models}
    key = "far:n=%d" % n
    for m1 in models:
        for m2 in models + ["halfspace"]:
            run.case(key=(key, m1, m2), action="convert_far")
            try:
                p = H.Point(coords[m1].copy(), model=m1)
                if m2 == "halfspace":
                    # no exact half-space oracle here: the round trip must return to the exact point
                    back = np.asarray(H.Point(np.asarray(p.coords("halfspace")), model="halfspace").coords("klein"))
                    ok = coords_equal("klein", back, coords["klein"], 1e-7)
                    got, want = back, coords["klein"]
                else:
                    got = np.asarray(p.coords(m2))
                    want = coords[m2]
                    # relative to the distance from the boundary, not to the coordinate itself: these points sit at
                    # 1 - |k| ~ 1/cosh^2 d from the unit sphere and a chart map may not collapse that gap
                    # ball coordinates carry the point with conditioning cond = cosh^2 d(x, origin) (spec)
                    cnd = np.array([f["cond"][0] / f["cond"][1] for f in far])
                    ok = coords_equal(m2, got, want, 1e-9 + (64 * 2.3e-16 * cnd if m1 in ("klein", "poincare") else 0.0))
                    if m2 in ("klein", "poincare"):
                        gap_got = 1 - (got ** 2).sum(-1)
                        gap_want = 1 - (want ** 2).sum(-1)
                        ok = ok & (np.abs(gap_got - gap_want) <= 1e-6 * gap_want)
            except Exception as ex:
                run.violation("%s:%s->%s:raise" % (key, m1, m2), "raised:convert_far", dict(n=n, frm=m1, to=m2, error="%s: %s" % (type(ex).__name__, ex)))
                continue
            for i in np.nonzero(~ok)[0][:2]:
                run.violation("%s:%s->%s:x=%s" % (key, m1, m2, far[i]["x"]), "convert_far.value",
                              dict(n=n, x=far[i]["x"], frm=m1, to=m2, got=np.asarray(got)[i].tolist(), spec=np.asarray(want)[i].tolist()))
    X = np.array([p[0] for p in farpairs], float)
    Y = np.array([p[1] for p in farpairs], float)
    want = np.array([-p[2][0] / p[2][1] for p in farpairs])
    same = np.array([p[0] == p[1] for p in farpairs])
    # the two points of every pair are supplied through their exact coordinates in every model (half-space: the
    # coordinates the library itself reports, verified by the round trip above); the objects are FRESH, so this is the
    # first distance call on them.  Ball coordinates of a point at distance d from the origin carry it with conditioning
    # cond = cosh^2 d (spec), so the tolerance is scaled by it for those routes.
    index = {tuple(f["x"]): i for i, f in enumerate(far)}
    iu = np.array([index[tuple(p[0])] for p in farpairs])
    iv = np.array([index[tuple(p[1])] for p in farpairs])
    cond = np.array([f["cond"][0] / f["cond"][1] for f in far])
    src = dict(coords)
    try:
        with np.errstate(all="ignore"):
            src["halfspace"] = np.asarray(H.Point(coords["projective"].copy()).coords("halfspace"), float)
    except Exception:
        pass                # reported by the conversion clause above
    EPS = 2.3e-16
    for m1 in src:
        for m2 in src:
            run.case(key=(key, "distance", m1, m2), action="distance_far")
            a, b = src[m1][iu].copy(), src[m2][iv].copy()
            a0, b0 = a.copy(), b.copy()
            loose1 = 0.0 if m1 in ("projective", "hyperboloid") else 1.0
            loose2 = 0.0 if m2 in ("projective", "hyperboloid") else 1.0
            tol = 1e-8 + 256 * EPS * (loose1 * cond[iu] + loose2 * cond[iv])
            try:
                with np.errstate(all="ignore"):
                    d = np.asarray(H.Point(a, model=m1).distance(H.Point(b, model=m2)))
                    d_unit = float(H.Point(src[m1][iu[-1]].copy(), model=m1).distance(H.Point(src[m2][iv[-1]].copy(), model=m2)))
            except Exception as ex:
                run.violation("%s:distance:%s,%s:raise" % (key, m1, m2), "raised:distance_far", dict(n=n, models=[m1, m2], error="%s: %s" % (type(ex).__name__, ex)))
                continue
            run.evaluations += len(farpairs) + 1
            fin = np.isfinite(d)
            bad = fin & (np.abs(np.cosh(d) - want) > tol * want)
            bad |= fin & same & ~(d <= 1e-5 + np.sqrt(2 * tol))
            for clause, mask in (("distance_far.finite_not_nan", ~fin), ("distance_far.value", bad)):
                for i in np.nonzero(mask)[0][:2]:
                    run.violation("%s:distance:%s,%s:%s:%s" % (key, m1, m2, farpairs[i][0], farpairs[i][1]), clause,
                                  dict(n=n, x=farpairs[i][0], y=farpairs[i][1], models=[m1, m2], lib=repr(float(d[i])), spec_cosh=float(want[i]),
                                       given=[a0[i].tolist(), b0[i].tolist()]))
            if not (np.isfinite(d_unit) and abs(np.cosh(d_unit) - want[-1]) <= tol[-1] * want[-1]):
                run.violation("%s:distance:%s,%s:unit:%s:%s" % (key, m1, m2, farpairs[-1][0], farpairs[-1][1]), "distance_far.unit",
                              dict(n=n, x=farpairs[-1][0], y=farpairs[-1][1], models=[m1, m2], lib=repr(d_unit), spec_cosh=float(want[-1])))
            if not (np.array_equal(a, a0) and np.array_equal(b, b0)):
                run.violation("%s:distance:%s,%s:input" % (key, m1, m2), "build.caller_array_unchanged",
                              dict(n=n, models=[m1, m2], note="a coordinate array passed to Point(..., model=m) was written by the library"))
    run.sample(dict(kind="far point", n=n, point=far[-1]))


def replay_conversions(run, n, emits, rng):
    H = hyp()
    groups = {}
    for e in emits:
        groups.setdefault((e["from"]["m"], e["to"]["m"]), []).append(e)
    coords_of = {}          # x -> model -> coords
    for e in emits:
        coords_of.setdefault(tuple(e["x"]), {})[e["from"]["m"]] = rat(e["from"]["c"])
    for (m1, m2), es in sorted(groups.items()):
        src = np.array([rat(e["from"]["c"]) for e in es])
        want = np.array([rat(e["to"]["c"]) for e in es])
        k = len(es)
        # ideal points: the Klein -> Poincare map has a square root at the boundary (sqrt(|1-|k|^2|)),
        # so rounding of order 1e-16 in |k|^2 legitimately shows as ~1e-8 in conformal coordinates
        tols = np.array([2e-7 if e["ideal"] else TOL for e in es])
        key = "convert:n=%d:%s->%s" % (n, m1, m2)
        # composite arrays: flat, 2-d and 3-d shapes (including size-1 axes)
        shapes = [(k,)]
        if k >= 6:
            k2 = (k // 6) * 6
            shapes += [(k2 // 6, 6), (1, k2 // 6, 3, 2)][: 2]
        for shp in shapes:
            cnt = int(np.prod(shp))
            try:
                # `given` is the caller's array: it is handed over as it is, must still hold the spec's coordinates
                # afterwards, and building from it a second time must give the same point
                given = src[:cnt].reshape(shp + (src.shape[-1],)).copy()
                p = H.Point(given, model=m1)
                got = np.asarray(p.coords(m2))
                if got.shape[:-1] != shp:
                    run.violation(key + ":shape%r" % (shp,), "convert.shape", dict(n=n, frm=m1, to=m2, shape=shp, got=got.shape))
                    continue
                ok = coords_equal(m2, got.reshape(cnt, -1), want[:cnt], tols[:cnt])
                again = np.asarray(H.Point(given, model=m1).coords(m2))
                ok_again = coords_equal(m2, again.reshape(cnt, -1), want[:cnt], tols[:cnt])
                kept = np.array_equal(given.reshape(cnt, -1), src[:cnt])
            except Exception as ex:
                run.violation(key + ":raise%r" % (shp,), "raised:convert", dict(n=n, frm=m1, to=m2, shape=shp, error="%s: %s" % (type(ex).__name__, ex)))
                continue
            run.evaluations += 2 * cnt
            for i in np.nonzero(~ok)[0][:3]:
                e = es[i]
                run.violation(key + ":x=%s" % (e["x"],), "convert.value",
                              dict(n=n, x=e["x"], frm=m1, to=m2, given=src[i].tolist(), got=got.reshape(cnt, -1)[i].tolist(), spec=want[i].tolist(), shape=shp))
            for i in np.nonzero(ok & ~ok_again)[0][:3]:
                e = es[i]
                run.violation(key + ":again:x=%s" % (e["x"],), "build.same_array_same_point",
                              dict(n=n, x=e["x"], frm=m1, to=m2, given=src[i].tolist(), array_now=given.reshape(cnt, -1)[i].tolist(),
                                   first=got.reshape(cnt, -1)[i].tolist(), second=again.reshape(cnt, -1)[i].tolist(), shape=shp))
            if not kept:
                i = int(np.nonzero((given.reshape(cnt, -1) != src[:cnt]).any(-1))[0][0])
                run.violation(key + ":input:shape%r" % (shp,), "build.caller_array_unchanged",
                              dict(n=n, frm=m1, to=m2, shape=shp, x=es[i]["x"], given=src[i].tolist(), array_now=given.reshape(cnt, -1)[i].tolist()))
        # unit objects (a sample)
        for i in rng.sample(range(k), min(k, 12)):
            try:
                given = src[i].copy()
                got = np.asarray(H.Point(given, model=m1).coords(m2))
                ok = got.shape == want[i].shape and coords_equal(m2, got, want[i], tols[i])[0]
                if ok:
                    again = np.asarray(H.Point(given, model=m1).coords(m2))
                    if not (np.array_equal(given, src[i]) and coords_equal(m2, again, want[i], tols[i])[0]):
                        run.violation(key + ":unit:again:x=%s" % (es[i]["x"],), "build.caller_array_unchanged",
                                      dict(n=n, x=es[i]["x"], frm=m1, to=m2, given=src[i].tolist(), array_now=given.tolist(), second=again.tolist()))
            except Exception as ex:
                ok, got = False, "%s: %s" % (type(ex).__name__, ex)
            run.evaluations += 1
            if not ok:
                run.violation(key + ":unit:x=%s" % (es[i]["x"],), "convert.unit",
                              dict(n=n, x=es[i]["x"], frm=m1, to=m2, got=np.asarray(got).tolist() if not isinstance(got, str) else got, spec=want[i].tolist()))
        run.actions["convert %s->%s" % (m1, m2)] = run.actions.get("convert %s->%s" % (m1, m2), 0) + k
        run.traces += k
    run.nontrivial_count += len(emits)
    if emits:
        e = emits[len(emits) // 2]
        run.sample(dict(kind="conversion transition", n=n, x=e["x"], frm=e["from"], to=e["to"]))
    # chains of conversions through the LTS: the point read at the end is the point we started from
    full = [x for x, d in coords_of.items() if len(d) == 5]
    models = ["projective", "klein", "hyperboloid", "poincare", "halfspace"]
    for _ in range(6 if run.tier == "quick" else 30):
        chain = [rng.choice(models) for _ in range(5)]
        if not full:
            break
        try:
            cur = np.array([coords_of[x][chain[0]] for x in full])
            for m_from, m_to in zip(chain, chain[1:]):
                cur = np.asarray(H.Point(cur.copy(), model=m_from).coords(m_to))
            want = np.array([coords_of[x][chain[-1]] for x in full])
            ok = coords_equal(chain[-1], cur, want, tol=1e-8)
        except Exception as ex:
            run.violation("chain:n=%d:%s" % (n, "->".join(chain)), "raised:chain", dict(chain=chain, error="%s: %s" % (type(ex).__name__, ex)))
            continue
        run.evaluations += len(full)
        run.traces += len(full)
        for i in np.nonzero(~ok)[0][:2]:
            run.violation("chain:n=%d:%s:x=%s" % (n, "->".join(chain), list(full[i])), "chain.value",
                          dict(n=n, chain=chain, x=list(full[i]), got=cur[i].tolist(), spec=want[i].tolist()))
    run.sample(dict(kind="conversion chain", n=n, chain=chain, points=len(full)))
    return coords_of


def replay_pairs_across_models(run, n, coords_of, dpairs):
    """one metric: the two points of every pair of the DPAIRS table are supplied through their coordinates in two models
    (all ordered pairs of models); the reported distance is the exact one whatever the models, zero (never NaN) when
    both objects hold the same point"""
    H = hyp()
    models = ["projective", "klein", "hyperboloid", "poincare", "halfspace"]
    ps = [(tuple(u), tuple(v), w, cd) for (u, v, w, cd) in dpairs
          if all(m in coords_of.get(tuple(u), {}) for m in models) and all(m in coords_of.get(tuple(v), {}) for m in models)]
    if not ps:
        raise core.MachineryFailure("DPAIRS: no pair of the table has coordinates in the conversion LTS (n=%d)" % n)
    want = np.array([w[0] / w[1] for (_, _, w, _) in ps])
    same = np.array([u == v for (u, v, _, _) in ps])
    # arccosh is square-root conditioned at 1: rounding of size eps * cond (spec: cond = sum of (x1/s)^2 of the two points)
    # in cosh d is sqrt(2 eps cond) in d
    zero_tol = np.maximum(1e-7, np.sqrt(16 * 2.3e-16 * np.array([cd[0] / cd[1] for (_, _, _, cd) in ps])))
    key = "across:n=%d" % n
    for m1 in models:
        A0 = np.array([coords_of[u][m1] for (u, _, _, _) in ps])
        for m2 in models:
            B0 = np.array([coords_of[v][m2] for (_, v, _, _) in ps])
            run.case(key=(key, m1, m2), action="distance_across_models")
            a, b = A0.copy(), B0.copy()
            try:
                with np.errstate(all="ignore"):
                    d = np.asarray(H.Point(a, model=m1).distance(H.Point(b, model=m2)))
            except Exception as ex:
                run.violation("%s:%s,%s:raise" % (key, m1, m2), "raised:distance", dict(n=n, models=[m1, m2], error="%s: %s" % (type(ex).__name__, ex)))
                continue
            run.evaluations += len(ps)
            run.traces += len(ps)
            fin = np.isfinite(d)
            checks = (("distance.finite_not_nan", ~fin),
                      ("distance.nonnegative", fin & (d < 0)),
                      ("distance.zero_for_equal_points", fin & same & (d > zero_tol)),
                      ("distance.value", fin & (np.abs(np.cosh(d) - want) > 1e-9 * want)))
            for clause, mask in checks:
                for i in np.nonzero(mask)[0][:2]:
                    u, v, _, _ = ps[i]
                    run.violation("%s:%s,%s:%s:x=%s:y=%s" % (key, m1, m2, clause, list(u), list(v)), clause,
                                  dict(n=n, x=list(u), y=list(v), models=[m1, m2], given=[A0[i].tolist(), B0[i].tolist()],
                                       lib_distance=repr(float(d[i])), spec_cosh=float(want[i])))
            if not (np.array_equal(a, A0) and np.array_equal(b, B0)):
                run.violation("%s:%s,%s:input" % (key, m1, m2), "build.caller_array_unchanged", dict(n=n, models=[m1, m2]))
    run.nontrivial_count += int((~same).sum())
    run.actions["distance across models"] = run.actions.get("distance across models", 0) + 25 * len(ps)
    u, v, w, _ = ps[len(ps) // 3]
    run.sample(dict(kind="distance across models", n=n, x=list(u), y=list(v), cosh=w, models="all 25 ordered pairs"))


# ------------------------------------------------------------------------------------------
# query histories on one live object (HypPoints.tla, HInit / HNext)
# ------------------------------------------------------------------------------------------
def replay_histories(run, n, hist, rng):
    H = hyp()
    pts, groups = {}, {}
    for e in hist:
        if e["k"] == "point":
            pts[(tuple(e["x"]), e["chart"])] = e
        else:
            groups.setdefault((e["chart"], tuple(e["qs"])), []).append((tuple(e["x"]), e.get("at")))
    if not groups:
        raise core.MachineryFailure("HypPoints.tla (history machine) emitted no history")
    origin = H.Point.get_origin(n)

    def value(q, out):
        """projection of what a query handed out (read again at every later step)"""
        if q == "origin_to":
            return np.asarray((out @ origin).proj_data, float)
        return np.asarray(out, float)

    def execute(xs, chart, qs, unit, ats):
        """returns None or (clause, step, detail); ats[i][step] = the point object i holds after that step (spec)"""
        def table(es):
            ideal = np.array([e["ideal"] for e in es])
            return dict(es=es, c=np.array([rat(e["c"]) for e in es]), tols=np.where(ideal, 2e-7, TOL),
                        zero_tol=np.maximum(1e-7, np.sqrt(32 * 2.3e-16 * np.array([e["cond"][0] / e["cond"][1] for e in es]))))
        cur = table([pts[(x, chart)] for x in xs])
        given = cur["c"][0].copy() if unit else cur["c"].copy()       # the caller's array, handed over as it is
        obj = H.Point(given, model=chart)
        held, arrays = [], [(given, cur["c"], chart)]
        for step, q in enumerate(qs):
            if q.startswith("set:"):
                # the live object is moved through the setter of a model (HypPoints.tla, Assign)
                chart = q[4:]
                cur = table([pts[(tuple(a[step]), chart)] for a in ats])
                given = cur["c"][0].copy() if unit else cur["c"].copy()
                arrays.append((given, cur["c"], chart))
                obj.coords(chart, given)
                continue
            if q in ("projective", "klein", "hyperboloid", "poincare", "halfspace"):
                out = obj.coords(q)
            elif q == "dist_origin":
                out = obj.distance(origin)
            elif q == "dist_rebuilt":
                out = obj.distance(H.Point(given, model=chart))
            else:
                out = obj.origin_to()
            held.append((q, out, cur, step))
            # everything handed out so far, and the caller's own arrays, against the spec's values
            for (qj, oj, tj, j) in held:
                es = tj["es"]
                want = np.array([rat(e["vals"][qj]) for e in es])
                got = value(qj, oj)
                got = got.reshape(len(es), -1) if got.size == want.size else got
                if qj in ("dist_origin", "dist_rebuilt"):
                    dd = got.reshape(-1)
                    ok = np.isfinite(dd) & (dd >= 0) & (np.abs(np.cosh(dd) - want[:, 0]) <= 1e-9 * want[:, 0])
                    if qj == "dist_rebuilt":
                        ok &= dd <= tj["zero_tol"]
                elif qj == "origin_to":
                    ok = got.shape == want.shape and proj_equal(got, want, 1e-8)
                else:
                    ok = coords_equal(qj, got, want, tj["tols"]) if got.shape == want.shape else np.zeros(len(es), bool)
                ok = np.atleast_1d(ok)
                if not ok.all():
                    i = int(np.nonzero(~ok)[0][0])
                    clause = "history.query_value" if j == step else "history.handed_out_value_changed_later"
                    return (clause, step, dict(x=list(es[i]["x"]), query=qj, asked_at_step=j, now_at_step=step, value_now=np.asarray(got)[i].tolist() if np.ndim(got) else repr(got),
                                               spec=want[i].tolist(), note="distances: value is d, spec is cosh d" if qj.startswith("dist") else ""))
            for (arr, spec_arr, _) in arrays:
                if not np.array_equal(np.asarray(arr).reshape(-1, spec_arr.shape[1]), spec_arr[:1] if unit else spec_arr):
                    return ("build.caller_array_unchanged", step, dict(x=list(xs[0]), given=spec_arr[0].tolist(), array_now=np.asarray(arr).reshape(-1, spec_arr.shape[1])[0].tolist()))
        # the caller's coordinates still build the same point
        es = cur["es"][:1] if unit else cur["es"]
        k = np.asarray(H.Point(given, model=chart).coords("klein"), float).reshape(len(es), -1)
        want = np.array([rat(e["vals"]["klein"]) for e in es])
        ok = coords_equal("klein", k, want, cur["tols"][:len(es)])
        if not ok.all():
            i = int(np.nonzero(~ok)[0][0])
            return ("build.same_array_same_point", len(qs), dict(x=list(es[i]["x"]), got_klein=k[i].tolist(), spec_klein=want[i].tolist()))
        return None

    for (chart, qs), xs in sorted(groups.items()):
        xs = sorted(xs, key=lambda t: t[0])
        runs = [(xs, False)] + [([x], True) for x in rng.sample(xs, min(2, len(xs)))]
        for sub_at, unit in runs:
            sub, ats = [t[0] for t in sub_at], [t[1] for t in sub_at]
            key = "history:n=%d:build=%s:%s:%s" % (n, chart, ",".join(qs), "unit:x=%s" % (list(sub[0]),) if unit else "array")
            run.case(key=key, action="history")
            try:
                with np.errstate(all="ignore"):
                    bad = execute(sub, chart, qs, unit, ats)
            except Exception as ex:
                bad = ("raised:history", -1, dict(error="%s: %s" % (type(ex).__name__, ex)))
            run.evaluations += len(sub) * len(qs)
            if bad:
                run.violation(key, bad[0], dict(n=n, built_from=chart, queries=list(qs), step=bad[1], **bad[2]))
        run.traces += len(xs)
    run.actions["query history"] = run.actions.get("query history", 0) + sum(len(v) for v in groups.values())
    (chart, qs), xs = sorted(groups.items())[len(groups) // 2]
    run.sample(dict(kind="query history", n=n, built_from=chart, queries=list(qs), points=len(xs)))


def closed_forms(H, P, Q):
    """each model's own closed-form metric evaluated on the LIBRARY's coordinates -> cosh d"""
    out = {}
    p, q = np.asarray(P.coords("poincare")), np.asarray(Q.coords("poincare"))
    out["poincare"] = 1 + 2 * ((p - q) ** 2).sum(-1) / ((1 - (p ** 2).sum(-1)) * (1 - (q ** 2).sum(-1)))
    k, l = np.asarray(P.coords("klein")), np.asarray(Q.coords("klein"))
    out["klein"] = np.sqrt((1 - (k * l).sum(-1)) ** 2 / ((1 - (k ** 2).sum(-1)) * (1 - (l ** 2).sum(-1))))
    a, b = np.asarray(P.coords("halfspace")), np.asarray(Q.coords("halfspace"))
    out["halfspace"] = 1 + ((a - b) ** 2).sum(-1) / (2 * a[..., -1] * b[..., -1])
    g, h = np.asarray(P.coords("hyperboloid")), np.asarray(Q.coords("hyperboloid"))
    out["hyperboloid"] = np.abs((g * h).sum(-1) - 2 * g[..., 0] * h[..., 0])
    return out


def replay_metric(run, n, B, rng):
    H = hyp()
    c = core.cfg(constants=dict(N=n, B=B, Triples=False, SquareOnly=False),
                 invariants=["ReversedCauchySchwarz", "Symmetric", "TimeOrientation", "ModelsAgree", "KleinAgrees", "ScaleInvariant", "EmitPair"])
    r = run.tlc("hyp/HypMetric.tla", c, name="HypMetric_pairs_n%d" % n, workers=min(8, core.NCPU), emit_prefix="PAIR ")
    es = r.emits
    reps = None
    for line in r.stdout.splitlines():
        if line.startswith('"REPS '):
            reps = json.loads(json.loads(line)[5:])
    if reps is None:
        raise core.MachineryFailure("no REPS table printed by HypMetric.tla")
    X = np.array([e["x"] for e in es], dtype=float)
    Y = np.array([e["y"] for e in es], dtype=float)
    want = np.sqrt(np.array([e["coshsq"][0] / e["coshsq"][1] for e in es]))
    same = np.array([e["x"] == e["y"] for e in es])
    key = "metric:n=%d" % n
    try:
        P, Q = H.Point(X.copy()), H.Point(Y.copy())
        with np.errstate(all="ignore"):
            d = np.asarray(P.distance(Q))
            d_rev = np.asarray(H.Point(Y.copy()).distance(H.Point(X.copy())))
    except Exception as ex:
        run.violation(key + ":raise", "raised:distance", dict(n=n, error="%s: %s" % (type(ex).__name__, ex)))
        return
    run.evaluations += len(es)
    run.traces += len(es)
    run.nontrivial_count += int((~same).sum())
    run.actions["distance"] = run.actions.get("distance", 0) + len(es)

    def report(mask, clause, extra=None):
        for i in np.nonzero(mask)[0][:3]:
            run.violation("%s:%s:x=%s:y=%s" % (key, clause, es[i]["x"], es[i]["y"]), clause,
                          dict(n=n, x=es[i]["x"], y=es[i]["y"], lib_distance=float(d[i]) if np.isfinite(d[i]) else repr(d[i]),
                               spec_cosh=float(want[i]), **(extra(i) if extra else {})))
    if d.shape != (len(es),):
        run.violation(key + ":shape", "distance.shape", dict(got=d.shape, want=len(es)))
        return
    report(~np.isfinite(d), "distance.finite_not_nan")
    fin = np.isfinite(d)
    report(fin & (d < 0), "distance.nonnegative")
    report(fin & same & (d > 1e-7), "distance.zero_for_equal_points")
    report(fin & (np.abs(np.cosh(d) - want) > 1e-9 * want), "distance.value")
    report(fin & np.isfinite(d_rev) & (np.abs(d - d_rev) > 1e-9 * (1 + d)), "distance.symmetric")
    # the same pairs through other representatives of the two projective classes (spec: RepScales / RepPatterns); the
    # caller's arrays are handed over as they are and must not be written
    for (i1, i2) in sorted(map(tuple, reps["patterns"])):
        s1, s2 = reps["scales"][i1 - 1], reps["scales"][i2 - 1]
        XS, YS = X * (s1[0] / s1[1]), Y * (s2[0] / s2[1])
        xs, ys = XS.copy(), YS.copy()
        try:
            with np.errstate(all="ignore"):
                ds = np.asarray(H.Point(xs).distance(H.Point(ys)))
        except Exception as ex:
            run.violation(key + ":rep:%s,%s:raise" % (s1, s2), "raised:distance", dict(n=n, scales=[s1, s2], error="%s: %s" % (type(ex).__name__, ex)))
            continue
        run.evaluations += len(es)
        f2 = np.isfinite(ds)
        extra = lambda i, ds=ds, s1=s1, s2=s2: dict(scales=[s1, s2], lib_distance_rescaled=repr(float(ds[i])))
        report(~f2, "distance.representative.finite_not_nan", extra)
        report(f2 & same & (ds > 1e-7), "distance.representative.zero_for_equal_points", extra)
        report(f2 & (np.abs(np.cosh(ds) - want) > 1e-9 * want), "distance.representative.value", extra)
        if not (np.array_equal(xs, XS) and np.array_equal(ys, YS)):
            run.violation(key + ":rep:%s,%s:input" % (s1, s2), "build.caller_array_unchanged", dict(n=n, scales=[s1, s2]))
    run.actions["distance (representatives)"] = run.actions.get("distance (representatives)", 0) + len(es) * len(reps["patterns"])
    # closed forms on the library's own coordinates
    try:
        with np.errstate(all="ignore"):
            forms = closed_forms(H, H.Point(X.copy()), H.Point(Y.copy()))
        for m, val in forms.items():
            bad = fin & (~np.isfinite(val) | (np.abs(val - np.cosh(d)) > 1e-8 * np.cosh(d)))
            report(bad, "closed_form.%s" % m, lambda i, val=val: dict(closed_form_cosh=float(val[i])))
    except Exception as ex:
        run.violation(key + ":closed:raise", "raised:closed_form", dict(n=n, error="%s: %s" % (type(ex).__name__, ex)))
    # unit objects
    for i in rng.sample(range(len(es)), min(len(es), 40)):
        try:
            with np.errstate(all="ignore"):
                du = float(H.Point(X[i].copy()).distance(H.Point(Y[i].copy())))
            ok = np.isfinite(du) and abs(np.cosh(du) - want[i]) <= 1e-9 * want[i] and (not same[i] or du <= 1e-7)
        except Exception as ex:
            ok, du = False, "%s: %s" % (type(ex).__name__, ex)
        run.evaluations += 1
        if not ok:
            run.violation("%s:unit:x=%s:y=%s" % (key, es[i]["x"], es[i]["y"]), "distance.unit", dict(x=es[i]["x"], y=es[i]["y"], got=repr(du), spec_cosh=float(want[i])))
    # triangle inequality on the library's values (points of this universe)
    pts = sorted({tuple(e["x"]) for e in es})
    trip = [rng.sample(pts, 3) for _ in range(3000 if run.tier == "quick" else 30000)] if len(pts) >= 3 else []
    if trip:
        A = np.array([t[0] for t in trip], float)
        Bm = np.array([t[1] for t in trip], float)
        C = np.array([t[2] for t in trip], float)
        with np.errstate(all="ignore"):
            dab = np.asarray(H.Point(A.copy()).distance(H.Point(Bm.copy())))
            dbc = np.asarray(H.Point(Bm.copy()).distance(H.Point(C.copy())))
            dac = np.asarray(H.Point(A.copy()).distance(H.Point(C.copy())))
        bad = ~(dac <= dab + dbc + 1e-7)
        run.evaluations += len(trip)
        for i in np.nonzero(bad)[0][:3]:
            run.violation("%s:triangle:%s" % (key, trip[i]), "distance.triangle", dict(points=[list(t) for t in trip[i]], d=[float(dab[i]), float(dbc[i]), float(dac[i])]))
    if es:
        e = es[len(es) // 3]
        run.sample(dict(kind="distance pair", n=n, x=e["x"], y=e["y"], coshsq=e["coshsq"]))


def model_triples(run, n, B):
    c = core.cfg(constants=dict(N=n, B=B, Triples=True, SquareOnly=False), invariants=["Triangle"])
    run.tlc("hyp/HypMetric.tla", c, name="HypMetric_triples_n%d" % n, workers=core.NCPU)


def run(run, replay=None):
    quick = run.tier == "quick"
    rng = random.Random(run.seed)
    run.rule = ("conversion cases: one per emitted LTS transition (point x ordered pair of models), replayed as composite arrays "
                "of 3 shapes and as unit objects, each built twice from one caller-owned array; query histories: one per emitted "
                "(point, model built from, query sequence), executed on one live object as arrays and unit objects; metric cases: "
                "one per emitted ordered pair of points, through 7 representative patterns, and one per (pair of the DPAIRS table, "
                "ordered pair of models); distinct_nontrivial = conversion transitions + histories + pairs of distinct points")
    run.assumptions += [
        "points: primitive integer vectors with bounded entries; conversions on the sub-universe where -<x,x> is a perfect square or 0",
        "half-space point at infinity and hyperboloid coordinates of ideal points are outside the domain",
        "tolerance 1e-9 relative (1e-8 after chains of 4 conversions); sheet of hyperboloid coordinates not observed",
        "far points (Klein radius up to 1 - 1.3e-9, Poincare radius 0.99995): tolerance scaled by the exact conditioning cosh^2 d(x, origin) "
        "when the point is supplied in ball / half-space coordinates; 'zero distance' is d <= max(1e-7, sqrt(32 eps cond))",
        "query histories of length 2 (3 in the thorough tier) over {coords(m), distance to origin, distance to a rebuilt copy, origin_to}",
        "projective representatives: factors 1, -1, 3, -1/2, 7/10, 1/20000",
    ]
    conv = {1: 13, 2: 9, 3: 5, 4: 3} if quick else {1: 25, 2: 13, 3: 7, 4: 5, 5: 3}
    bpair = {1: 13, 2: 9, 3: 5, 4: 3} if quick else {1: 25, 2: 13, 3: 5, 4: 3, 5: 2}
    hist = {1: (13, 2), 2: (5, 2), 3: (2, 2), 4: (2, 2)} if quick else {1: (25, 3), 2: (5, 3), 3: (3, 3), 4: (3, 2), 5: (2, 2)}
    for n, B in conv.items():
        emits, dpairs, hs = conversion_lts(run, n, B, bpair[n], hist[n][0], hist[n][1])
        coords_of = replay_conversions(run, n, emits, rng)
        replay_pairs_across_models(run, n, coords_of, dpairs)
        replay_histories(run, n, hs, rng)
    met = {1: 6, 2: 4, 3: 2} if quick else {1: 12, 2: 6, 3: 3, 4: 2}
    for n, B in met.items():
        replay_metric(run, n, B, rng)
    for n, B in ({2: 4}.items() if quick else {2: 6, 3: 3}.items()):
        model_triples(run, n, B)
