"""C04 - a composite object behaves exactly like an array of its unit objects.

spec/comp/Composite.tla is the index algebra of composite objects: one TLC state per pair of
shapes (object shape, transformation shape) of rank 0..3 with dimensions in {1,2,3}; TLC checks the
theorems relating Bcast / Elementwise / Pairwise / PairwiseReversed / Flatten / Reshape / Index /
Iterate / Stack / SetItem on every state and prints, per state, for every index of the result
which unit of the object and which unit of the transformation it is made of.
spec/comp/CompUnits.tla gives every unit an exact integer payload (and checks domain, form
preservation, equivariance of derived data and distinguishability).

Conformance (spec -> code): for every class of objects (unit rank 1 and 2, auxiliary rank 2 and 3),
dimension 2 and 3, every (sx, st, mode) the harness builds X and T from the payload tables, calls
T.apply(X, broadcast=mode) / T @ X and requires shape, class, and at every index the unit named by
the spec: projectively equal to the exact image computed by TLC and numerically equal to the
library's own result on the two unit objects (proj_data and aux_data).  The same per-index loop for
the vectorised queries and for flatten / reshape / index / slice / iterate / stack.
"""
import itertools
import multiprocessing as mp
import random
import warnings
import zlib

import numpy as np

from .. import core
from .. import comp_common as cc
from .. import comp_trace

TABS = None
MODES = ("elementwise", "pairwise", "pairwise_reversed")
KEYOF = {"elementwise": "ew", "pairwise": "pw", "pairwise_reversed": "pr"}


def size(s):
    n = 1
    for d in s:
        n *= d
    return n


def rng_for(seed, *parts):
    return random.Random(zlib.crc32(repr((seed,) + parts).encode()))


# ----------------------------------------------------------------------------------------
# applying composite transformations
# ----------------------------------------------------------------------------------------
_UNIT_APPLY = {}


def unit_apply_table(cls, dim):
    """library results on unit objects: table[k-1][j-1] = (proj rows, aux rows or None)"""
    key = (cls, dim)
    if key in _UNIT_APPLY:
        return _UNIT_APPLY[key]
    K, J = TABS.K, cc.letters(cls)
    P, A = [], []
    for k in range(1, K + 1):
        x, _ = cc.build(TABS, cls, dim, (), [k])
        rowp, rowa = [], []
        for j in range(1, J + 1):
            t = cc.build_trans(TABS, cls, dim, (), [j])
            r = t.apply(x)
            rowp.append(np.array(r.proj_data, dtype=float).reshape(TABS.units[dim][cls][(1, ())]["prim"].shape))
            rowa.append(None if r.aux_data is None else np.array(r.aux_data, dtype=float))
        P.append(rowp)
        A.append(rowa)
    P = np.array(P)
    A = np.array(A) if cls in cc.AUX_RANK else None
    _UNIT_APPLY[key] = (P, A)
    return P, A


def apply_case(cls, dim, sx, st, mode, variant, seed):
    """Returns None or (clause, detail)."""
    rec = TABS.apply[(sx, st)]
    rng = rng_for(seed, cls, dim, sx, st)
    K, J = TABS.K, cc.letters(cls)
    xids = [rng.randrange(K) + 1 for _ in range(size(sx))]
    tids = [rng.randrange(J) + 1 for _ in range(size(st))]
    X, (data0,) = cc.build(TABS, cls, dim, sx, xids)
    T = cc.build_trans(TABS, cls, dim, st, tids)
    tdata0 = T.proj_data.copy()
    arg = X.proj_data if variant == "ndarray" else X
    defined = mode != "elementwise" or rec["ok"]
    try:
        with warnings.catch_warnings():
            warnings.simplefilter("ignore")
            with np.errstate(all="ignore"):
                if variant == "matmul":
                    R = T @ arg
                else:
                    R = T.apply(arg, broadcast=mode)
    except Exception as e:
        if not defined:
            return None
        return ("apply.raised", "%s: %s" % (type(e).__name__, e))
    if not defined:
        return ("elementwise.defined_iff_broadcastable",
                "shapes %r and %r do not broadcast, yet apply returned an object of shape %r" % (sx, st, getattr(R, "shape", None)))
    exp = rec[KEYOF[mode]]
    eshape = tuple(exp["shape"])
    ids = [(xids[c[0] - 1], (tids[c[1] - 1],)) for c in exp["cell"]]
    if variant == "ndarray":
        H, P = cc._mods()
        want = P.ProjectiveObject if cls in cc.PROJ else H.HyperbolicObject
        if type(R) is not want:
            return ("class", "apply(ndarray) returned %s, expected %s" % (type(R).__name__, want.__name__))
        if tuple(R.proj_data.shape) != eshape + cc.unit_shape(TABS, cls, dim):
            return ("shape", "apply(ndarray).proj_data.shape = %r, spec %r + unit" % (tuple(R.proj_data.shape), eshape))
        E = cc.prim_rows(TABS, cls, dim, ids)
        dev = cc.rows_dev(False, np.asarray(R.proj_data).reshape(E.shape), E)
        if not (dev <= cc.TOL).all():
            p = int(np.argmax(~(dev <= cc.TOL)))
            return ("primary_units", "apply(ndarray): flat position %d is not unit %s" % (p, cc.ids_str([ids[p]])[0]))
        return None
    bad = cc.check_object(TABS, R, cls, dim, eshape, ids, recompute=False)
    if bad:
        return bad
    # the library's own result on the two unit objects named by the spec
    UP, UA = unit_apply_table(cls, dim)
    kx = np.array([i[0] - 1 for i in ids])
    jt = np.array([i[1][0] - 1 for i in ids])
    E = UP[kx, jt]
    A = np.asarray(R.proj_data).reshape(E.shape)
    scale = max(1.0, float(np.abs(E).max()))
    if not np.allclose(A, E, rtol=1e-9, atol=1e-9 * scale):
        p = int(np.argmax(np.abs(A - E).reshape(len(ids), -1).max(-1)))
        return ("proj_data_vs_unit_result", "entry %d differs from T[j].apply(X[i]) on the unit objects" % p)
    if UA is not None:
        E = UA[kx, jt]
        A = np.asarray(R.aux_data).reshape(E.shape)
        scale = max(1.0, float(np.abs(E).max()))
        if not np.allclose(A, E, rtol=1e-9, atol=1e-9 * scale):
            p = int(np.argmax(np.abs(A - E).reshape(len(ids), -1).max(-1)))
            return ("aux_data_vs_unit_result", "aux entry %d differs from the unit result" % p)
    # arguments are not modified
    if not np.array_equal(X.proj_data, data0) or not np.array_equal(T.proj_data, tdata0):
        return ("apply.modifies_arguments", "X or T changed by apply")
    return None


def apply_chunk(args):
    cases, seed = args
    n = 0
    viol = []
    sample = None
    per = {}
    for (cls, dim, sx, st, mode, variant) in cases:
        n += 1
        per[mode] = per.get(mode, 0) + 1
        try:
            bad = apply_case(cls, dim, sx, st, mode, variant, seed)
        except core.MachineryFailure:
            raise
        except Exception as e:       # harness error on a library object: report, never exit 2 for library faults
            bad = ("apply.raised", "%s: %s" % (type(e).__name__, e))
        if bad and len(viol) < 10:
            viol.append((dict(cls=cls, dim=dim, sx=list(sx), st=list(st), mode=mode, variant=variant), bad))
        if sample is None and len(sx) == 2 and len(st) == 1 and mode == "pairwise" and cls == "HPolygon":
            rec = TABS.apply[(sx, st)]
            sample = dict(kind="apply case", cls=cls, dim=dim, sx=list(sx), st=list(st), mode=mode,
                          spec_shape=rec["pw"]["shape"], spec_cell_first=rec["pw"]["cell"][:6])
    return n, viol, sample, per


# ----------------------------------------------------------------------------------------
# flatten / reshape / index / slice / iterate / stack
# ----------------------------------------------------------------------------------------
def shape_ops_case(cls, dim, sx, seed):
    rec = TABS.unary[sx]
    rng = rng_for(seed, "shape", cls, dim, sx)
    K = TABS.K
    n = size(sx)
    ids = [rng.randrange(K) + 1 for _ in range(n)]
    ids2 = [rng.randrange(K) + 1 for _ in range(n)]
    both = ids + ids2
    cnt = 0

    def sel(cell):
        return [both[c - 1] for c in cell]

    def chk(what, obj, shape, cell):
        bad = cc.check_object(TABS, obj, cls, dim, tuple(shape), sel(cell), recompute=False)
        if bad:
            return (what + ":" + bad[0], bad[1])

    X, _ = cc.build(TABS, cls, dim, sx, ids)
    try:
        with warnings.catch_warnings():
            warnings.simplefilter("ignore")
            with np.errstate(all="ignore"):
                bad = chk("construct", X, sx, range(1, n + 1))
                if bad:
                    return cnt, bad
                cnt += 1
                bad = chk("flatten_to_unit", X.flatten_to_unit(), rec["flat"]["shape"], rec["flat"]["cell"])
                if bad:
                    return cnt, bad
                for s in rec["reshapes"]:
                    cnt += 1
                    bad = chk("reshape%r" % (tuple(s),), X.reshape(tuple(s)), s, range(1, n + 1))
                    if bad:
                        return cnt, bad
                cnt += 1
                bad = chk("reshape(flat)", X.reshape((n,)), (n,), range(1, n + 1))
                if bad:
                    return cnt, bad
                if len(sx) > 0:
                    if len(X) != sx[0]:
                        return cnt, ("len", "len(X) = %r, spec %r" % (len(X), sx[0]))
                    items = list(X)
                    if len(items) != len(rec["items"]):
                        return cnt, ("iterate.count", "%d items, spec %d" % (len(items), len(rec["items"])))
                    for i, (it, e) in enumerate(zip(items, rec["items"])):
                        cnt += 2
                        bad = chk("iterate[%d]" % i, it, e["shape"], e["cell"]) or chk("index[%d]" % i, X[i], e["shape"], e["cell"])
                        if bad:
                            return cnt, bad
                    e = rec["items"][-1]
                    bad = chk("index[-1]", X[-1], e["shape"], e["cell"])
                    if bad:
                        return cnt, bad
                    cnt += 1
                    bad = chk("stack(iterate)", cc.lib_class(cls)(items), sx, range(1, n + 1))
                    if bad:
                        return cnt, bad
                    # the same stack from a tuple and from one-shot iterables of the unit objects
                    for how, make in (("tuple", lambda: tuple(items)), ("iterator", lambda: iter(items)),
                                      ("generator", lambda: (it for it in items)), ("map", lambda: map(lambda it: it, items))):
                        cnt += 1
                        bad = chk("stack(%s)" % how, cc.lib_class(cls)(make()), sx, range(1, n + 1))
                        if bad:
                            return cnt, bad
                    for (a, b, e) in rec["slices"]:
                        cnt += 1
                        bad = chk("slice[%d:%d]" % (a, b), X[a:b], e["shape"], e["cell"])
                        if bad:
                            return cnt, bad
                    for (ix, cell) in rec["tuples"]:
                        cnt += 1
                        bad = chk("index%r" % (tuple(ix),), X[tuple(ix)], (), cell)
                        if bad:
                            return cnt, bad
                else:
                    try:
                        len(X)
                        return cnt, ("len.rank0", "len() of a unit object did not raise TypeError")
                    except TypeError:
                        pass
                # combine: flatten everything and concatenate (units and their order, primary and derived data)
                for (s2, exp) in rec["combines"]:
                    n2 = size(s2)
                    idsY = [rng.randrange(K) + 1 for _ in range(n2)]
                    Y, _ = cc.build(TABS, cls, dim, tuple(s2), idsY)
                    cnt += 1
                    allids = ids + idsY
                    bad = cc.check_object(TABS, cc.lib_class(cls).combine([X, Y]), cls, dim, tuple(exp["shape"]),
                                          [allids[c - 1] for c in exp["cell"]], recompute=False)
                    if bad:
                        return cnt, ("combine([X, Y%r]):" % (tuple(s2),) + bad[0], bad[1])
                # lists of one and of three operands
                C_ = cc.lib_class(cls)
                cnt += 1
                bad = chk("combine([X])", C_.combine([X]), rec["combine1"]["shape"], rec["combine1"]["cell"])
                if bad:
                    return cnt, bad
                ids3 = [rng.randrange(K) + 1 for _ in range(3)]
                Y3, _ = cc.build(TABS, cls, dim, (2,), ids3[:2])
                Z3, _ = cc.build(TABS, cls, dim, (), ids3[2:])
                all3 = ids + ids3
                cnt += 1
                bad = cc.check_object(TABS, C_.combine([X, Y3, Z3]), cls, dim, tuple(rec["combine3"]["shape"]),
                                      [all3[c - 1] for c in rec["combine3"]["cell"]], recompute=False)
                if bad:
                    return cnt, ("combine([X, Y, Z]):" + bad[0], bad[1])
                X2, _ = cc.build(TABS, cls, dim, sx, ids2)
                cnt += 1
                st2 = rec["stack2"]
                bad = chk("stack([X, Y])", cc.lib_class(cls)([X, X2]), st2["shape"], st2["cell"])
                if bad:
                    return cnt, bad
                # the operand is untouched by all of this
                bad = chk("operand_after_shape_ops", X, sx, range(1, n + 1))
                if bad:
                    return cnt, bad
    except Exception as e:
        return cnt, ("shape_ops.raised", "%s: %s" % (type(e).__name__, e))
    return cnt, None


def shape_chunk(args):
    cases, seed = args
    n = 0
    viol = []
    for (cls, dim, sx) in cases:
        try:
            k, bad = shape_ops_case(cls, dim, sx, seed)
        except core.MachineryFailure:
            raise
        except Exception as e:      # the library raised while the operand was being constructed
            k, bad = 1, ("shape_ops.raised", "%s: %s" % (type(e).__name__, e))
        n += k
        if bad and len(viol) < 10:
            viol.append((dict(cls=cls, dim=dim, sx=list(sx)), bad))
    return n, viol


# ----------------------------------------------------------------------------------------
# vectorised queries: result[idx] = op(unit at idx)
# ----------------------------------------------------------------------------------------
def _ops():
    """name -> (class, arity, other class, function(obj[, other]) -> dict part -> (kind, array))
    kinds: num (numbers), ang360 / ang2pi (angles), proj (rows are projective points)"""
    H, P = cc._mods()
    M = H.Model
    ops = {}

    def op(name, cls, arity=1, other=None, dims=(2, 3)):
        def deco(f):
            ops[name] = (cls, arity, other, f, dims)
            return f
        return deco

    for mname, m in (("projective", M.PROJECTIVE), ("klein", M.KLEIN), ("poincare", M.POINCARE),
                     ("hyperboloid", M.HYPERBOLOID), ("halfspace", M.HALFSPACE)):
        kind = "proj" if mname == "projective" else "num"
        ops["HPoint.coords(%s)" % mname] = ("HPoint", 1, None, (lambda x, m=m, kind=kind: {"coords": (kind, x.coords(m))}), (2, 3))

    @op("HPoint.distance", "HPoint", 2, "HPoint")
    def _(x, y):
        return {"distance": ("num", x.distance(y))}

    @op("HPoint.origin_to", "HPoint")
    def _(x):
        return {"isometry": ("num", x.origin_to().proj_data)}

    @op("HPoint.unit_tangent_towards", "HPoint", 2, "HPoint")
    def _(x, y):
        t = x.unit_tangent_towards(y)
        return {"tangent.proj_data": ("proj", t.proj_data), "tangent.aux_data": ("proj", t.aux_data)}

    @op("Segment(P, Q)", "HPoint", 2, "HPoint")
    def _(x, y):
        s = H.Segment(x, y)
        return {"segment.proj_data": ("num", s.proj_data), "segment.aux_data": ("num", s.aux_data)}

    @op("PointPair(P, Q)", "Point", 2, "Point")
    def _(x, y):
        s = P.PointPair(x, y)
        return {"pair.proj_data": ("num", s.proj_data)}

    @op("Point.affine_coords", "Point")
    def _(x):
        return {"affine": ("num", x.affine_coords(chart_index=0)), "in_chart": ("num", x.in_affine_chart(0))}

    @op("PointPair.endpoints", "PointPair")
    def _(x):
        a, b = x.get_end_pair()
        return {"get_endpoints": ("num", x.get_endpoints().proj_data), "end1": ("num", a.proj_data),
                "end2": ("num", b.proj_data), "affine": ("num", x.endpoint_affine_coords(0))}

    for tag, deg, m, kind in (("poincare,deg", True, M.POINCARE, "ang360"), ("halfspace,rad", False, M.HALFSPACE, "ang2pi")):
        for cname in ("Geodesic", "Segment"):
            def f(x, deg=deg, m=m, kind=kind):
                c, r, th = x.circle_parameters(degrees=deg, model=m)
                return {"center": ("num", c), "radius": ("num", r), "thetas": (kind, th)}
            ops["%s.circle_parameters(%s)" % (cname, tag)] = (cname, 1, None, f, (2,))

    @op("Geodesic.sphere_parameters", "Geodesic")
    def _(x):
        c, r = x.sphere_parameters(M.POINCARE)
        return {"center": ("num", c), "radius": ("num", r), "ideal_basis_coords": ("num", x.ideal_basis_coords(M.KLEIN)),
                "endpoint_coords": ("num", x.endpoint_coords(M.POINCARE))}

    @op("Segment.coords", "Segment")
    def _(x):
        a, b = x.get_end_pair(as_points=True)
        return {"endpoint_coords": ("num", x.endpoint_coords(M.KLEIN)),
                "ideal_endpoint_coords": ("num", x.ideal_endpoint_coords(M.KLEIN)),
                "geodesic": ("num", x.geodesic().proj_data), "end1": ("num", a.proj_data), "end2": ("num", b.proj_data)}

    @op("Tangent.origin_to", "Tangent")
    def _(x):
        return {"isometry": ("num", x.origin_to().proj_data)}

    @op("Tangent.isometry_to", "Tangent", 2, "Tangent")
    def _(x, y):
        return {"isometry": ("num", x.isometry_to(y).proj_data)}

    @op("Tangent.normalized", "Tangent")
    def _(x):
        t = x.normalized()
        return {"proj_data": ("num", t.proj_data), "aux_data": ("num", t.aux_data), "point": ("num", x.point),
                "vector": ("num", x.vector)}

    @op("Tangent.angle", "Tangent", 2, "Tangent")
    def _(x, y):
        return {"angle": ("num", x.angle(y))}

    @op("Tangent.point_along", "Tangent")
    def _(x):
        return {"point": ("num", x.point_along(0.75).proj_data)}

    @op("Polygon.parts", "Polygon")
    def _(x):
        return {"edges": ("num", x.get_edges().proj_data), "vertices": ("num", x.get_vertices().proj_data),
                "affine": ("num", x.affine_coords(chart_index=0)), "in_standard_chart": ("num", x.in_standard_chart())}

    @op("HPolygon.parts", "HPolygon")
    def _(x):
        e = x.get_edges()
        return {"edges.proj_data": ("num", e.proj_data), "edges.aux_data": ("num", e.aux_data),
                "vertices(poincare)": ("num", x.get_vertices().coords(M.POINCARE))}

    for tag, m in (("poincare", M.POINCARE), ("halfspace", M.HALFSPACE)):
        for cname in ("Horosphere", "HoroArc"):
            def f(x, m=m):
                c, r = H.Horosphere.sphere_parameters(x, m)
                return {"center": ("num", c), "radius": ("num", r), "center_coords": ("num", x.center_coords(m)),
                        "ref_coords": ("num", x.ref_coords(m))}
            ops["%s.sphere_parameters(%s)" % (cname, tag)] = (cname, 1, None, f, (2, 3))
    for tag, deg, m, kind in (("poincare,deg", True, M.POINCARE, "ang360"), ("halfspace,rad", False, M.HALFSPACE, "ang2pi")):
        def f(x, deg=deg, m=m, kind=kind):
            c, r, th = x.circle_parameters(model=m, degrees=deg)
            return {"center": ("num", c), "radius": ("num", r), "thetas": (kind, th), "endpoint_coords": ("num", x.endpoint_coords(m))}
        ops["HoroArc.circle_parameters(%s)" % tag] = ("HoroArc", 1, None, f, (2,))
    # boundary arcs are documented for the Poincare and Klein models
    for tag, deg, m, kind in (("poincare,deg", True, M.POINCARE, "ang360"), ("klein,rad", False, M.KLEIN, "ang2pi")):
        def g(x, deg=deg, m=m, kind=kind):
            a, b = x.get_end_pair(as_points=True)
            c, r, th = H.BoundaryArc(a, b).circle_parameters(model=m, degrees=deg)
            return {"center": ("num", c), "radius": ("num", r), "thetas": (kind, th)}
        ops["BoundaryArc(Geodesic ends).circle_parameters(%s)" % tag] = ("Geodesic", 1, None, g, (2,))

    for tag, m in (("poincare", M.POINCARE), ("halfspace", M.HALFSPACE)):
        def f(x, m=m):
            c, r = x.sphere_parameters(m)
            return {"center": ("num", c), "radius": ("num", r), "ideal_basis_coords": ("num", x.ideal_basis_coords(m)),
                    "ideal_basis": ("num", x.ideal_basis)}
        ops["Subspace.sphere_parameters(%s)" % tag] = ("Subspace", 1, None, f, (2, 3))

    @op("Subspace.reflection_across", "Subspace")
    def _(x):
        return {"reflection": ("num", x.reflection_across().proj_data),
                "spacelike_complement": ("proj", x.spacelike_complement().proj_data)}

    @op("Isometry.fixed_points", "Isometry")
    def _(x):
        return {"fixed_point_pair": ("proj", x.fixed_point_pair().proj_data), "fixed_point": ("proj", x.fixed_point().proj_data),
                "axis": ("proj", x.axis().proj_data)}

    @op("Isometry.inv", "Isometry")
    def _(x):
        return {"inv": ("num", x.inv().proj_data)}

    @op("Transformation.inv", "Transformation")
    def _(x):
        return {"inv": ("num", x.inv().proj_data)}

    return ops


def compare_part(kind, A, E):
    """A, E arrays of equal shape. Returns max deviation ok?"""
    A = np.asarray(A)
    E = np.asarray(E)
    if A.shape != E.shape:
        return "shape %r vs per-unit %r" % (A.shape, E.shape)
    if kind == "proj":
        d = cc.proj_dev(A.reshape(-1, A.shape[-1]), E.reshape(-1, E.shape[-1]))
        if not (d <= 1e-8).all():
            return "projective deviation %.3g" % float(np.max(np.where(np.isfinite(d), d, 1e300)))
        return None
    A = A.astype(complex) if np.iscomplexobj(A) else A.astype(float)
    E = E.astype(complex) if np.iscomplexobj(E) else E.astype(float)
    if kind in ("ang360", "ang2pi"):
        f = np.pi / 180 if kind == "ang360" else 1.0
        ok = np.isclose(np.cos(A * f), np.cos(E * f), rtol=0, atol=1e-9) & np.isclose(np.sin(A * f), np.sin(E * f), rtol=0, atol=1e-9)
        ok |= (np.isnan(A) & np.isnan(E))
    else:
        scale = 1.0
        fin = np.isfinite(E)
        if fin.any():
            scale = max(1.0, float(np.abs(E[fin]).max()))
        ok = np.isclose(A, E, rtol=1e-9, atol=1e-9 * scale, equal_nan=True)
    if not ok.all():
        i = np.argwhere(~ok)[0]
        return "value at %r: %r, per-unit %r" % (tuple(int(x) for x in i), A[tuple(i)].item(), E[tuple(i)].item())
    return None


_UNIT_OP = {}
OPS = None


def unit_result(name, dim, idx, idy=None, negx=False, negy=False):
    """the operation on the unit object(s); negx / negy: the unit is stored with the representative -x"""
    key = (name, dim, idx, idy, negx, negy)
    if key not in _UNIT_OP:
        cls, arity, other, f, _ = OPS[name]
        x, _d = cc.build(TABS, cls, dim, (), [idx], neg=(1,) if negx else ())
        if arity == 2:
            y, _d = cc.build(TABS, other, dim, (), [idy], neg=(1,) if negy else ())
            res = f(x, y)
        else:
            res = f(x)
        _UNIT_OP[key] = {k: (kind, np.array(v)) for k, (kind, v) in res.items()}
    return _UNIT_OP[key]


MIXED_SIGN_OPS = ("Tangent.origin_to", "Tangent.isometry_to", "Tangent.normalized", "Tangent.angle", "Tangent.point_along",
                  "HPoint.origin_to", "HPoint.distance", "HPoint.coords(hyperboloid)", "HPoint.coords(klein)")


def query_case(name, dim, sx, sy, seed, mixed=False):
    """mixed: some (not all, when there are several) units of the composites are stored with the representative -x;
    the unit object at such an index is the unit stored with -x as well"""
    cls, arity, other, f, _ = OPS[name]
    rng = rng_for(seed, "query", name, dim, sx, sy, mixed)
    K = TABS.K
    lo = K // 2 + 1 if arity == 2 else K
    xids = [rng.randrange(lo) + 1 for _ in range(size(sx))]

    def signs(n):
        if not mixed:
            return [False] * n
        sg = [rng.random() < 0.5 for _ in range(n)]
        if n > 1 and all(sg):
            sg[rng.randrange(n)] = False
        if not any(sg):
            sg[rng.randrange(n)] = True
        return sg
    xneg = signs(len(xids))
    X, (xdata,) = cc.build(TABS, cls, dim, sx, xids, neg=[p + 1 for p, b in enumerate(xneg) if b])
    xsnap = cc.snapshot(X)
    with warnings.catch_warnings():
        warnings.simplefilter("ignore")
        with np.errstate(all="ignore"):
            try:
                if arity == 2:
                    rec = TABS.apply[(sx, sy)]
                    # the two operands differ at every index (distance 0, zero tangents: other properties' business)
                    yids = [lo + 1 + rng.randrange(K - lo) for _ in range(size(sy))]
                    yneg = signs(len(yids))
                    Y, (ydata,) = cc.build(TABS, other, dim, sy, yids, neg=[p + 1 for p, b in enumerate(yneg) if b])
                    res = f(X, Y)
                    eshape = tuple(rec["ew"]["shape"])
                    pairs = [(xids[c[0] - 1], yids[c[1] - 1], xneg[c[0] - 1], yneg[c[1] - 1]) for c in rec["ew"]["cell"]]
                else:
                    res = f(X)
                    eshape = tuple(sx)
                    pairs = [(i, None, sg, False) for i, sg in zip(xids, xneg)]
            except Exception as e:
                # the call is outside its domain iff it also fails on one of the unit objects alone (a degenerate unit,
                # e.g. a plane through the point at infinity of the half-space model); otherwise the composite misbehaves
                try:
                    prs = ([(i, None, sg, False) for i, sg in zip(xids, xneg)] if arity == 1 else
                           [(xids[c[0] - 1], yids[c[1] - 1], xneg[c[0] - 1], yneg[c[1] - 1]) for c in TABS.apply[(sx, sy)]["ew"]["cell"]])
                    for (a, b, nx, ny) in prs:
                        unit_result(name, dim, a, b, nx, ny)
                except Exception:
                    return None
                return ("raised", "%s: %s" % (type(e).__name__, e))
            units = [unit_result(name, dim, a, b, nx, ny) for (a, b, nx, ny) in pairs]
    for part, (kind, arr) in res.items():
        arr = np.asarray(arr)
        u0 = units[0][part][1]
        if tuple(arr.shape) != eshape + tuple(u0.shape):
            return (part + ".shape", "%r, spec %r + per-unit %r" % (tuple(arr.shape), eshape, tuple(u0.shape)))
        E = np.stack([u[part][1] for u in units]).reshape(eshape + tuple(u0.shape))
        bad = compare_part(kind, arr, E)
        if bad:
            return (part + ".value", bad + "; X cell %s%s" % (xids, " stored as -x: %s" % (xneg,) if mixed else ""))
    # exact anchors computed by TLC
    if name == "HPoint.distance":
        g = TABS.gram[dim]
        d = np.asarray(res["distance"][1]).reshape(-1)
        want = np.array([abs(g[a - 1, b - 1, 0]) / np.sqrt(g[a - 1, b - 1, 1] * g[a - 1, b - 1, 2]) for (a, b, _nx, _ny) in pairs])
        far = want > 1 + 1e-9
        if not np.allclose(np.cosh(d[far]), want[far], rtol=1e-9, atol=0):
            return ("distance.exact", "cosh d differs from the exact value |<p,q>|/sqrt(<p,p><q,q>)")
    if name == "HPoint.coords(klein)":
        E = cc.prim_rows(TABS, cls, dim, xids)[:, 0, :]
        want = (E[:, 1:] / E[:, :1]).reshape(tuple(sx) + (dim,))
        if not np.allclose(res["coords"][1], want, rtol=1e-9, atol=1e-12):
            return ("klein.exact", "Klein coordinates differ from x_i / x_0 of the exact payload")
    if name == "Isometry.fixed_points":
        # laws on the library's output, with the exact integer matrix of the unit, for the units TLC marks as hyperbolic
        # (two real fixed ideal points; the matrix may be the negative representative): each returned point is fixed
        # (FixedBy) and the pair is ordered by descending eigenvalue MODULUS (documented: the first one, and
        # fixed_point(), has maximum modulus) - checked on the composite's entries and so, through the per-index
        # comparison above, on the unit results
        mats = cc.prim_rows(TABS, cls, dim, xids)
        fp = np.asarray(res["fixed_point_pair"][1]).reshape(len(xids), 2, -1)
        f1 = np.asarray(res["fixed_point"][1]).reshape(len(xids), -1)
        for i in range(len(xids)):
            if not TABS.units[dim][cls][(xids[i], ())]["lox"]:
                continue
            mods = []
            for v in (fp[i, 0], fp[i, 1], f1[i]):
                if not (np.isfinite(v).all() and np.abs(v).max() > 0):
                    return ("fixed_points.finite", "unit %d: non-finite fixed point" % xids[i])
                w = v @ mats[i]
                if cc.proj_dev(w[None], v[None])[0] > 1e-7:
                    return ("fixed_point_pair.FixedBy", "a returned point of unit %d is not fixed by the exact matrix" % xids[i])
                mods.append(float(np.linalg.norm(w) / np.linalg.norm(v)))
            if not (mods[0] > 1 + 1e-6 and mods[1] < 1 - 1e-6 and mods[2] > 1 + 1e-6):
                return ("fixed_points.DescendingModulus", "unit %d (exact matrix %s): eigenvalue moduli of fixed_point_pair()[0], [1], "
                        "fixed_point() are %.4g, %.4g, %.4g" % (xids[i], mats[i].astype(int).tolist(), mods[0], mods[1], mods[2]))
    # queries do not move the operand (C11 checks histories; this is the single-call version)
    m = cc.moved(xsnap, X, whole=TABS.whole[cls])
    if m:
        return ("operand_moved", m)
    return None


def polygon_from_points_case(dim, s, seed):
    """H.Polygon(points): the trailing composite axis of a composite Point becomes the vertex axis."""
    H, P = cc._mods()
    nv = TABS.units[dim]["HPolygon"][(1, ())]["prim"].shape[0]
    rng = rng_for(seed, "polyfrompts", dim, s)
    K = TABS.K
    full = tuple(s) + (nv,)
    ids = [rng.randrange(K) + 1 for _ in range(size(s))]
    for lib, cls in ((H, "HPolygon"), (P, "Polygon")):
        rows = cc.prim_rows(TABS, cls, dim, ids)
        pts = lib.Point(rows.reshape(full + (rows.shape[-1],)))
        if tuple(pts.shape) != full:
            return ("points.shape", "%r vs %r" % (tuple(pts.shape), full))
        try:
            with warnings.catch_warnings():
                warnings.simplefilter("ignore")
                with np.errstate(all="ignore"):
                    poly = lib.Polygon(pts)
        except Exception as e:
            return ("Polygon(points).raised", "%s: %s" % (type(e).__name__, e))
        bad = cc.check_object(TABS, poly, cls, dim, tuple(s), ids)
        if bad:
            return ("Polygon(points):" + bad[0], bad[1])
    return None


def sl2_case(dim, s, seed):
    """the vectorised SL(2) maps: an array of shape s of SL(2,Z) matrices maps, entry by entry, to
    what the map returns on the single matrix"""
    H, P = cc._mods()
    from geometry_tools import lie
    rng = rng_for(seed, "sl2", s)
    ids = [rng.randrange(len(TABS.sl2)) for _ in range(size(s))]
    arr = np.stack([TABS.sl2[i] for i in ids]).reshape(tuple(s) + (2, 2))
    maps = {"lie.sl2_to_so21": (lambda a: lie.sl2_to_so21(a)), "Isometry.from_sl2": (lambda a: H.Isometry.from_sl2(a).proj_data),
            "sl2_iso": (lambda a: H.sl2_iso(a).proj_data), "lie.sl2_irrep(4)": (lambda a: lie.sl2_irrep(a, 4))}
    for name, f in maps.items():
        try:
            R = np.asarray(f(arr.copy()))
            U = np.stack([np.asarray(f(TABS.sl2[i].copy())) for i in ids])
        except Exception as e:
            return (name + ".raised", "%s: %s" % (type(e).__name__, e))
        if tuple(R.shape) != tuple(s) + U.shape[1:]:
            return (name + ".shape", "%r, spec %r + per-unit %r" % (tuple(R.shape), tuple(s), U.shape[1:]))
        bad = compare_part("num", R, U.reshape(R.shape))
        if bad:
            return (name + ".value", bad)
    # the complex maps, on arrays of elements of SL(2, Z[i])
    cids = [rng.randrange(len(TABS.sl2c)) for _ in range(size(s))]
    carr = np.stack([TABS.sl2c[i] for i in cids]).reshape(tuple(s) + (2, 2))
    cmaps = {"lie.sl2c_to_so31": (lambda a: lie.sl2c_to_so31(a)), "lie.sl2c_herm_action": (lambda a: lie.sl2c_herm_action(a)),
             "lie.slc_to_slr": (lambda a: lie.slc_to_slr(a)), "lie.sl2_irrep(3) complex": (lambda a: lie.sl2_irrep(a, 3))}
    for name, f in cmaps.items():
        try:
            R = np.asarray(f(carr.copy()))
            U = np.stack([np.asarray(f(TABS.sl2c[i].copy())) for i in cids])
        except Exception as e:
            return (name + ".raised", "%s: %s" % (type(e).__name__, e))
        if tuple(R.shape) != tuple(s) + U.shape[1:]:
            return (name + ".shape", "%r, spec %r + per-unit %r" % (tuple(R.shape), tuple(s), U.shape[1:]))
        bad = compare_part("num", R, U.reshape(R.shape))
        if bad:
            return (name + ".value", bad)
    o = H.Isometry.from_sl2(arr)
    if tuple(o.shape) != tuple(s):
        return ("from_sl2.shape", "%r, spec %r" % (tuple(o.shape), tuple(s)))
    return None


def eigenvector_case(dim, s, seed):
    """Transformation.eigenvector on composites of transformations with a REPEATED eigenvalue (exact integer
    matrices of CompUnits.tla): entry i is what the unit transformation returns, and is an eigenvector"""
    H, P = cc._mods()
    tab = TABS.eig[dim]
    rng = rng_for(seed, "eig", dim, s)
    ids = [rng.randrange(len(tab["mats"])) for _ in range(size(s))]
    n = dim + 1
    arr = np.stack([tab["mats"][i] for i in ids]).reshape(tuple(s) + (n, n))
    for C in (P.Transformation,):
        for lam in (tab["lam"], tab["mu"], None):
            try:
                with warnings.catch_warnings():
                    warnings.simplefilter("ignore")
                    R = C(arr.copy()).eigenvector(lam)
                    U = [C(tab["mats"][i].copy()).eigenvector(lam) for i in ids]
            except Exception as e:
                return ("eigenvector(%r).raised" % lam, "%s: %s" % (type(e).__name__, e))
            if tuple(R.shape) != tuple(s):
                return ("eigenvector(%r).shape" % lam, "%r, spec %r" % (tuple(R.shape), tuple(s)))
            A = np.real(np.asarray(R.proj_data)).reshape(len(ids), n)
            E = np.stack([np.real(np.asarray(u.proj_data)).reshape(n) for u in U])
            d = cc.proj_dev(A, E)
            if not (d <= 1e-8).all():
                p = int(np.argmax(~(d <= 1e-8)))
                return ("eigenvector(%r).value" % lam, "entry %d (matrix %s) is the point %s, the unit transformation returns %s"
                        % (p, tab["mats"][ids[p]].astype(int).tolist(), np.round(A[p], 6).tolist(), np.round(E[p], 6).tolist()))
            if lam is not None:
                for p in range(len(ids)):
                    M = tab["mats"][ids[p]]
                    if cc.proj_dev((M.T @ A[p])[None], A[p][None])[0] > 1e-7 and cc.proj_dev((A[p] @ M)[None], A[p][None])[0] > 1e-7:
                        return ("eigenvector(%r).IsEigenvector" % lam, "entry %d is not an eigenvector of the exact matrix" % p)
    return None


def convert_case(c1, c2, dim, sx, seed):
    """C2(object of class C1) keeps the primary data and nothing else: it is what C2 builds from that data (no derived
    data for a class that has none), and it behaves like it under the shape operations and under application"""
    C1, C2 = cc.lib_class(c1), cc.lib_class(c2)
    rng = rng_for(seed, "convert", c1, c2, dim, sx)
    ids = [rng.randrange(TABS.K) + 1 for _ in range(size(sx))]
    X, _ = cc.build(TABS, c1, dim, sx, ids)

    def same(what, A, B):
        if type(A) is not type(B):
            return (what + ".class", "%s vs %s" % (type(A).__name__, type(B).__name__))
        if tuple(A.shape) != tuple(B.shape) or A.proj_data.shape != B.proj_data.shape:
            return (what + ".shape", "%r / %r vs from primary data %r / %r" % (tuple(A.shape), A.proj_data.shape, tuple(B.shape), B.proj_data.shape))
        if not np.allclose(A.proj_data, B.proj_data, rtol=1e-12, atol=0, equal_nan=True):
            return (what + ".proj_data", "differs from what the class builds from the primary data")
        if (A.aux_data is None) != (B.aux_data is None):
            return (what + ".aux_data", "derived data %s, from primary data %s" % (
                "present " + str(A.aux_data.shape) if A.aux_data is not None else "absent",
                "present" if B.aux_data is not None else "absent"))
        if A.aux_data is not None:
            if A.aux_data.shape != B.aux_data.shape or not np.allclose(A.aux_data, B.aux_data, rtol=1e-9, atol=1e-9, equal_nan=True):
                return (what + ".aux_data", "derived data differs from what the class computes from the primary data")
        return None
    with warnings.catch_warnings():
        warnings.simplefilter("ignore")
        with np.errstate(all="ignore"):
            try:
                Y0 = C2(np.array(X.proj_data))
            except Exception:
                return None                      # the class does not accept this data: outside the domain
            try:
                Y = C2(X)
                bad = same("%s(%s)" % (c2, c1), Y, Y0)
                if bad:
                    return bad
                n = size(tuple(Y0.shape))
                T1 = cc.build_trans(TABS, c2, dim, (), [1 + rng.randrange(cc.letters(c2))])
                T2 = cc.build_trans(TABS, c2, dim, (2,), [1, 2])
                for what, f in (("flatten_to_unit", lambda o: o.flatten_to_unit()), ("reshape", lambda o: o.reshape((n,))),
                                ("T @ .", lambda o: T1 @ o), ("T.apply(., pairwise)", lambda o: T2.apply(o, broadcast="pairwise")),
                                ("[...] of flattened", lambda o: o.flatten_to_unit()[0])):
                    try:
                        want = f(Y0)
                    except Exception:
                        continue
                    bad = same("%s(%s).%s" % (c2, c1, what), f(Y), want)
                    if bad:
                        return bad
            except Exception as e:
                return ("%s(%s).raised" % (c2, c1), "%s: %s" % (type(e).__name__, e))
    return None


def query_chunk(args):
    cases, seed = args
    global OPS
    if OPS is None:
        OPS = _ops()
    n = 0
    viol = []
    sample = None
    per = {}
    for c in cases:
        n += 1
        try:
            if c[0] == "Polygon(points)":
                bad = polygon_from_points_case(c[1], c[2], seed)
            elif c[0] == "SL(2) maps":
                bad = sl2_case(c[1], c[2], seed)
            elif c[0] == "Transformation.eigenvector":
                bad = eigenvector_case(c[1], c[2], seed)
            elif c[0].startswith("convert:"):
                _, c1, c2 = c[0].split(":")
                bad = convert_case(c1, c2, c[1], c[2], seed)
            else:
                bad = query_case(c[0], c[1], c[2], c[3], seed, mixed=len(c) > 4 and c[4])
        except core.MachineryFailure:
            raise
        except Exception as e:
            bad = ("raised", "%s: %s" % (type(e).__name__, e))
        per[c[0]] = per.get(c[0], 0) + 1
        if bad and len(viol) < 10:
            viol.append((dict(op=c[0] + (" (mixed signs of representatives)" if len(c) > 4 and c[4] else ""), dim=c[1], sx=list(c[2]),
                              sy=None if c[3] is None else list(c[3])), bad))
        if sample is None and c[0] == "HPoint.distance" and len(c[2]) == 2 and c[3] and c[2] != c[3]:
            sample = dict(kind="vectorised query", op=c[0], dim=c[1], sx=list(c[2]), sy=list(c[3]),
                          spec_shape=TABS.apply[(c[2], c[3])]["ew"]["shape"])
    return n, viol, sample, per


# ----------------------------------------------------------------------------------------
def pool_map(fn, cases, seed, nproc):
    if not cases:
        return []
    nproc = max(1, min(nproc, len(cases)))
    chunks = [cases[i::nproc] for i in range(nproc)]
    with mp.get_context("fork").Pool(nproc) as pool:
        return pool.map(fn, [(c, seed) for c in chunks])


def run(run, replay=None):
    global TABS, OPS
    quick = run.tier == "quick"
    if replay:
        import json
        try:
            rp = json.load(open(replay))
            run.seed = int(rp.get("seed", run.seed))
        except Exception as e:
            raise core.MachineryFailure("cannot read replay file %s: %s" % (replay, e))
    run.rule = ("a case is one call on a composite object (apply in one broadcast mode, one shape operation, one "
                "vectorised query) compared index by index with the units named by Composite.tla; distinct_nontrivial "
                "counts distinct (class, dimension, shapes, mode / operation) cases")
    run.assumptions += [
        "composite shapes of rank 0..3 with dimensions in {1,2,3} (40 shapes) for objects and for transformations",
        "classes: projective Point, PointPair, Polygon(aux rank 3), Transformation; hyperbolic Point, Geodesic, "
        "Segment(aux rank 2), TangentVector(aux rank 2), Polygon(aux rank 3), Isometry, Horosphere, HorosphereArc (units "
        "on horospheres based at different ideal points); BoundaryArc built from composite end points; dimensions 2 and 3",
        "hyperbolic Subspace given by ideal points (geodesics of the plane, planes of 3-space); stacking from lists, tuples "
        "and one-shot iterables; combine of 1, 2 and 3 operands; conversions C2(object of C1) for the class pairs listed by "
        "CompUnits.tla (result = what C2 builds from the primary data, then shape operations and application)",
        "a query that raises on a composite is outside its domain iff it also raises on one of the unit objects alone",
        "a segment's two ideal endpoints are compared in order (first the one beyond end point 0)",
        "the SL(2) maps: sl2_to_so21, from_sl2, sl2_iso, sl2_irrep on SL(2,Z) and sl2c_to_so31, sl2c_herm_action, "
        "slc_to_slr, sl2_irrep on SL(2,Z[i]), arrays of every shape of rank <= 3",
        "payloads are the exact integer units of CompUnits.tla (5 base units per class, 5 transformations)",
        "ConvexPolygon (composite use documented as unsupported), Polygon.circle_parameters (raises TypeError for unit "
        "and composite objects alike on the pinned tree) and the scalar-only o_to_pgl are not covered",
    ]
    TABS = cc.load_all(run, maxrank=3, dims=(2, 3), K=5, maxword=2)
    OPS = _ops()
    nproc = min(8, core.NCPU)
    rng = random.Random(run.seed)
    shapes = sorted({k[0] for k in TABS.apply})
    pairs = sorted(TABS.apply)
    # ---- apply
    cases = []
    for cls in cc.ALL_CLASSES:
        for dim in (2, 3):
            for (sx, st) in pairs:
                small = len(sx) <= 2 and len(st) <= 2
                for mode in MODES:
                    if quick and not small and rng.random() > 0.3:
                        continue
                    variant = "apply"
                    if mode == "elementwise" and (len(sx) + len(st)) % 2 == 1:
                        variant = "matmul"
                    cases.append((cls, dim, sx, st, mode, variant))
                if cls in ("Point", "HPoint") and (small or not quick or rng.random() < 0.05):
                    cases.append((cls, dim, sx, st, "pairwise", "ndarray"))
    rng.shuffle(cases)
    tot = 0
    for (n, viol, sample, per) in pool_map(apply_chunk, cases, run.seed, nproc):
        tot += n
        for ctx, bad in viol:
            run.violation("apply:%(cls)s:dim%(dim)d:%(sx)s:%(st)s:%(mode)s:%(variant)s" % ctx, "apply:" + bad[0],
                          dict(case=ctx, observed=bad[1]))
        if sample:
            run.sample(sample)
        for m, k in per.items():
            run.actions["apply(" + m + ")"] = run.actions.get("apply(" + m + ")", 0) + k
    run.evaluations += tot
    run.nontrivial_count += tot
    run.traces += tot
    run.extra["apply_cases"] = tot
    # ---- shape operations
    cases = [(cls, dim, sx) for cls in cc.ALL_CLASSES for dim in (2, 3) for sx in shapes]
    tot = 0
    for (n, viol) in pool_map(shape_chunk, cases, run.seed, nproc):
        tot += n
        for ctx, bad in viol:
            run.violation("shapeops:%(cls)s:dim%(dim)d:%(sx)s" % ctx, "shape_ops:" + bad[0], dict(case=ctx, observed=bad[1]))
    run.evaluations += tot
    run.nontrivial_count += tot
    run.traces += len(cases)
    run.actions["flatten/reshape/index/slice/iterate/stack"] = tot
    run.sample(dict(kind="shape operations", sx=[2, 3], spec=dict((k, TABS.unary[(2, 3)][k]) for k in ("flat", "items", "reshapes"))))
    # ---- vectorised queries
    cases = []
    for name, (cls, arity, other, f, dims) in sorted(OPS.items()):
        for dim in dims:
            if arity == 1:
                for sx in shapes:
                    cases.append((name, dim, sx, None))
            else:
                # binary queries are documented for operands of one shape only
                for sx in shapes:
                    cases.append((name, dim, sx, sx))
            if name in MIXED_SIGN_OPS:
                for sx in shapes:
                    if len(sx) <= 2 or not quick:
                        cases.append((name, dim, sx, sx if arity == 2 else None, True))
    for dim in (2, 3):
        for s in shapes:
            if len(s) <= 2:
                cases.append(("Polygon(points)", dim, s, None))
    for (c1, c2) in TABS.converts:
        for dim in (2, 3):
            for s in shapes:
                if len(s) <= 2:
                    cases.append(("convert:%s:%s" % (c1, c2), dim, s, None))
    for s in shapes:
        cases.append(("SL(2) maps", 2, s, None))
        for dim in (2, 3):
            cases.append(("Transformation.eigenvector", dim, s, None))
    rng.shuffle(cases)
    tot = 0
    for (n, viol, sample, per) in pool_map(query_chunk, cases, run.seed, nproc):
        tot += n
        for ctx, bad in viol:
            # a call that raises for composites of every shape is one finding: its key does not carry the shape
            key = ("query:%(op)s:raised" % ctx) if bad[0] == "raised" else ("query:%(op)s:dim%(dim)d:%(sx)s:%(sy)s" % ctx)
            run.violation(key, "query:" + bad[0], dict(case=ctx, observed=bad[1]))
        if sample:
            run.sample(sample)
        for m, k in per.items():
            run.actions[m] = run.actions.get(m, 0) + k
    run.evaluations += tot
    run.nontrivial_count += tot
    run.traces += tot
    run.extra["query_cases"] = tot
    run.exhaustive = not quick
    # code -> spec: random histories of apply / reshape / flatten / index / slice / set item / stack / combine on
    # larger shapes (dimensions up to 4), validated by TLC against CompositeTrace.tla
    traces, meta, errors = comp_trace.record(TABS, random.Random(run.seed + 4), ["Point", "HPoint", "PointPair", "Geodesic"],
                                             (2, 3), 200 if quick else 3000, 10)
    comp_trace.validate_and_report(run, traces, meta, errors, clause="trace")
