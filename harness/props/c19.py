"""C19 — what is drawn is the object: paths pass through the vertices along geodesics.

spec/draw/DrawGeom.tla: exact geometry of edges and horospheres in the Poincare disc, the half-plane and
the Klein disc (rational centres, rational squared radii, chord discs) from integer Minkowski data, with
the theorems "the model curve is the geodesic", "the Thales disc cuts out the edge", "horospheres are
these circles", all checked by TLC.  spec/draw/DrawScene.tla: the scenes (drawing transformation word x
list of points read as Point / Segment / Geodesic / Horosphere / Polygon), explored exhaustively for
triangles and by simulation up to octagons, theorems checked on every scene, every scene emitted with its
exact geometry.  spec/draw/DrawPath.tla: the path assembler (MoveTo / EmitEdge), model-checked for one
stroke, order, closedness.  Conformance: every scene is drawn by the library on the Agg backend in the
three models (composite objects, transformation through the constructor / add_transform /
precompose_transform); the artists found in drawing.ax are projected to outlines in data coordinates, cut
into pieces, vertices named by the spec's coordinates, arcs measured against the spec's circle, and the
resulting event traces are validated by TLC against spec/draw/DrawPathTrace.tla (code -> spec).  Points,
horospheres and projective objects in the three affine charts are compared directly with the emitted
exact coordinates; the table of rejected dimensions is replayed.
"""
import json
import os
import random

import numpy as np

from .. import core
from .. import draw_common as dc
from .. import hyp_common as hc

SCENE_INVARIANTS = ["VerticesArePoints", "CoordsAgree", "EdgesAreGeodesics", "Equivariant", "HorospheresAreCircles", "VerticalsAreGeodesics", "ShrinkLaws",
                    "EmitScene"]


def lib_threshold():
    t = getattr(dc.drawtools(), "RADIUS_THRESHOLD", 80)
    return int(t) if isinstance(t, (int, float)) and float(t).is_integer() and 20 <= t <= 1000 else 80


# ----------------------------------------------------------------------------------------
# TLC runs
# ----------------------------------------------------------------------------------------
class TLCJobs:
    """The generating TLC runs are independent of each other: they are started together (a few workers each) and
    collected when their scenes are needed.  Bookkeeping as in core.Run.tlc, done in the main thread."""

    def __init__(self, run):
        from concurrent.futures import ThreadPoolExecutor
        self.run = run
        self.pool = ThreadPoolExecutor(8)
        self.jobs = {}

    def start(self, module, cfg_text, name, **kw):
        mod_path = os.path.join(core.SPEC, module)
        wd = os.path.join(self.run.work, name)
        self.jobs[name] = (mod_path, self.pool.submit(core.run_tlc, mod_path, cfg_text, wd, seed=self.run.seed, **kw))

    def result(self, name):
        mod_path, fut = self.jobs[name]
        r = fut.result()
        run = self.run
        run.states += r.distinct
        run.transitions += r.generated
        d = r.as_dict()
        d["module"] = os.path.relpath(mod_path, core.VERIF)
        d["run"] = name
        run.tlc_runs.append(d)
        return r


def path_machine(jobs):
    c = core.cfg(constants=dict(MaxNV=8), invariants=["TypeOK", "OneStroke", "InOrder", "NoRepeat", "EdgesOnce", "Complete"])
    jobs.start("draw/DrawPath.tla", c, "DrawPath", workers=1)


def start_scenes(jobs, name, threshold, B, core_, maxword, maxverts, simulate=None, depth=None, workers=2, shrinks=(30,)):
    c = core.cfg(constants=dict(N=2, B=B, Threshold=threshold, MaxWord=maxword, MaxVerts=maxverts, Core=core_, Shrinks=set(shrinks)),
                 invariants=SCENE_INVARIANTS, view="View")
    jobs.start("draw/DrawScene.tla", c, name, workers=workers, simulate=simulate, depth=depth)


def scenes(jobs, name, rec=None):
    r = jobs.result(name)
    if rec is not None:
        for line in r.stdout.splitlines():
            if line.startswith('"DEFAULTS '):
                rec.defaults = json.loads(json.loads(line)[9:])
    seen, out = set(), []
    for e in r.emits:
        k = (dc.word_key(e["word"]), json.dumps(e["verts"]), json.dumps(e.get("win")), e.get("shrink", 0))
        if k not in seen:
            seen.add(k)
            out.append(e)
    return out


# ----------------------------------------------------------------------------------------
# drawing the scenes
# ----------------------------------------------------------------------------------------
def arr(vs):
    return np.array(vs, dtype=float)


def artists_outlines(d):
    """all outlines the drawing's axes hold, in the order they were added: (kind of artist, vertices, codes)"""
    out = []
    for p in d.ax.patches:
        v, c = dc.patch_path(p)
        out.append((type(p).__name__, v, c))
    for col in d.ax.collections:
        for path in col.get_paths():
            out.append((type(col).__name__, np.asarray(path.vertices, float), None if path.codes is None else np.asarray(path.codes)))
    return out


class Recorder:
    def __init__(self, run, rng):
        self.run, self.rng = run, rng
        self.traces, self.meta = [], []
        self.kinds = {}
        self.bands = {}
        self.small = {}
        self.defaults = None
        self.threshold = None

    def record(self, what, model, scene, closed, outline):
        geom = scene["geom"][model]
        evs = dc.outline_events(model, geom, closed, outline[1], outline[2], ideal=scene["ideal"])
        self.traces.append(dict(model=model, word=scene["word"], verts=scene["verts"], closed=closed, shrink=0, events=evs))
        self.meta.append(dict(what=what, artist=outline[0], expect=["arc" if e["kind"] == "arc" else "straight" for e in geom["edges"]]))
        for e in geom["edges"]:
            self.kinds[(model, e["kind"])] = self.kinds.get((model, e["kind"]), 0) + 1
            if "r2" in e and self.threshold:            # edges on circles of radius within a factor 2 of the threshold
                q = dc.rat(e["r2"]) / self.threshold ** 2
                if 0.25 < q < 4:
                    k = ("polygon" if what == "polygon" else "segment", model, "below" if q < 1 else "above")
                    self.bands[k] = self.bands.get(k, 0) + 1

    def draw_batch(self, d, model, what, batch):
        """draw the scenes of `batch` (same number of vertices) as ONE composite object and record the outlines"""
        run = self.run
        H = hc.H()
        data = arr([s["verts"] for s in batch])
        k = len(batch)
        shape = (k,)
        if k >= 4 and k % 2 == 0 and self.rng.random() < 0.5:
            shape = (2, k // 2)                       # composite of composites: flattened by the drawing code
        data = data.reshape(shape + data.shape[1:]) if k > 1 or self.rng.random() < 0.5 else data[0]
        key = "%s:%s:%s:%s" % (what, model, dc.word_key(batch[0]["word"]), json.dumps([s["verts"] for s in batch[:3]], separators=(",", ":")))
        try:
            if what == "polygon":
                d.draw_polygon(H.Polygon(data))
            elif what == "segment":
                d.draw_geodesic(H.Segment(data))
            elif what == "geodesic":
                d.draw_geodesic(H.Geodesic(data))
            outs = artists_outlines(d)
        except Exception as ex:
            run.violation(key + ":raised", "raised:draw_" + what, dict(model=model, word=batch[0]["word"], objects=[s["verts"] for s in batch[:4]],
                                                                       error="%s: %s" % (type(ex).__name__, ex)))
            dc.clear(d)
            return
        dc.clear(d)
        run.case(key=(what, model, dc.word_key(batch[0]["word"]), json.dumps([s["verts"] for s in batch])), action="draw_%s[%s]" % (what, model))
        run.evaluations += k - 1
        if len(outs) != k:
            run.violation(key + ":count", "artist.one_outline_per_object", dict(model=model, objects=k, outlines=len(outs), artists=sorted({o[0] for o in outs})))
            return
        for s, o in zip(batch, outs):
            self.record(what, model, s, what == "polygon", o)


def check_points(run, d, model, scene):
    """draw_point: a Line2D whose data are the model coordinates of the (transformed) points"""
    H = hc.H()
    geom = scene["geom"][model]
    want = np.array([dc.rat2(c) for c in geom["vc"]])
    tol = np.array([dc.IDEAL_TOL if i else dc.POINT_TOL for i in scene["ideal"]])
    key = "point:%s:%s:%s" % (model, dc.word_key(scene["word"]), json.dumps(scene["verts"], separators=(",", ":")))
    data = arr(scene["verts"])
    try:
        dc.plt().sca(d.ax)
        d.draw_point(H.Point(data if len(data) > 1 else data[0]))
        got = [np.asarray(l.get_xydata(), float) for l in d.ax.lines]
        got = np.vstack(got) if got else np.zeros((0, 2))
        npatch = len(d.ax.patches) + len(d.ax.collections)
    except Exception as ex:
        run.violation(key + ":raised", "raised:draw_point", dict(model=model, points=scene["verts"], error="%s: %s" % (type(ex).__name__, ex)))
        dc.clear(d)
        return
    dc.clear(d)
    run.case(key=("point", model, dc.word_key(scene["word"]), json.dumps(scene["verts"])), action="draw_point[%s]" % model)
    bad = None
    if got.shape != want.shape or npatch:
        bad = "expected %d marker positions and no other artist, found %d positions, %d other artists" % (len(want), len(got), npatch)
    else:
        used = set()
        for i, w in enumerate(want):
            dd = np.abs(got - w).max(axis=1)
            for j in used:
                dd[j] = np.inf
            j = int(np.argmin(dd))
            if not dd[j] <= tol[i] * max(1.0, float(np.abs(w).max())):
                bad = "point %r (transformed %r): expected at %r, nearest marker %r" % (scene["verts"][i], scene["tv"][i], w.tolist(), got[j].tolist())
                break
            used.add(j)
    if bad:
        run.violation(key, "point.at_model_coordinates", dict(model=model, word=scene["word"], points=scene["verts"], observed=bad))


def check_horosphere(run, d, model, scene):
    H = hc.H()
    h = scene["horo"][model]["h"]
    key = "horosphere:%s:%s:%s" % (model, dc.word_key(scene["word"]), json.dumps(scene["verts"], separators=(",", ":")))
    try:
        d.draw_horosphere(H.Horosphere(arr(scene["verts"][0]), arr(scene["verts"][1])))
        cols, pats = list(d.ax.collections), list(d.ax.patches)
        bad = None
        if h["kind"] == "circle":
            if len(cols) != 1 or pats:
                bad = "expected one ellipse collection, found %d collections and %d patches" % (len(cols), len(pats))
            else:
                c = cols[0]
                off = np.asarray(c.get_offsets(), float)
                w, hh, ang = np.asarray(c.get_widths(), float), np.asarray(c.get_heights(), float), np.asarray(c.get_angles(), float)
                r = dc.rat(h["r"])
                ctr = dc.rat2(h["c"])
                tol = 1e-6 * max(1.0, r, float(np.abs(ctr).max()))      # the centre is an ideal point: sqrt at the boundary
                if off.shape != (1, 2) or w.shape != (1,) or hh.shape != (1,):
                    bad = "expected one circle, found offsets %r widths %r" % (off.shape, w.shape)
                elif np.abs(off[0] - ctr).max() > tol or abs(w[0] - 2 * r) > 2 * tol or abs(hh[0] - 2 * r) > 2 * tol:
                    bad = "circle centre %r diameter %r x %r, spec centre %r radius %r" % (off[0].tolist(), float(w[0]), float(hh[0]), ctr.tolist(), r)
                elif c.get_offset_transform() != d.ax.transData or getattr(c, "_units", "xy") != "xy":
                    bad = "ellipse sizes / offsets are not in data coordinates"
        else:
            if len(pats) != 1 or cols or type(pats[0]).__name__ != "Rectangle":
                bad = "expected one rectangle (horoball at infinity), found %d collections and %d patches" % (len(cols), len(pats))
            else:
                p = pats[0]
                x0, y0 = p.get_xy()
                hgt = dc.rat(h["height"])
                if abs(y0 - hgt) > 1e-9 * max(1.0, hgt) or x0 > d.xlim[0] or x0 + p.get_width() < d.xlim[1] or y0 + p.get_height() < d.ylim[1]:
                    bad = "rectangle %r + (%r, %r), spec height %r over the whole window" % ((x0, y0), p.get_width(), p.get_height(), hgt)
    except Exception as ex:
        bad = "%s: %s" % (type(ex).__name__, ex)
    dc.clear(d)
    run.case(key=("horosphere", model, dc.word_key(scene["word"]), json.dumps(scene["verts"])), action="draw_horosphere[%s]" % model)
    if bad:
        run.violation(key, "horosphere.circle", dict(model=model, word=scene["word"], centre=scene["verts"][0], through=scene["verts"][1], spec=h, observed=bad))


def check_horospheres_composite(run, d, model, batch, rng):
    """several horospheres drawn in ONE call: every unit is the circle of ITS horosphere (centre and radius together)"""
    if len(batch) < 2:
        return
    H = hc.H()
    key = "horospheres:%s:%s:%s" % (model, dc.word_key(batch[0]["word"]), json.dumps([s["verts"] for s in batch[:3]], separators=(",", ":")))
    run.case(key=("horospheres", model, dc.word_key(batch[0]["word"]), json.dumps([s["verts"] for s in batch])), action="draw_horosphere[%s, composite]" % model)
    run.evaluations += len(batch) - 1
    want = [(dc.rat2(s["horo"][model]["h"]["c"]), dc.rat(s["horo"][model]["h"]["r"])) for s in batch]
    data = arr([s["verts"] for s in batch])
    if len(batch) % 2 == 0 and rng.random() < 0.5:
        data = data.reshape((2, len(batch) // 2) + data.shape[1:])
    bad = None
    try:
        d.draw_horosphere(H.Horosphere(data))
        cols, pats = list(d.ax.collections), list(d.ax.patches)
        if len(cols) != 1 or pats:
            bad = "expected one ellipse collection, found %d collections and %d patches" % (len(cols), len(pats))
        else:
            c = cols[0]
            off = np.asarray(c.get_offsets(), float)
            w, hh = np.asarray(c.get_widths(), float), np.asarray(c.get_heights(), float)
            if off.shape != (len(batch), 2) or w.shape != (len(batch),) or hh.shape != (len(batch),):
                bad = "expected %d circles, found offsets %r widths %r" % (len(batch), off.shape, w.shape)
            elif c.get_offset_transform() != d.ax.transData or getattr(c, "_units", "xy") != "xy":
                bad = "ellipse sizes / offsets are not in data coordinates"
            else:
                used = set()
                for (ctr, r), s in zip(want, batch):
                    tol = 1e-6 * max(1.0, r, float(np.abs(ctr).max()))
                    hit = [j for j in range(len(batch)) if j not in used and np.abs(off[j] - ctr).max() <= tol
                           and abs(w[j] - 2 * r) <= 2 * tol and abs(hh[j] - 2 * r) <= 2 * tol]
                    if not hit:
                        j = int(np.argmin(np.abs(off - ctr).max(axis=1)))
                        bad = "horosphere %r: spec centre %r radius %r; nearest unit of the collection: centre %r diameter %r x %r" % (
                            s["verts"], ctr.tolist(), r, off[j].tolist(), float(w[j]), float(hh[j]))
                        break
                    used.add(hit[0])
    except Exception as ex:
        bad = "%s: %s" % (type(ex).__name__, ex)
    dc.clear(d)
    if bad:
        run.violation(key, "horosphere.circle_of_each_unit", dict(model=model, word=batch[0]["word"], horospheres=[s["verts"] for s in batch], observed=bad))


def check_vline(run, d, scene):
    """half-plane geodesic with one end at infinity: the vertical half-line over the other end"""
    H = hc.H()
    x = dc.rat(scene["vline"]["x"])
    key = "vertical:halfplane:%s" % json.dumps(scene["verts"], separators=(",", ":"))
    run.case(key=("vline", json.dumps(scene["verts"])), action="draw_geodesic[to infinity]")
    try:
        d.draw_geodesic(H.Geodesic(arr(scene["verts"][0]), arr(scene["verts"][1])))
        outs = artists_outlines(d)
        bad = None
        if len(outs) != 1:
            bad = "expected one outline, found %d" % len(outs)
        else:
            pcs = dc.cut_path(outs[0][1], outs[0][2])
            if [p[0] for p in pcs] != ["move", "line"]:
                bad = "expected one straight stroke, found %r" % [p[0] for p in pcs]
            else:
                a, b = pcs[1][1], pcs[1][2]
                lo, hi = (a, b) if a[1] <= b[1] else (b, a)
                if abs(a[0] - x) > 1e-6 * max(1.0, abs(x)) or abs(b[0] - x) > 1e-6 * max(1.0, abs(x)) or abs(lo[1]) > 1e-6 or hi[1] < d.ylim[1]:
                    bad = "stroke from %r to %r; spec: x = %r from the boundary to beyond y = %r" % (a.tolist(), b.tolist(), x, d.ylim[1])
    except Exception as ex:
        bad = "%s: %s" % (type(ex).__name__, ex)
    dc.clear(d)
    if bad:
        run.violation(key, "geodesic.vertical_to_infinity", dict(ends=scene["verts"], spec_x=scene["vline"]["x"], observed=bad))


def replay_scenes(run, rec, scs, rng, point_rate=1.0, batch=40):
    """draw every scene in every model where it is in the domain"""
    groups = {}
    for s in scs:
        groups.setdefault(dc.word_key(s["word"]) + json.dumps(s.get("win", dc.DEFAULT_WINDOW)), []).append(s)
    for wk in sorted(groups):
        grp = groups[wk]
        word = grp[0]["word"]
        window = grp[0].get("win", dc.DEFAULT_WINDOW)
        for model in dc.MODELS:
            try:
                d = dc.make_drawing(model, word, via_constructor=rng.random() < 0.5, window=window, rng=rng, defaults=rec.defaults,
                                    force_default=not run.actions.get("HyperbolicDrawing()"))
                if getattr(d, "_verif_default", False):
                    run.actions["HyperbolicDrawing()"] = run.actions.get("HyperbolicDrawing()", 0) + len(grp)
            except Exception as ex:
                run.violation("drawing:%s:%s" % (model, wk), "raised:drawing", dict(model=model, word=word, error="%s: %s" % (type(ex).__name__, ex)))
                continue
            ok = [s for s in grp if s["geom"][model]["ok"]]
            by_n = {}
            for s in ok:
                by_n.setdefault(len(s["verts"]), []).append(s)
            for n in sorted(by_n):
                ss = by_n[n]
                if n >= 3:
                    for i in range(0, len(ss), batch):
                        rec.draw_batch(d, model, "polygon", ss[i:i + batch])
                elif n == 2:
                    for i in range(0, len(ss), batch):
                        rec.draw_batch(d, model, "segment", ss[i:i + batch])
                    ge = [s for s in ss if all(s["ideal"])]
                    for i in range(0, len(ge), batch):
                        rec.draw_batch(d, model, "geodesic", ge[i:i + batch])
                for s in ss:
                    if rng.random() < point_rate:
                        check_points(run, d, model, s)
            hs = [s for s in grp if s["horo"][model]["ok"]]
            for s in hs:
                if s["horo"][model]["h"]["kind"] != "circle" or rng.random() < 0.3:
                    check_horosphere(run, d, model, s)
            circ = [s for s in hs if s["horo"][model]["h"]["kind"] == "circle"]
            rng.shuffle(circ)
            for i in range(0, len(circ), 12):
                check_horospheres_composite(run, d, model, circ[i:i + 12], rng)
            for s in grp:
                if model == "halfplane" and s["vline"]["ok"]:
                    check_vline(run, d, s)
            dc.close(d)


# ----------------------------------------------------------------------------------------
# projective drawings
# ----------------------------------------------------------------------------------------
def start_proj_scenes(jobs, name, BP, maxverts, simulate=None, depth=None, workers=2, only_default=False, preset=False):
    c = core.cfg(constants=dict(BP=BP, MaxVertsP=maxverts, OnlyDefault=only_default, Preset=preset),
                 invariants=["RoundTrip", "Transition", "Collinear", "Invertible", "LinesToLines", "ScaleFree", "CrossingLaws", "EmitProj"])
    jobs.start("draw/DrawProj.tla", c, name, workers=workers, simulate=simulate, depth=depth)


def proj_scenes(jobs, name):
    r = jobs.result(name)
    dims = None
    for line in r.stdout.splitlines():
        if line.startswith('"DIMS '):
            dims = json.loads(json.loads(line)[5:])
    if dims is None:
        raise core.MachineryFailure("no DIMS table")
    seen, out = set(), []
    for e in r.emits:
        k = json.dumps([e["chart"], e["M"], e["verts"], e["rep"]])
        if k not in seen:
            seen.add(k)
            out.append(e)
    return out, dims


def replay_proj(run, rec, scs, rng):
    from geometry_tools import projective as P
    D = dc.drawtools()
    groups = {}
    for s in scs:
        groups.setdefault((s["chart"], json.dumps(s["M"])), []).append(s)
    for (chart, mk) in sorted(groups):
        grp = groups[(chart, mk)]
        M = grp[0]["M"]
        try:
            T = P.Transformation(arr(M), column_vectors=True)
            # the scenes in chart 0 with the identity are drawn in a drawing constructed WITHOUT arguments
            d = D.ProjectiveDrawing() if grp[0]["default"] else D.ProjectiveDrawing(transform=T, chart_index=chart)
            if grp[0]["default"]:
                run.actions["ProjectiveDrawing()"] = run.actions.get("ProjectiveDrawing()", 0) + len(grp)
        except Exception as ex:
            run.violation("projdrawing:%d:%s" % (chart, mk), "raised:drawing", dict(chart=chart, M=M, error="%s: %s" % (type(ex).__name__, ex)))
            continue
        for s in grp:
            n = len(s["verts"])
            want = np.array([dc.rat2(c) for c in s["aff"]])
            geom = dict(vc=s["aff"], edges=[dict(kind="line")] * n)
            key = "proj:%d:%s:%d*%s" % (chart, mk, s["rep"], json.dumps(s["verts"], separators=(",", ":")))
            data = arr(s["verts"]) * float(s["rep"])           # the representatives handed to the library
            # points
            try:
                dc.plt().sca(d.ax)
                d.draw_point(P.Point(data if n > 1 else data[0]))
                got = [np.asarray(l.get_xydata(), float) for l in d.ax.lines]
                got = np.vstack(got) if got else np.zeros((0, 2))
                bad = None
                if got.shape != want.shape:
                    bad = "expected %d marker positions, found %d" % (len(want), len(got))
                else:
                    used = set()
                    for i, w in enumerate(want):
                        dd = np.abs(got - w).max(axis=1)
                        for j in used:
                            dd[j] = np.inf
                        j = int(np.argmin(dd))
                        if not dd[j] <= 1e-9 * max(1.0, float(np.abs(w).max())):
                            bad = "vector %r: expected at %r, nearest marker %r" % (s["verts"][i], w.tolist(), got[j].tolist())
                            break
                        used.add(j)
            except Exception as ex:
                bad = "%s: %s" % (type(ex).__name__, ex)
            dc.clear(d)
            run.case(key=("projpoint", key), action="proj.draw_point[chart %d]" % chart)
            if bad:
                run.violation(key + ":point", "projective.point_at_chart_coordinates", dict(chart=chart, M=M, vectors=s["verts"], spec=want.tolist(), observed=bad))
            if n < 2:
                continue
            what = "proj_polygon" if n >= 3 else "proj_segment"
            # a polygon inside chart 0 is drawn the same way when the code is told not to assume it
            strict = n >= 3 and chart == 0 and s["onesign"] and rng.random() < 0.6
            try:
                if strict:
                    d.draw_polygon(P.Polygon(data), assume_affine=False)
                    what = "proj_polygon[assume_affine=False]"
                elif n >= 3:
                    d.draw_polygon(P.Polygon(data))
                else:
                    d.draw_proj_segment(P.PointPair(data))
                outs = artists_outlines(d)
            except Exception as ex:
                run.violation(key + ":raised", "raised:" + what, dict(chart=chart, M=M, vectors=s["verts"], error="%s: %s" % (type(ex).__name__, ex)))
                dc.clear(d)
                continue
            dc.clear(d)
            run.case(key=(what, key), action="%s[chart %d]" % (what, chart))
            if len(outs) != 1:
                run.violation(key + ":count", "artist.one_outline_per_object", dict(chart=chart, M=M, vectors=s["verts"], outlines=len(outs)))
                continue
            evs = dc.outline_events("affine", geom, n >= 3, outs[0][1], outs[0][2])
            rec.traces.append(dict(model="affine", word=[], verts=s["verts"], closed=n >= 3, shrink=0, events=evs))
            rec.meta.append(dict(what=what, artist=outs[0][0], chart=chart, M=M, rep=s["rep"], spec_affine=want.tolist(), expect=["straight"] * n))
        if chart == 0:
            for s in grp:
                if len(s["verts"]) >= 3 and s["cross"]["ok"]:
                    proj_crossing_single(run, d, M, mk, s)
            by_n = {}
            for s in grp:
                if len(s["verts"]) >= 3:
                    by_n.setdefault(len(s["verts"]), []).append(s)
            for n in sorted(by_n):
                ss = by_n[n]
                rng.shuffle(ss)
                for i in range(0, len(ss) - 1, 6):
                    proj_array(run, rec, d, M, mk, ss[i:i + 6])
        dc.close(d)


def crossing_patches(s, pats, xlim, ylim, exact=True, used_out=None):
    """the patches of a polygon through the line at infinity (spec: DrawProj, CrossInfo): one closed polygon per run of
    vertices: the run in order, then two dummy vertices, each on the ray continuing the crossing edge beyond the run's end
    vertex away from the vertex on the other side, outside the window.  Returns None or a description.
    Several patches may contain the vertices of a run (other polygons of an array can share chart points): every
    candidate is examined and the run is satisfied by any one that passes."""
    aff = np.array([dc.rat2(c) for c in s["aff"]])
    free = list(range(len(pats)))

    def examine(v, r, idx):
        k = len(idx)
        name = []
        for pt in v:
            dd = np.abs(aff[idx] - pt).max(axis=1)
            i = int(np.argmin(dd))
            name.append(i if dd[i] <= 1e-9 * max(1.0, float(np.abs(pt).max())) else -1)
        if sorted(x for x in name if x >= 0) != list(range(k)) or name.count(-1) != 2:
            return "not a candidate"
        m = len(v)
        st = [t for t in range(m) if name[t] == -1 and name[(t + 1) % m] == -1]
        if not st:
            return "the two extra vertices of the patch of the run %r are not consecutive: %r" % (r["verts"], np.round(v, 4).tolist())
        rot = [(st[0] + 2 + t) % m for t in range(m)]
        seq = [name[t] for t in rot[:k]]
        d_after_last, d_before_first = v[rot[k]], v[rot[k + 1]]      # neighbours of seq[-1] and of seq[0]
        fwd = [(idx[-1], r["after"] - 1, d_after_last), (idx[0], r["before"] - 1, d_before_first)]
        bwd = [(idx[0], r["before"] - 1, d_after_last), (idx[-1], r["after"] - 1, d_before_first)]
        options = ([fwd] if seq == list(range(k)) else []) + ([bwd] if seq == list(range(k))[::-1] else [])    # k = 1: both
        if not options:
            return "the patch of the run %r does not list its vertices in order: %r" % (r["verts"], np.round(v, 4).tolist())
        msg = None
        for ends in options:
            msg = None
            for e, f, dm in ends:
                a, b = aff[e], aff[f]
                u = (a - b) / np.linalg.norm(a - b)
                off = abs((dm - a) @ np.array([-u[1], u[0]]))
                along = float((dm - a) @ u)
                if off > 1e-9 * max(1.0, float(np.abs(dm).max())) or along <= 0:
                    msg = ("dummy vertex %r next to vertex %d (%r) is not on the ray continuing the crossing edge from vertex %d (%r) beyond it" % (
                        np.round(dm, 4).tolist(), e + 1, a.round(4).tolist(), f + 1, b.round(4).tolist()))
                    break
                if xlim[0] < dm[0] < xlim[1] and ylim[0] < dm[1] < ylim[1]:
                    msg = "dummy vertex %r next to vertex %d lies inside the window: the unbounded piece is cut off" % (np.round(dm, 4).tolist(), e + 1)
                    break
            if msg is None:
                return None
        return msg

    for r in s["cross"]["runs"]:
        idx = [i - 1 for i in r["verts"]]
        k = len(idx)
        ok, msgs = None, []
        for j in free:
            v = np.asarray(pats[j], float)
            if len(v) >= 2 and np.abs(v[0] - v[-1]).max() <= 1e-12:
                v = v[:-1]                                   # matplotlib repeats the first vertex of a closed polygon
            if len(v) != k + 2:
                continue
            res = examine(v, r, idx)
            if res is None:
                ok = j
                break
            if res != "not a candidate":
                msgs.append(res)
        if ok is None:
            return msgs[0] if msgs else "no patch consists of the run %r (chart points %r) and two more vertices; patches: %r" % (
                r["verts"], aff[idx].round(6).tolist(), [np.round(np.asarray(pats[j], float), 4).tolist() for j in free])
        free.remove(ok)
    if used_out is not None:
        used_out.extend(j for j in range(len(pats)) if j not in free)
    if free and exact:
        return "patches that belong to no run: %r" % [np.round(np.asarray(pats[j], float), 4).tolist() for j in free]
    return None


def proj_crossing_single(run, d, M, mk, s):
    """one polygon through the line at infinity of chart 0, drawn with assume_affine=False"""
    from geometry_tools import projective as P
    key = "projcross:%s:%d*%s" % (mk, s["rep"], json.dumps(s["verts"], separators=(",", ":")))
    run.case(key=key, action="proj_polygon[through infinity, assume_affine=False]")
    try:
        d.draw_polygon(P.Polygon(arr(s["verts"]) * float(s["rep"])), assume_affine=False)
        npaths = sum(len(c.get_paths()) for c in d.ax.collections)
        pats = [np.asarray(p.get_xy(), float) for p in d.ax.patches]
        bad = "expected no polygon of the collection and two patches, found %d and %d" % (npaths, len(pats)) if npaths or len(pats) != 2 else \
            crossing_patches(s, pats, d.xlim, d.ylim)
    except Exception as ex:
        bad = "%s: %s" % (type(ex).__name__, ex)
    dc.clear(d)
    if bad:
        run.violation(key, "projective.polygon_through_infinity_two_unbounded_pieces", dict(M=M, polygon=[s["rep"], s["verts"]], spec=s["cross"], chart_points=[dc.rat2(c).tolist() for c in s["aff"]], observed=bad))


def proj_array(run, rec, d, M, mk, batch):
    """an ARRAY of polygons (representatives of both signs) drawn with assume_affine=False in chart 0: the polygons inside
    the chart are the paths of the collection, a polygon through the line at infinity is two patches through its vertices"""
    from geometry_tools import projective as P
    n = len(batch[0]["verts"])
    key = "projarray:%s:%s" % (mk, json.dumps([[s["rep"], s["verts"]] for s in batch[:3]], separators=(",", ":")))
    run.case(key=("projarray", mk, json.dumps([[s["rep"], s["verts"]] for s in batch])), action="proj_polygon[array, assume_affine=False]")
    run.evaluations += len(batch) - 1
    data = np.array([arr(s["verts"]) * float(s["rep"]) for s in batch])
    try:
        d.draw_polygon(P.Polygon(data), assume_affine=False)
        paths = [(type(c).__name__, np.asarray(p.vertices, float), None if p.codes is None else np.asarray(p.codes))
                 for c in d.ax.collections for p in c.get_paths()]
        pats = [np.asarray(p.get_xy(), float) for p in d.ax.patches]
    except Exception as ex:
        run.violation(key + ":raised", "raised:proj_polygon_array", dict(M=M, polygons=[[s["rep"], s["verts"]] for s in batch], error="%s: %s" % (type(ex).__name__, ex)))
        dc.clear(d)
        return
    dc.clear(d)
    inside = [s for s in batch if s["onesign"]]
    crossing = [s for s in batch if not s["onesign"]]
    if len(paths) != len(inside) or len(pats) != 2 * len(crossing):
        run.violation(key + ":count", "artist.one_outline_per_object",
                      dict(M=M, polygons=[[s["rep"], s["verts"]] for s in batch], inside_chart=len(inside), through_infinity=len(crossing),
                           collection_paths=len(paths), patches=len(pats)))
        return
    for s, o in zip(inside, paths):
        geom = dict(vc=s["aff"], edges=[dict(kind="line")] * n)
        evs = dc.outline_events("affine", geom, True, o[1], o[2])
        rec.traces.append(dict(model="affine", word=[], verts=s["verts"], closed=True, shrink=0, events=evs))
        rec.meta.append(dict(what="proj_polygon[array, assume_affine=False]", artist=o[0], chart=0, M=M, rep=s["rep"], expect=["straight"] * n))
    # every polygon through infinity: its two patches (found among all patches by their vertex runs: the order is free)
    remaining = list(pats)
    for s in crossing:
        if not s["cross"]["ok"]:
            continue
        used = []
        bad = crossing_patches(s, remaining, d.xlim, d.ylim, exact=False, used_out=used)
        if bad:
            run.violation(key + ":crossing:%s" % json.dumps(s["verts"], separators=(",", ":")), "projective.polygon_through_infinity_two_unbounded_pieces",
                          dict(M=M, polygon=[s["rep"], s["verts"]], spec=s["cross"], chart_points=[dc.rat2(c).tolist() for c in s["aff"]], observed=bad))
        remaining = [q for j, q in enumerate(remaining) if j not in used]


def wrong_dimension(run, dims):
    """objects whose dimension is not the drawing's are rejected (GeometryError) and nothing is added to the axes"""
    H = hc.H()
    D = dc.drawtools()
    from geometry_tools import projective as P
    from geometry_tools import GeometryError

    def hyp_objects(dim):
        o = np.zeros(dim + 1); o[0] = 1.0
        a = o.copy(); a[1] = 0.5
        b = o.copy(); b[1] = -0.25
        c = o.copy(); c[-1] = 0.5
        xi = np.zeros(dim + 1); xi[0] = xi[1] = 1.0
        eta = np.zeros(dim + 1); eta[0] = 1.0; eta[1] = -1.0
        return [("draw_point", lambda: H.Point(a)), ("draw_geodesic", lambda: H.Segment(a, b)), ("draw_geodesic", lambda: H.Geodesic(xi, eta)),
                ("draw_polygon", lambda: H.Polygon(np.array([a, b, c]))), ("draw_horosphere", lambda: H.Horosphere(xi, a))]

    def proj_objects(dim):
        a = np.arange(1.0, dim + 2)
        b = np.ones(dim + 1); b[1] = -2
        c = np.ones(dim + 1); c[-1] = 3
        return [("draw_point", lambda: P.Point(a)), ("draw_proj_segment", lambda: P.PointPair(np.array([a, b]))),
                ("draw_polygon", lambda: P.Polygon(np.array([a, b, c])))]

    drawings = [("HyperbolicDrawing[%s]" % m, (lambda m=m: D.HyperbolicDrawing(model=m)), hyp_objects) for m in dc.MODELS]
    drawings.append(("ProjectiveDrawing", lambda: D.ProjectiveDrawing(), proj_objects))
    for name, mk, objs in drawings:
        d = mk()
        for dim in (1, 2, 3):
            rejected = dims[dim - 1]
            for meth, build in objs(dim):
                if meth == "draw_horosphere" and "klein" in name:
                    continue
                key = "dimension:%s:%s:%d" % (name, meth, dim)
                run.case(key=key, action="dimension")
                dc.plt().sca(d.ax)
                try:
                    obj = build()
                    cls = type(obj).__name__
                except Exception as ex:
                    if rejected:
                        continue              # the object itself cannot be built in this dimension: nothing to draw
                    run.violation(key + ":build", "raised:constructor", dict(drawing=name, method=meth, dimension=dim, error="%s: %s" % (type(ex).__name__, ex)))
                    continue
                try:
                    getattr(d, meth)(obj)
                    raised = None
                except GeometryError:
                    raised = "GeometryError"
                except Exception as ex:
                    raised = "%s: %s" % (type(ex).__name__, ex)
                nart = len(d.ax.patches) + len(d.ax.collections) + len(d.ax.lines)
                dc.clear(d)
                if rejected and (raised != "GeometryError" or nart):
                    run.violation(key, "dimension.rejected", dict(drawing=name, method=meth, object=cls, dimension=dim, raised=raised, artists_added=nart))
                if not rejected and (raised or not nart):
                    run.violation(key, "dimension.accepted", dict(drawing=name, method=meth, object=cls, dimension=dim, raised=raised, artists_added=nart))
        dc.close(d)


def replay_small(run, rec, scs, rng, batch=24):
    """small polygons: the emitted polygon shrunk by the loxodromic Lox(1, q), through the drawing's transformation or by
    transforming the object; the outlines are validated for their structure (one stroke, vertices in order, kinds)"""
    H = hc.H()
    groups = {}
    for s in scs:
        groups.setdefault((s["shrink"], len(s["verts"])), []).append(s)
    for (q, n) in sorted(groups):
        grp = groups[(q, n)]
        for model in ("poincare", "halfplane"):
            route = rng.choice(["drawing_transform", "object_transformed"])
            try:
                lox = H.Isometry.standard_loxodromic(2, 1.0 / q)
                d = dc.make_drawing(model, [], rng=rng)
                if route == "drawing_transform":
                    d.set_transform(lox) if rng.random() < 0.5 else d.add_transform(lox)
            except Exception as ex:
                run.violation("small:%s:shrink=%d:drawing" % (model, q), "raised:drawing", dict(model=model, shrink=q, error="%s: %s" % (type(ex).__name__, ex)))
                continue
            for i in range(0, len(grp), batch):
                ss = grp[i:i + batch]
                data = arr([s["verts"] for s in ss])
                key = "small:%s:shrink=%d:%s" % (model, q, json.dumps([s["verts"] for s in ss[:2]], separators=(",", ":")))
                run.case(key=("small", model, q, route, json.dumps([s["verts"] for s in ss])), action="draw_polygon[%s, small]" % model)
                run.evaluations += len(ss) - 1
                try:
                    poly = H.Polygon(data if len(ss) > 1 else data[0])
                    if route == "object_transformed":
                        poly = lox @ poly
                    d.draw_polygon(poly)
                    outs = artists_outlines(d)
                    # names of the vertices: exact half-plane coordinates (spec); their Poincare coordinates through the
                    # library's chart map (C01)
                    hp = np.array([[dc.rat2(c) for c in s["hp"]] for s in ss])
                    vcs = hp if model == "halfplane" else np.asarray(H.Point(hp.copy(), model="halfspace").coords("poincare"), float)
                except Exception as ex:
                    dc.clear(d)
                    run.violation(key + ":raised", "raised:draw_polygon", dict(model=model, shrink=q, route=route, polygons=[s["verts"] for s in ss[:3]],
                                                                               error="%s: %s" % (type(ex).__name__, ex)))
                    continue
                dc.clear(d)
                if len(outs) != len(ss):
                    run.violation(key + ":count", "artist.one_outline_per_object", dict(model=model, shrink=q, objects=len(ss), outlines=len(outs)))
                    continue
                for s, o, vc in zip(ss, outs, vcs):
                    evs = dc.structure_events(vc, o[1], o[2])
                    rec.traces.append(dict(model=model, word=[], verts=s["verts"], closed=True, shrink=q, events=evs))
                    el = np.linalg.norm(vc - np.roll(vc, -1, axis=0), axis=1)
                    rec.meta.append(dict(what="small_polygon", artist=o[0], route=route, expect=s["kinds"][model],
                                         edge_lengths_in_model_coordinates=[float("%.3g" % x) for x in el]))
                    b = int(np.floor(np.log10(el.min())))
                    rec.small[(model, b)] = rec.small.get((model, b), 0) + 1
            dc.close(d)


def own_axes(run):
    """the artist is added to the drawing's own axes, whatever matplotlib's current axes are"""
    H = hc.H()
    D = dc.drawtools()
    from geometry_tools import projective as P
    cases = []
    for model in dc.MODELS:
        cases.append(("HyperbolicDrawing[%s]" % model, lambda m=model: D.HyperbolicDrawing(model=m), lambda: H.Point(arr([[3, 2, 2], [5, -3, 0]]))))
    cases.append(("ProjectiveDrawing", lambda: D.ProjectiveDrawing(), lambda: P.Point(arr([[1, 2, 2], [1, -3, 0]]))))
    for name, mk, obj in cases:
        key = "own_axes:%s" % name
        run.case(key=key, action="draw_point[own axes]")
        try:
            d1 = mk()
            d2 = mk()                       # a second drawing: matplotlib's current axes are now d2's
            d1.draw_point(obj())
            n1, n2 = len(d1.ax.lines), len(d2.ax.lines)
            dc.close(d1)
            dc.close(d2)
        except Exception as ex:
            run.violation(key + ":raised", "raised:draw_point", dict(drawing=name, error="%s: %s" % (type(ex).__name__, ex)))
            continue
        if n1 != 1 or n2 != 0:
            run.violation(key, "point.added_to_own_axes",
                          dict(drawing=name, history=["d1 = %s()" % name, "d2 = %s()" % name, "d1.draw_point(p)"],
                               lines_in_d1_axes=n1, lines_in_d2_axes=n2))


def run(run, replay=None):
    import warnings
    warnings.filterwarnings("ignore")
    np.seterr(all="ignore")
    quick = run.tier == "quick"
    rng = random.Random(run.seed)
    threshold = lib_threshold()
    run.rule = ("one case per composite draw call (scene batch x model) and per point / horosphere scene x model; every outline found in "
                "drawing.ax is one trace validated by TLC against DrawPathTrace; distinct_nontrivial = distinct draw calls")
    run.assumptions += [
        "objects: points of the perfect-square integer universe (box entries <= 7, special and band points <= 29; <= 60 after the transformation), polygons with 3..8 "
        "distinct vertices (interior and ideal, convex or not), segments, geodesics, horospheres; transformations: words of length <= 2 in the "
        "exact atoms of HypIso",
        "half-plane objects inside the drawing's window, or (scenes_margin) up to 9% of its width outside it on either side (default |x| <= 6, y <= 8; custom xlim/ylim (4,14)x8 and (-20,20)x12 with objects outside the "
        "default window), no vertex at infinity; radius = threshold exactly excluded; model given as alias string (any case) or enum member",
        "artists of a composite are read in the order of its flattened index; Bezier approximation of circles by matplotlib trusted to 1e-4 r",
        "small polygons (edges 5e-6 .. 4e-2 in model coordinates: the polygon shrunk by Lox(1, q), q <= 10^5): path structure and kinds of "
        "the pieces only, vertices named by exact half-plane coordinates / the library's chart map (C01), tolerances relative to the shortest edge",
        "projective polygons through the line at infinity (assume_affine=False, chart 0): exactly two crossing edges; four fixed polygons with long and "
        "short crossing edges plus those met by the simulation; the distance of the dummy vertices is free beyond 'outside the window'",
        "not covered: rasterisation, styles, 3-D drawings, horoarcs, boundary arcs, CP1 drawings",
    ]
    run.extra["radius_threshold"] = threshold
    jobs = TLCJobs(run)
    path_machine(jobs)
    rec = Recorder(run, rng)
    rec.threshold = threshold
    if quick:
        plan = [dict(name="scenes_small", B=4, core_=7, maxword=0, maxverts=4, shrinks=(100, 1000, 10000, 100000)),
                dict(name="scenes_pairs", B=5, core_=2, maxword=0, maxverts=2),
                dict(name="scenes_margin", B=4, core_=8, maxword=0, maxverts=3),
                dict(name="scenes_windows", B=5, core_=5, maxword=0, maxverts=3),
                dict(name="scenes_words", B=5, core_=6, maxword=2, maxverts=2),
                dict(name="scenes_triangles", B=5, core_=1, maxword=0, maxverts=3),
                dict(name="scenes_bands", B=5, core_=4, maxword=0, maxverts=3),
                dict(name="scenes_sim", B=5, core_=3, maxword=2, maxverts=8, simulate=10, depth=11)]
    else:
        plan = [dict(name="scenes_small", B=4, core_=7, maxword=0, maxverts=5, shrinks=(30, 100, 300, 1000, 3000, 10000, 30000, 100000)),
                dict(name="scenes_triangles", B=7, core_=2, maxword=0, maxverts=3),
                dict(name="scenes_pairs_words", B=5, core_=1, maxword=1, maxverts=2),
                dict(name="scenes_windows", B=5, core_=5, maxword=0, maxverts=4),
                dict(name="scenes_margin", B=4, core_=8, maxword=0, maxverts=4),
                dict(name="scenes_words", B=5, core_=6, maxword=3, maxverts=2),
                dict(name="scenes_bands", B=5, core_=4, maxword=1, maxverts=3),
                dict(name="scenes_sim", B=7, core_=3, maxword=2, maxverts=8, simulate=150, depth=11)]
    if quick:
        pplan = [dict(name="proj_through_infinity", BP=1, maxverts=3, preset=True),
                 dict(name="proj_default", BP=2, maxverts=5, simulate=4, depth=6, only_default=True),
                 dict(name="proj_sim", BP=2, maxverts=6, simulate=10, depth=7)]
    else:
        pplan = [dict(name="proj_through_infinity", BP=1, maxverts=3, preset=True),
                 dict(name="proj_default", BP=2, maxverts=6, simulate=30, depth=7, only_default=True), dict(name="proj_triangles", BP=1, maxverts=3), dict(name="proj_sim", BP=3, maxverts=8, simulate=100, depth=9)]
    W = 2 if quick else 3
    for p in plan:
        start_scenes(jobs, threshold=threshold, workers=W, **p)
    for p in pplan:
        start_proj_scenes(jobs, workers=W, **p)
    jobs.result("DrawPath")
    nsc = 0
    for p in plan:
        scs = scenes(jobs, p["name"], rec)
        nsc += len(scs)
        if p["core_"] == 7:
            replay_small(run, rec, scs, rng)
            if scs:
                s = scs[len(scs) // 2]
                run.sample(dict(kind="small polygon", **s))
            continue
        replay_scenes(run, rec, scs, rng, point_rate=(0.25 if p["name"] == "scenes_triangles" else 1.0))
        if scs:
            s = scs[len(scs) // 2]
            run.sample(dict(kind="scene (%s)" % p["name"], word=s["word"], verts=s["verts"], transformed=s["tv"],
                            poincare=s["geom"]["poincare"], halfplane_ok=s["geom"]["halfplane"]["ok"]))
    run.extra["scenes"] = nsc
    run.extra["small_polygons_by_log10_of_shortest_edge"] = {"%s/1e%d" % k: v for k, v in sorted(rec.small.items())}
    for m in ("poincare", "halfplane"):
        for b in (-3, -4, -5):
            if not rec.small.get((m, b)):
                raise core.MachineryFailure("vacuous: no small polygon with shortest edge of order 1e%d was drawn in the %s model" % (b, m))
    run.extra["edge_kinds_drawn"] = {"%s/%s" % k: v for k, v in sorted(rec.kinds.items())}
    for m in ("poincare", "halfplane"):
        for kd in ("arc", "chord", "line"):
            if not rec.kinds.get((m, kd)):
                raise core.MachineryFailure("vacuous: no %s edge was drawn in the %s model" % (kd, m))
    run.extra["edges_within_factor_2_of_threshold"] = {"%s/%s/%s" % k: v for k, v in sorted(rec.bands.items())}
    if threshold == 80:
        for what in ("segment", "polygon"):
            for m in ("poincare", "halfplane"):
                for side in ("below", "above"):
                    if not rec.bands.get((what, m, side)):
                        raise core.MachineryFailure("vacuous: no %s edge with radius just %s the threshold was drawn in the %s model" % (what, side, m))
    dims = None
    for p in pplan:
        pscs, dims = proj_scenes(jobs, p["name"])
        replay_proj(run, rec, pscs, rng)
        run.extra["projective_scenes"] = run.extra.get("projective_scenes", 0) + len(pscs)
        if pscs:
            run.sample(dict(kind="projective scene", **pscs[len(pscs) // 2]))
    if not run.actions.get("ProjectiveDrawing()") or not run.actions.get("HyperbolicDrawing()"):
        raise core.MachineryFailure("vacuous: no scene was drawn in a drawing constructed without arguments")
    wrong_dimension(run, dims)
    own_axes(run)
    dc.validate_and_report(run, rec.traces, rec.meta, threshold)
    if rec.traces:
        t = rec.traces[len(rec.traces) // 3]
        run.sample(dict(kind="outline trace", **t))
    dc.plt().close("all")
