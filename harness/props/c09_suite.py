"""C09 code -> spec on the repository's OWN tests: the suite is run under the external tracing plug-in
(harness/fsa_pytest_trace.py), and every FSA history the tests exercise is validated by TLC against FSATrace.tla."""
import json
import os
import subprocess
import sys

from .. import core
from .. import fsa_trace


def run(run):
    out = os.path.join(run.work, "suite_traces.json")
    os.makedirs(run.work, exist_ok=True)
    env = dict(os.environ, FSA_TRACE_OUT=out, PYTHONPATH=core.VERIF + os.pathsep + core.REPO, PYTHONDONTWRITEBYTECODE="1")
    tests = ["testing/test_automata.py", "testing/test_representation.py"]
    p = subprocess.run([sys.executable, "-m", "pytest", "-q", "-p", "no:cacheprovider", "-p", "harness.fsa_pytest_trace"] + tests,
                       cwd=core.REPO, env=env, capture_output=True, text=True)
    if not os.path.exists(out):
        raise core.MachineryFailure("tracing plug-in produced no trace file: %s" % (p.stdout[-500:] + p.stderr[-500:]))
    data = json.load(open(out))
    traces = [d["events"] for d in data if d["events"]]
    closed = sum(1 for d in data if d["closed"])
    verts = list(range(0, 8))
    ok, bad = fsa_trace.validate_and_report(run, traces, verts, ["L0"], prop_clause="suite_trace", name="FSATrace_suite")
    run.evaluations += sum(len(t) for t in traces)
    run.nontrivial_count += sum(1 for t in traces if len(t) > 1)
    run.extra["suite_trace_validation"] = dict(instances=len(traces), events=sum(len(t) for t in traces), accepted=ok, rejected=bad,
                                               closed_outside_domain=closed, tests=tests)
    longest = max(traces, key=len) if traces else []
    run.sample(dict(kind="history recorded from the repository's tests (views elided)",
                    events=[{k: v for k, v in e.items() if k != "post"} for e in longest[:6]]))
