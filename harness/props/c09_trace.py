"""C09/C10 code -> spec: random long histories recorded from the real FSA and validated by
TLC against FSATrace.tla (batched: one TLC run per file of histories)."""
from .. import fsa_trace


def run(run, n=None, length=None, extra_traces=(), extra_verts=(), extra_labels=()):
    """`extra_traces`: further recorded histories validated in the same TLC run (over the enlarged universe)"""
    quick = run.tier == "quick"
    n = n or (150 if quick else 1500)
    length = length or (40 if quick else 60)
    verts, labels = [0, 1, 2, 3, 4, 5], ["a", "b", "c"]
    traces, errors = fsa_trace.record_random(run.seed, n, verts, labels, length)
    for tid, msg, tail in errors:
        run.violation(key="trace-raise:%s:%s" % (msg[:80], tail[-1:] if tail else ""), clause="raised:recording",
                      detail=dict(error=msg, last_events=tail))
    traces = traces + list(extra_traces)
    verts = sorted(set(verts) | set(extra_verts))
    labels = sorted(set(labels) | set(extra_labels))
    ok, bad = fsa_trace.validate_and_report(run, traces, verts, labels)
    run.evaluations += sum(len(t) for t in traces)
    run.nontrivial_count += ok
    run.extra["trace_validation"] = dict(histories=len(traces), events=sum(len(t) for t in traces),
                                         accepted=ok, rejected=bad, universe="6 vertices x 3 labels",
                                         recorded_on_builtin_automata=len(extra_traces))
    if traces:
        run.sample(dict(kind="recorded history (first 4 events, views elided)",
                        events=[{k: v for k, v in e.items() if k != "post"} for e in traces[0][:4]]))
