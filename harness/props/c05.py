"""C05 — representations are word homomorphisms; derived ones commute with evaluation.

spec/rep/Rep.tla (+ RepDefs, Fox, lib/IntMat, lib/Words): one TLC state per (case, part); a case
is an assignment of exact unimodular integer (or Gaussian-integer) matrices to generators.  TLC
checks on the model the homomorphism / empty-word / inverse-letter / free-reduction laws, that
every derived kind F (defined generator-free) commutes with word evaluation, the documented
symmetric-square bases, the adjoint bases, the Fox laws in Z[F] and the fundamental formula, and
prints the table of specified values.  spec/rep/RepHist.tla is the generator dictionary as a
state machine (assignment by either case, re-assignment, derived snapshot); TLC emits its LTS.

Conformance (spec -> code): (A) every row of the tables is executed on a live Representation
under several naming / parsing / dtype / assignment-order modes and every public way of
evaluating a word is compared entry by entry; (B) every history of RepHist up to depth k is
replayed on the real object and both dictionaries, all word images and the differential are
compared with the specification's post-state (Eval interleaved everywhere); (C) seeded random unimodular cases with long
words go through the same tables via a generated wrapper module.  (code -> spec): (D) random
long histories recorded from the real object are validated by TLC against RepTrace.tla; (E) the
Representation histories exercised by the repository's own test-suite, recorded by an external pytest
plug-in (harness/rep_pytest_trace.py), are validated against RepSymTrace.tla (free symbols).
"""
import itertools
import json
import multiprocessing as mp
import os
import random

import numpy as np

from .. import core
from .. import rep_common as rc
from ..rep_common import Mode

MAXV = 12   # violations reported per part


# ----------------------------------------------------------------------------------------
# modes
# ----------------------------------------------------------------------------------------
def int_modes(quick):
    ms = [Mode("single", None, "lower", "float"),
          Mode("single", None, "twice", "int", via="method"),
          Mode("multi", None, "upper", "mixed"),
          Mode("multi", False, "reverse", "float"),
          Mode("shapes", False, "mixed", "int"),
          Mode("digit", None, "lower", "float", via="method")]
    if not quick:
        ms += [Mode("single", False, "upper", "float"), Mode("long", None, "twice", "mixed"),
               Mode("long", False, "mixed", "int"), Mode("digit", False, "upper", "mixed"),
               Mode("single", None, "reverse", "mixed"), Mode("multi", False, "twice", "int")]
    return ms


def cx_modes(quick):
    ms = [Mode("single", None, "lower", "float"), Mode("multi", None, "upper", "float", via="method"),
          Mode("digit", False, "reverse", "float")]
    if not quick:
        ms += [Mode("single", None, "twice", "complex"), Mode("long", False, "mixed", "complex"),
               Mode("multi", False, "reverse", "float"), Mode("shapes", None, "lower", "float")]
    return ms


def fox_modes(quick):
    ms = [Mode("single", None, "lower", "float"), Mode("single", None, "reverse", "int", via="method"),
          Mode("single", None, "upper", "mixed"), Mode("single", None, "twice", "float")]
    return ms


def derived_mode(mode, drep, inherits=True):
    """the word syntax of a derived representation.  Copies and everything built by composition (copy, wrap,
    astype, compose, conjugate, dual, adjoints) parse words exactly as their source does: the SAME word
    strings are used on them (inherits).  tensor_product / symmetric_square / subgroup build a fresh
    Representation whose syntax is decided by its own public parse_simple."""
    if inherits:
        return mode
    return Mode(mode.naming, False if getattr(drep, "parse_simple", True) is False else None, mode.order, mode.dtype, mode.via)


# ----------------------------------------------------------------------------------------
# table rows
# ----------------------------------------------------------------------------------------
def parse_rows(stdout, prefix='"CASE '):
    rows = []
    for line in stdout.splitlines():
        if line.startswith(prefix):
            try:
                rows.append(json.loads(json.loads(line)[len(prefix) - 1:]))
            except Exception as e:
                raise core.MachineryFailure("unparsable table line: %r (%s)" % (line[:200], e))
    return rows


def gens_of(d, cx=False):
    if not d:
        return {}
    return {l: rc.to_array(m, cx) for l, m in d.items()}


def table_of(pairs, cx=False):
    return [(tuple(w), rc.to_array(m, cx)) for w, m in pairs]


class Bad(Exception):
    def __init__(self, clause, detail):
        self.clause, self.detail = clause, detail


def need(bad, prefix=""):
    if bad:
        raise Bad(prefix + bad[0], bad[1])


def integral(rep):
    return all(np.asarray(m).dtype.kind in "iuf" and np.all(np.asarray(m) == np.round(np.asarray(m))) for m in rep.generators.values())


def routes_for_kind(rep, k, mode, cx, wrap=None):
    """library routes that realise the derived kind k of the specification; wrap: the Transformation /
    Isometry class when rep is a wrapped (projective / hyperbolic) representation"""
    from geometry_tools import lie
    kind = k["kind"]
    if wrap is not None and kind == "conjugate":
        C = np.array(rc.to_array(k["C"], cx), dtype=float)
        return [("wrapped.conjugate(%s(C))" % wrap.__name__, lambda: rep.conjugate(wrap(C, column_vectors=True))),
                ("wrapped.conjugate(C, unwrap=False)", lambda: rep.conjugate(C, unwrap=False))]
    if kind == "astype" and not cx and integral(rep):
        # every stored matrix (inverses included) is exactly integral: an integer target is exact as well
        return [("rep.astype('float64')", lambda: rep.astype("float64"), "float64"),
                ("rep.astype('int64')", lambda: rep.astype("int64"), "int64"),
                ("rep.astype('complex128')", lambda: rep.astype("complex128"), "complex128")]
    if kind == "copy":
        return [("type(rep)(rep)", lambda: type(rep)(rep))]
    if kind == "astype":
        tgt = "float64" if mode.dtype in ("int", "mixed") and not cx else "complex128"
        return [("rep.astype(%r)" % tgt, lambda: rep.astype(tgt), tgt)]
    if kind == "compose_id":
        return [("rep.compose(lambda M: M)", lambda: rep.compose(lambda M: M)),
                ("rep.compose(lambda M: M, compute_inverses=True)", lambda: rep.compose(lambda M: M, compute_inverses=True))]
    if kind == "conjugate":
        C = mode.cast(rc.to_array(k["C"], cx))
        return [("rep.conjugate(C)", lambda: rep.conjugate(C))]
    if kind == "dual":
        return [("rep.dual()", lambda: rep.dual())]
    if kind == "compose_invT":
        return [("rep.compose(lambda M, inv=None: inv.T)", lambda: rep.compose(lambda M, inv=None: inv.T))]
    if kind == "compose_kron2":
        return [("rep.compose(lambda M: kron(M, M))", lambda: rep.compose(lambda M: np.kron(M, M))),
                ("rep.compose(lambda M: kron(M, M), compute_inverses=True)",
                 lambda: rep.compose(lambda M: np.kron(M, M), compute_inverses=True))]
    if kind == "compose_block":
        m = k["m"]
        return [("rep.compose(lie.hom.block_include(%d))" % m, lambda: rep.compose(lie.hom.block_include(m)))]
    if kind == "symmetric_square":
        return [("rep.symmetric_square()", lambda: rep.symmetric_square())]
    if kind == "gln_adjoint":
        return [("rep.gln_adjoint()", lambda: rep.gln_adjoint())]
    if kind == "sln_adjoint":
        return [("rep.sln_adjoint()", lambda: rep.sln_adjoint())]
    raise core.MachineryFailure("unknown derived kind %r" % (kind,))


def check_derived(drep, mode, dgens, vals, dim, inherits=True, cmp=None):
    dm = derived_mode(mode, drep, inherits)
    need(rc.dict_check(drep, dgens, dm, "derived.generators"))
    if drep.dim != dim:
        raise Bad("derived.dim", "dim %r, specified %r" % (drep.dim, dim))
    need(rc.words_check(drep, dm, vals, "derived.image", norms=rc.norms_of(dgens), cmp=cmp))
    return len(vals)


def second_steps(drep, mode, dgens, vals, dim, inherits=True, cmp=None):
    """a derived representation is a representation: copy it, take a subgroup of it, assign to it.
    Expected values are the specified derived dictionary / images themselves."""
    dm = derived_mode(mode, drep, inherits)
    n = check_derived(type(drep)(drep), mode, dgens, vals[:8], dim, inherits, cmp)
    lows = sorted(l for l in dgens if l.islower())
    two = [(w, m) for w, m in vals if len(w) == 2][:2]
    if two:
        try:
            sub = drep.subgroup({dm.name(rc.LOWER[i]): dm.word(w) for i, (w, _) in enumerate(two)})
        except Exception as e:
            raise Bad("raised:derived.subgroup", "subgroup of the derived representation raised %s: %s" % (type(e).__name__, e))
        for i, (w, m) in enumerate(two):
            got = sub.generators.get(dm.name(rc.LOWER[i]))
            if got is None or np.asarray(got).dtype.kind not in "iufc" or not (cmp or rc.close)(sub[[dm.name(rc.LOWER[i])]], m):
                raise Bad("derived.subgroup", "subgroup generator for the word %r = %r, specified %r" % (dm.word(w), rc.show(got), rc.show(m)))
            n += 1
    # exchange a generator with its inverse by assignment
    g = lows[0]
    val = drep.generators[dm.name(g.upper())]
    if hasattr(type(drep), "wrap_func") and type(drep).wrap_func(np.identity(2)) is not None and type(drep).__name__ != "Representation":
        val = type(drep).wrap_func(val)
    try:
        dm.assign(drep, g, val)
    except Exception as e:
        raise Bad("raised:derived.assign", "assignment to the derived representation raised %s: %s" % (type(e).__name__, e))
    swapped = dict(dgens)
    swapped[g], swapped[g.upper()] = dgens[g.upper()], dgens[g]
    need(rc.dict_check(drep, swapped, dm, "derived.generators"), "after_assignment:")
    return n + 1


def auto_check(rep, L, table, red, norms=None, full=True):
    """vectorised evaluation driven by the free automaton (single-letter names: the returned words are
    concatenated labels).  Every returned pair (matrix, word) must have matrix = specified image of word --
    in the start direction (letters prepended) and in the end direction (letters appended) -- and the default
    route returns exactly the specified freely reduced words, each once.  Returns the number of pairs."""
    from geometry_tools.automata import fsa
    tab = {"".join(w): m for w, m in table}
    want = sorted("".join(w) for w in red)
    n = 0

    def pairs(what, res):
        try:
            mats, words = res
            mats = rc.plain(mats)
        except Exception as e:
            raise Bad("vectorised.shape", "%s did not return (matrices, words): %s" % (what, e))
        if len(mats) != len(words):
            raise Bad("vectorised.shape", "%s returned %d matrices for %d words" % (what, len(mats), len(words)))
        for m, w in zip(mats, words):
            if w not in tab:
                raise Bad("vectorised.words", "%s returned the word %r, not a word of length <= %d over the generators" % (what, w, L))
            if not rc.close(m, tab[w], slack=rc.word_slack(w, norms)):
                raise Bad("vectorised.image", "%s pairs the word %r with %r, specified image %r" % (what, w, rc.show(m), rc.show(tab[w])))
        return list(words)

    try:
        words = pairs("freely_reduced_elements(%d, with_words=True)" % L, rep.freely_reduced_elements(L, with_words=True))
        if sorted(words) != want:
            raise Bad("vectorised.free_words", "freely_reduced_elements(%d) returned the words %r, specified %r" % (L, sorted(words)[:12], want[:12]))
        n += len(words)
        k = len(rc.plain(rep.freely_reduced_elements(L)))
        if k != len(want):
            raise Bad("vectorised.count", "freely_reduced_elements(%d) returned %d matrices, specified %d words" % (L, k, len(want)))
        auto = fsa.free_automaton(list(rep.asym_gens()))
        for v in list(auto.vertices()):
            for key in ("start_state", "end_state"):
                for maxlen in ((True, False) if full else (True,)):
                    what = "automaton_accepted(free automaton, %d, with_words=True, maxlen=%s, %s=%r)" % (L, maxlen, key, v)
                    n += len(pairs(what, rep.automaton_accepted(auto, L, with_words=True, maxlen=maxlen, **{key: v})))
    except Bad:
        raise
    except Exception as e:
        raise Bad("raised:vectorised", "automaton-driven evaluation raised %s: %s" % (type(e).__name__, e))
    return n


def part_base(row, mode, cx=False):
    gens = gens_of(row["gens"], cx)
    rep = rc.build(mode, gens)
    need(rc.dict_check(rep, gens, mode))
    vals = table_of(row["vals"], cx)
    norms = rc.norms_of(gens)
    need(rc.words_check(rep, mode, vals, "image", norms=norms))
    # all words at once
    ws = [mode.word(w) for w, _ in vals]
    try:
        arr = rc.plain(rep.elements(ws))
    except Exception as e:
        raise Bad("raised:elements", "rep.elements(%d words) raised %s: %s" % (len(ws), type(e).__name__, e))
    if arr.shape != (len(ws), row["n"], row["n"]):
        raise Bad("elements.shape", "%r for %d words of dimension %d" % (arr.shape, len(ws), row["n"]))
    for i, (w, want) in enumerate(vals):
        if not rc.close(arr[i], want, slack=rc.word_slack(w, norms)):
            raise Bad("elements[i]", "elements(...)[%d] (word %r) = %r, specified %r" % (i, ws[i], rc.show(arr[i]), rc.show(want)))
    n = len(vals) * 4
    if not cx and mode.naming == "single" and mode.parse is None and "reduce" in row:
        from geometry_tools.utils import words as uw
        for w, red, finv in row["reduce"]:
            s = "".join(w)
            got = uw.simplify_word(s)
            if got != "".join(red):
                raise Bad("simplify_word", "simplify_word(%r) = %r, specified %r" % (s, got, "".join(red)))
            got = uw.formal_inverse(s)
            if got != "".join(finv):
                raise Bad("formal_inverse", "formal_inverse(%r) = %r, specified %r" % (s, got, "".join(finv)))
            n += 2
    if not cx and mode.naming == "single" and mode.parse is None and "reduced" in row:
        n += auto_check(rep, row["autolen"], vals, [tuple(w) for w in row["reduced"]], norms)
    # the group generators are exactly the assigned lower-case names
    lows = sorted(mode.name(l) for l in gens if l.islower())
    if sorted(rep.asym_gens()) != lows:
        raise Bad("asym_gens", "asym_gens() = %r, assigned generators %r" % (sorted(rep.asym_gens()), lows))
    # the dictionary is not changed by evaluation
    need(rc.dict_check(rep, gens, mode), "after_evaluation:")
    return n


WRAPPED_KINDS = ("copy", "conjugate", "dual", "compose_id", "compose_invT", "astype", "gln_adjoint", "sln_adjoint", "symmetric_square")


def part_kind(row, mode, cx=False):
    gens = gens_of(row["gens"], cx)
    dgens = gens_of(row["dgens"], cx)
    vals = table_of(row["vals"], cx)
    kind = row["kind"]["kind"]
    inherits = kind != "symmetric_square"
    n = 0
    rep = rc.build(mode, gens)
    targets = [("", rep, routes_for_kind(rep, row["kind"], mode, cx), None)]
    if not cx and kind in WRAPPED_KINDS and row["dim"] <= 9:
        # the same construction on a wrapped representation (results compared up to projective scale)
        from geometry_tools import projective
        T = projective.Transformation
        wrep = rc.build(mode, gens, cls=projective.ProjectiveRepresentation, wrap=lambda M: T(np.array(M, dtype=float), column_vectors=True))
        targets.append(("ProjectiveRepresentation: ", wrep, routes_for_kind(wrep, row["kind"], mode, cx, wrap=T), rc.proj_close))
    for prefix, src, routes, cmp in targets:
        for route in routes:
            name, f = prefix + route[0], route[1]
            try:
                drep = f()
            except Exception as e:
                raise Bad("raised:" + kind, "%s raised %s: %s" % (name, type(e).__name__, e))
            try:
                n += check_derived(drep, mode, dgens, vals, row["dim"], inherits, cmp)
                if len(route) > 2:
                    for nm, m in drep.generators.items():
                        if np.asarray(m).dtype != np.dtype(route[2]):
                            raise Bad("astype.dtype", "generator %r has dtype %s after astype(%r)" % (nm, np.asarray(m).dtype, route[2]))
                need(rc.dict_check(src, gens, mode), "original_changed:")
                n += second_steps(drep, mode, dgens, vals, row["dim"], inherits, cmp)
                need(rc.dict_check(src, gens, mode), "original_changed_by_second_step:")
            except Bad as b:
                raise Bad(b.clause, "%s: %s" % (name, b.detail))
    return n


def part_realify(row, mode):
    from geometry_tools import lie
    gens = gens_of(row["gens"], True)
    rep = rc.build(mode, gens)
    try:
        drep = rep.compose(lie.hom.slc_to_slr())
    except Exception as e:
        raise Bad("raised:slc_to_slr", "rep.compose(lie.hom.slc_to_slr()) raised %s: %s" % (type(e).__name__, e))
    return check_derived(drep, mode, gens_of(row["dgens"]), table_of(row["vals"]), 4)


def part_tensor(row, mode, cx=False):
    gens = gens_of(row["gens"], cx)
    other = gens_of(row["other"], cx)
    rep = rc.build(mode, gens)
    # the second factor is built in the opposite order (the product may not depend on it)
    m2 = Mode(mode.naming, mode.parse, "reverse" if mode.order != "reverse" else "lower", mode.dtype)
    rep2 = rc.build(m2, other)
    try:
        drep = rep.tensor_product(rep2)
    except Exception as e:
        raise Bad("raised:tensor_product", "rep.tensor_product(other) raised %s: %s" % (type(e).__name__, e))
    n = check_derived(drep, mode, gens_of(row["dgens"], cx), table_of(row["vals"], cx), row["n"] * row["n"], inherits=False)
    need(rc.dict_check(rep, gens, mode), "original_changed:")
    need(rc.dict_check(rep2, other, m2), "other_changed:")
    return n


def part_subgroup(row, mode):
    gens = gens_of(row["gens"])
    dgens = gens_of(row["dgens"])
    vals = table_of(row["vals"])
    rep = rc.build(mode, gens)
    sub = {l: tuple(w) for l, w in row["sub"].items()}
    letters = sorted(sub)
    routes = [("rep.subgroup({name: word})", lambda: rep.subgroup({mode.name(l): mode.word(sub[l]) for l in letters}), mode.naming),
              ("rep.subgroup({name: word}, compute_inverse=False)",
               lambda: rep.subgroup({mode.name(l): mode.word(sub[l]) for l in letters}, compute_inverse=False), mode.naming)]
    if letters == list(rc.LOWER[:len(letters)]):
        routes.append(("rep.subgroup([words])", lambda: rep.subgroup([mode.word(sub[l]) for l in letters]), "single"))
        routes.append(("rep.subgroup([words], generator_names=names)",
                       lambda: rep.subgroup([mode.word(sub[l]) for l in letters], generator_names=[mode.name(l) for l in letters]),
                       mode.naming))
    n = 0
    for name, f, naming in routes:
        try:
            drep = f()
        except Exception as e:
            raise Bad("raised:subgroup", "%s raised %s: %s" % (name, type(e).__name__, e))
        try:
            n += check_derived(drep, Mode(naming, None, mode.order, mode.dtype), dgens, vals, row["n"])
            need(rc.dict_check(rep, gens, mode), "original_changed:")
        except Bad as b:
            raise Bad(b.clause, "%s: %s" % (name, b.detail))
    return n


def part_wrap(row, mode):
    """projective / hyperbolic wrapping: the wrapped image of a word is the image (up to projective
    scale), acts on a column vector as the matrix does, and wrapped images multiply as words do"""
    from geometry_tools import projective, hyperbolic, representation
    gens = gens_of(row["gens"])
    vals = table_of(row["vals"])
    valmap = dict(vals)
    n = 0
    klasses = [("ProjectiveRepresentation", projective.ProjectiveRepresentation, projective.Transformation, projective.Point)]
    if row["hyp"]:
        klasses.append(("HyperbolicRepresentation", hyperbolic.HyperbolicRepresentation, hyperbolic.Isometry, hyperbolic.Point))
    for cname, cls, tcls, pcls in klasses:
        plain_rep = rc.build(mode, gens)
        routes = [(cname + "(rep)", lambda: cls(plain_rep)),
                  (cname + "() assigned wrapped generators",
                   lambda: rc.build(mode, gens, cls=cls, wrap=lambda M: tcls(np.array(M, dtype=float), column_vectors=True)))]
        for name, f in routes:
            try:
                wrep = f()
            except Exception as e:
                raise Bad("raised:wrap", "%s raised %s: %s" % (name, type(e).__name__, e))
            try:
                wm = derived_mode(mode, wrep)      # a wrapped copy parses words as its source does
                need(rc.dict_check(wrep, gens, wm, "wrapped.generators"))
                need(rc.words_check(wrep, wm, vals, "wrapped.image", cmp=rc.proj_close))
                for w, want in vals:
                    got = wrep[wm.word(w)]
                    if not isinstance(got, tcls):
                        raise Bad("wrapped.type", "rep[%r] is a %s, expected %s" % (wm.word(w), type(got).__name__, tcls.__name__))
                for w, x, y in row["act"]:
                    w = tuple(w)
                    pt = pcls(np.array(x, dtype=float))
                    try:
                        img = wrep[wm.word(w)] @ pt
                        got = np.asarray(img.proj_data)
                    except Exception as e:
                        raise Bad("raised:wrapped.action", "rep[%r] @ Point(%r) raised %s: %s" % (wm.word(w), x, type(e).__name__, e))
                    if not rc.proj_close(got, np.array(y, dtype=float)):
                        raise Bad("wrapped.action", "rep[%r] @ Point(%r) = %r, specified %r" % (wm.word(w), x, rc.show(got), y))
                    n += 1
                for u, v in itertools.product([w for w, _ in vals if len(w) <= 1], repeat=2):
                    if u + v in valmap:
                        got = wrep[wm.word(u)] @ wrep[wm.word(v)]
                        if not rc.proj_close(got, valmap[u + v]):
                            raise Bad("wrapped.product", "rep[%r] @ rep[%r] = %r, specified image of the concatenation %r"
                                      % (wm.word(u), wm.word(v), rc.show(got), rc.show(valmap[u + v])))
                        n += 1
                if name.endswith("(rep)"):
                    # the wrapped copy is a snapshot: assigning on either side leaves the other alone
                    lows = sorted(l for l in gens if l.islower())
                    g0, g1 = lows[0], lows[-1]
                    wrep[wm.name(g0)] = tcls(np.array(gens[g1.upper()], dtype=float), column_vectors=True)
                    need(rc.dict_check(plain_rep, gens, mode), "original_changed_by_assignment_to_wrapped_copy:")
                    fresh = cls(plain_rep)
                    plain_rep[mode.name(g1)] = mode.cast(gens[g0.upper()])
                    need(rc.dict_check(fresh, gens, derived_mode(mode, fresh), "wrapped.generators"),
                         "wrapped_copy_changed_by_assignment_to_original:")
                    plain_rep[mode.name(g1)] = mode.cast(gens[g1])
                    wrep = cls(plain_rep)
                # composite object for a list of words
                ws = [wm.word(w) for w, _ in vals]
                arr = rc.plain(wrep.elements(ws))
                if arr.shape != (len(ws), row["n"], row["n"]) or not all(rc.proj_close(arr[i], vals[i][1]) for i in range(len(ws))):
                    raise Bad("wrapped.elements", "elements(%d words) has shape %r or differs from the specified images" % (len(ws), arr.shape))
                n += len(vals)
            except Bad as b:
                raise Bad(b.clause, "%s: %s" % (name, b.detail))
    return n


def part_fox(row, mode):
    from geometry_tools.utils import words as uw
    gens = gens_of(row["gens"])
    n, dim = 0, row["n"]
    rels = ["".join(r) for r in row["rels"]]
    rep = rc.build(mode, gens, relations=rels)
    lowers = list(rep.asym_gens())
    if sorted(lowers) != sorted(row["lower"]):
        raise Bad("asym_gens", "asym_gens() = %r, specified generators %r" % (lowers, sorted(row["lower"])))
    I = np.identity(dim)
    dm = {tuple(w): ({g: rc.to_array(m) for g, m in blocks.items()}, rc.to_array(val)) for w, blocks, val in row["dmat"]}
    for w, (blocks, val) in dm.items():
        s = "".join(w)
        try:
            D = np.asarray(rep.differential(s))
        except Exception as e:
            raise Bad("raised:differential", "rep.differential(%r) raised %s: %s" % (s, type(e).__name__, e))
        if D.shape != (dim, dim * len(lowers)):
            raise Bad("differential.shape", "differential(%r) has shape %r, %d generators of dimension %d" % (s, D.shape, len(lowers), dim))
        acc = np.zeros((dim, dim), dtype=D.dtype)
        for i, g in enumerate(lowers):
            blk = D[:, i * dim:(i + 1) * dim]
            if not rc.close(blk, blocks[g]):
                raise Bad("differential.block", "block %r of differential(%r) = %r, specified image of the Fox derivative %r"
                          % (g, s, rc.show(blk), rc.show(blocks[g])))
            one = np.asarray(rep.differential(s, generator=g))
            if not rc.close(one, blocks[g]):
                raise Bad("differential(generator)", "differential(%r, generator=%r) = %r, specified %r" % (s, g, rc.show(one), rc.show(blocks[g])))
            acc = acc + blk @ (np.asarray(rep[g]) - I)
        # fundamental formula on the library's own values
        if not rc.close(acc, np.asarray(rep[s]) - I, scale=10.0):
            raise Bad("fundamental_formula", "sum_g D_g(%r)(rep[g] - I) = %r but rep[%r] - I = %r" % (s, rc.show(acc), s, rc.show(np.asarray(rep[s]) - I)))
        n += 1 + len(lowers)
    for w, per in row["fox"]:
        s = "".join(w)
        for g, elt in per.items():
            want = {"".join(x): c for x, c in elt}
            got = {k: v for k, v in dict(uw.fox_word_derivative(g, s)).items() if v != 0}
            if got != want:
                raise Bad("fox_word_derivative", "fox_word_derivative(%r, %r) = %r, specified %r" % (g, s, got, want))
            n += 1
    # relators: rows of the cocycle matrix are the differentials; they annihilate the coboundary matrix
    if not rels:      # the cocycle matrix of an empty relator list is not defined by the library
        return n
    try:
        coc = np.asarray(rep.cocycle_matrix())
        cob = np.asarray(rep.coboundary_matrix())
    except Exception as e:
        raise Bad("raised:cocycle", "cocycle_matrix / coboundary_matrix raised %s: %s" % (type(e).__name__, e))
    k = len(lowers)
    if coc.shape != (dim * len(rels), dim * k) or cob.shape != (dim * k, dim):
        raise Bad("cocycle.shape", "cocycle %r, coboundary %r for %d relators, %d generators, dimension %d" % (coc.shape, cob.shape, len(rels), k, dim))
    for j, r in enumerate(rels):
        blocks = dm[tuple(r)][0]
        for i, g in enumerate(lowers):
            blk = coc[j * dim:(j + 1) * dim, i * dim:(i + 1) * dim]
            if not rc.close(blk, blocks[g]):
                raise Bad("cocycle.block", "relator %r, generator %r: %r, specified %r" % (r, g, rc.show(blk), rc.show(blocks[g])))
    signs = set()      # the sign convention of the coboundary map is left free, but it is one convention
    for i, g in enumerate(lowers):
        blk = cob[i * dim:(i + 1) * dim, :]
        ref = I - gens[g]
        plus, minus = rc.close(blk, ref), rc.close(blk, -ref)
        if not (plus or minus):
            raise Bad("coboundary.block", "block %r = %r, specified +-(I - rep[%s]) = %r" % (g, rc.show(blk), g, rc.show(ref)))
        if plus != minus:
            signs.add(1 if plus else -1)
    if len(signs) > 1:
        raise Bad("coboundary.sign", "blocks of the coboundary matrix use different signs")
    prod = coc @ cob
    if not rc.close(prod, np.zeros((dim * len(rels), dim)), scale=10.0 * max(1.0, float(np.abs(coc).max()) if coc.size else 1.0)):
        raise Bad("cocycle*coboundary", "cocycle_matrix @ coboundary_matrix = %r for the satisfied relators %r" % (rc.show(prod), rels))
    n += len(rels) * k + 1
    return n


PARTS = {
    "base": lambda row, mode: part_base(row, mode),
    "kind": lambda row, mode: part_kind(row, mode),
    "tensor": lambda row, mode: part_tensor(row, mode),
    "subgroup": part_subgroup,
    "wrap": part_wrap,
    "fox": part_fox,
    "cbase": lambda row, mode: part_base(row, mode, cx=True),
    "ckind": lambda row, mode: part_kind(row, mode, cx=True),
    "ctensor": lambda row, mode: part_tensor(row, mode, cx=True),
    "crealify": part_realify,
}


def row_label(row):
    lab = row["part"]
    if "kind" in row:
        lab += ":" + row["kind"]["kind"]
    return lab


def run_row(args):
    row, quick = args
    part = row["part"]
    if part == "fox":
        modes = fox_modes(quick)
    elif part.startswith("c"):
        modes = cx_modes(quick)
    else:
        modes = int_modes(quick)
    out = []
    for mode in modes:
        try:
            n = PARTS[part](row, mode)
            out.append((str(mode), n, None))
        except Bad as b:
            out.append((str(mode), 0, (b.clause, b.detail)))
        except Exception as e:  # a library exception outside the guarded calls is still the library's
            import traceback
            tb = traceback.format_exc().splitlines()
            where = [l.strip() for l in tb if "geometry_tools" in l][-1:] or tb[-3:-2]
            if not any("geometry_tools" in l for l in tb):
                raise
            out.append((str(mode), 0, ("raised:" + part, "%s: %s @ %s" % (type(e).__name__, e, where))))
    return row["id"], row_label(row), out


def tables(run, r, name, quick, tag=""):
    rows = parse_rows(r.stdout)
    if not rows:
        raise core.MachineryFailure("no table printed by %s" % name)
    n = min(8, core.NCPU, len(rows))
    with mp.get_context("fork").Pool(n) as pool:
        outs = pool.map(run_row, [(row, quick) for row in rows], chunksize=1)
    nviol = 0
    for cid, label, res in outs:
        for mode, n_ev, bad in res:
            run.case(key=(tag, cid, label, mode), action=label.split(":")[0])
            run.evaluations += n_ev
            run.traces += 1
            if bad:
                nviol += 1
                run.violation("%scase:%s:%s:%s" % (tag, cid, label, mode), label + ":" + bad[0],
                              dict(case=cid, part=label, mode=mode, observed=bad[1]))
    for row in rows:
        if row["part"] in ("kind", "fox", "subgroup", "ckind"):
            s = dict(kind="table " + row_label(row), case=row["id"], n=row["n"],
                     gens={k: v for k, v in list(row["gens"].items())[:2]})
            if "vals" in row:
                s["specified"] = [dict(word="".join(w), value=m) for w, m in row["vals"][5:7]]
            if "dmat" in row:
                s["specified"] = [dict(word="".join(w), fox_blocks=b) for w, b, _ in row["dmat"][5:6]]
            run.sample(s, limit=10, per_kind=1)
    run.extra.setdefault("tables", []).append(dict(run=name, rows=len(rows), row_mode_pairs=sum(len(o[2]) for o in outs)))
    return rows


# ----------------------------------------------------------------------------------------
# histories (RepHist.tla)
# ----------------------------------------------------------------------------------------
HLTS = None
HOBS = None
HEVAL = None     # states in which the specification enables Eval and Enumerate (all with at least one generator)
HWORDLEN = 2


def hkey(k):
    k = dict(k)
    for f in ("gens", "dgens"):   # ToJson writes the empty dictionary as []
        if not k[f]:
            k[f] = {}
    return json.dumps(k, sort_keys=True, separators=(",", ":"))


def hist_modes(quick):
    ms = [Mode("single", None, "lower", "float"), Mode("multi", None, "lower", "mixed", via="method"),
          Mode("digit", False, "lower", "int")]
    if not quick:
        ms += [Mode("shapes", None, "lower", "float")]
    return ms


def act_label(a):
    if a["a"] == "derive":
        return "derive(%s)" % a["kind"]["kind"]
    return "%s(%s,%s)" % (a["a"], a["name"], json.dumps(a["M"], separators=(",", ":")))


def observe(rep, der, key, mode, with_dict=True, queries=True):
    """the Eval action on the live objects: the word battery of the state `key` (every word up to
    WordLen over every stored letter) on the original and on the derived representation, the
    dictionaries, and the differential -- compared with the specification's values for that state"""
    obs = HOBS[key]
    k = obs["key"]
    if with_dict:
        need(rc.dict_check(rep, gens_of(k["gens"]), mode))
    if k["gens"]:   # a representation without generators has no dimension yet: no word is in the domain
        need(rc.words_check(rep, mode, obs["vals_t"], "image", all_forms=False))
    if k["dkind"] != "none":
        dm = derived_mode(mode, der)
        if with_dict:
            need(rc.dict_check(der, gens_of(k["dgens"]), dm, "derived.generators"))
        need(rc.words_check(der, dm, obs["dvals_t"], "derived.image", all_forms=False))
    if queries and mode.naming == "single" and mode.parse is None and k["gens"]:
        # the Enumerate action: vectorised evaluation in both directions
        auto_check(rep, HWORDLEN, obs["vals_t"], obs["red_t"], full=False)
        lowers = list(rep.asym_gens())
        dim = rep.dim
        cob = np.asarray(rep.coboundary_matrix())
        for w, blocks in obs["fox"]:
            s = "".join(w)
            D = np.asarray(rep.differential(s))
            for j, g in enumerate(lowers):
                if not rc.close(D[:, j * dim:(j + 1) * dim], rc.to_array(blocks[g])):
                    raise Bad("differential.block", "block %r of differential(%r) = %r, specified %r"
                              % (g, s, rc.show(D[:, j * dim:(j + 1) * dim]), blocks[g]))
            lhs = D @ cob
            rhs = np.identity(dim) - np.asarray(rep[s])
            if not (rc.close(lhs, rhs) or rc.close(lhs, -rhs)):
                raise Bad("differential*coboundary", "differential(%r) @ coboundary_matrix() = %r, +-(I - rep[%r]) = %r"
                          % (s, rc.show(lhs), s, rc.show(rhs)))


def replay_path(path, mode, eval_everywhere=True):
    """execute one history on a fresh object.  With eval_everywhere the Eval action of RepHist is
    interleaved after every step on the SAME live objects (so every word is evaluated before and after
    every later assignment); otherwise only the final state is observed (no evaluation precedes an
    assignment).  Returns None or (clause, detail)."""
    rep = rc.new_rep(mode)
    der = None
    for i, (act, to) in enumerate(path):
        try:
            if act["a"] == "set":
                mode.assign(rep, act["name"], mode.cast(np.array(act["M"], dtype=float), i))
            elif act["a"] == "derive":
                der = routes_for_kind(rep, act["kind"], mode, False)[0][1]()
            elif act["a"] == "setder":
                mode.assign(der, act["name"], mode.cast(np.array(act["M"], dtype=float), i))
        except Exception as e:
            return ("raised:" + act["a"], "step %d %s raised %s: %s" % (i + 1, act_label(act), type(e).__name__, e))
        last = i == len(path) - 1
        if not (last or eval_everywhere):
            continue
        if to not in HEVAL:
            raise core.MachineryFailure("RepHist: no Eval transition emitted for a visited state")
        try:
            # (histories of 4 steps: the vectorised evaluation and the differential are interleaved from the
            # third step on only -- every shorter history has them after every step)
            observe(rep, der, to, mode, with_dict=True, queries=last or len(path) < 4 or i >= 2)
        except Bad as b:
            where = "" if last else "after step %d of %d (Eval interleaved): " % (i + 1, len(path))
            return (b.clause, where + b.detail)
        except Exception as e:
            return ("raised:observation", "after step %d: %s: %s" % (i + 1, type(e).__name__, e))
    return None


def paths_from(key, depth):
    """all paths of length 1..depth from key over the LTS (depth-first)"""
    if depth == 0:
        return
    for act, to in HLTS.get(key, ()):
        yield [(act, to)]
        for rest in paths_from(to, depth - 1):
            yield [(act, to)] + rest


def hist_chunk(args):
    """units of work: a one-step history (replayed alone) or a two-step prefix with all its extensions"""
    prefixes, depth, quick = args
    n, viol, sample = 0, [], None
    modes = hist_modes(quick)
    for prefix in prefixes:
        tails = [[]] + (list(paths_from(prefix[-1][1], depth - 2)) if len(prefix) == 2 else [])
        for tail in tails:
            path = prefix + tail
            for j, mode in enumerate(modes):
                # Eval interleaved after every step; for the first mode and histories of >= 2 steps also
                # the history without any evaluation before the last step
                for everywhere in ((True, False) if j == 0 and len(path) > 1 else (True,)):
                    n += 1
                    bad = replay_path(path, mode, everywhere)
                    if bad and len(viol) < MAXV:
                        lab = [act_label(a) for a, _ in path]
                        if everywhere:
                            lab = [x for a in lab for x in (a, "eval")]
                        viol.append((lab, str(mode), bad))
            if sample is None and len(path) >= 3 and any(a["a"] == "derive" for a, _ in path):
                sample = [x for a, _ in path for x in (act_label(a), "eval")]
    return n, viol, sample


def hist_cfg(depth, big=False):
    return core.cfg(constants=dict(MaxSteps=depth, WordLen=2, Big=big),
                    invariants=["Coherent", "LastWins", "BothDirections", "EmitObs"],
                    view="View", action_constraints=["Emit"])


def histories(run, r, quick, depth, tag=""):
    global HLTS, HOBS, HEVAL
    HOBS = {}
    HEVAL = set()
    henum = set()
    for row in parse_rows(r.stdout, '"OBS '):
        row["vals_t"] = table_of(row["vals"])
        row["dvals_t"] = table_of(row["dvals"])
        row["red_t"] = [tuple(w) for w in row["red"]]
        HOBS[hkey(row["key"])] = row
    HLTS = {}
    seen = set()
    for e in r.emits:
        fk, tk = hkey(e["from"]), hkey(e["to"])
        if e["act"]["a"] in ("eval", "enumerate"):
            if fk != tk:
                raise core.MachineryFailure("RepHist: a query changed the state")
            (HEVAL if e["act"]["a"] == "eval" else henum).add(fk)
            continue
        sig = (fk, json.dumps(e["act"], sort_keys=True))
        if sig in seen:
            continue
        seen.add(sig)
        HLTS.setdefault(fk, []).append((e["act"], tk))
    if henum != HEVAL:
        raise core.MachineryFailure("RepHist: Eval and Enumerate are not enabled in the same states")
    for k in HLTS:
        HLTS[k].sort(key=lambda x: json.dumps(x[0], sort_keys=True))
    init = hkey(dict(gens={}, dkind="none", dgens={}))
    if init not in HLTS:
        raise core.MachineryFailure("RepHist: initial state not found in the emitted LTS")
    units = []
    for first in HLTS[init]:
        units.append([first])
        for second in HLTS.get(first[1], ()):
            units.append([first, second])
    n = min(8 if quick else 12, core.NCPU, len(units))
    with mp.get_context("fork").Pool(n) as pool:
        outs = pool.map(hist_chunk, [(units[i::4 * n], depth, quick) for i in range(4 * n)])
    tot = 0
    for k, viol, sample in outs:
        tot += k
        for hist, mode, bad in viol:
            run.violation("hist%s:%s:%s" % (tag, ";".join(hist), mode), "history:" + bad[0], dict(history=hist, mode=mode, observed=bad[1]))
        if sample:
            run.sample(dict(kind="history" + tag, actions=sample))
    run.evaluations += tot
    run.traces += tot
    run.nontrivial_count += tot
    run.actions["history" + tag] = tot
    run.extra["histories" + tag] = dict(depth=depth, abstract_states=len(HOBS), transitions=len(seen), replayed=tot)


# ----------------------------------------------------------------------------------------
def run(run, replay=None):
    if replay:
        # a replay file names the failing (case, part, mode) or history; the tables and histories are
        # regenerated deterministically from the recorded seed and tier and the whole check is re-executed
        with open(replay) as f:
            d = json.load(f)
        run.seed, run.tier = d.get("seed", run.seed), d.get("tier", run.tier)
        print("replaying tier=%s seed=%s first=%s" % (run.tier, run.seed, d.get("first", {}).get("key")))
    quick = run.tier == "quick"
    if os.environ.get("C05_PARTS") == "suite":      # development / demonstration: only the repo-suite trace part
        from .. import rep_suite
        rep_suite.run(run)
        return
    run.rule = ("a case is one (table row, mode) pair executed on a live Representation (all words of the row, every "
                "public evaluation form), or one replayed history (mode included); distinct_nontrivial counts distinct "
                "(case, part, kind, mode) pairs plus replayed histories")
    run.assumptions += [
        "generators: exact unimodular integer matrices n=1..5 and Gaussian-integer 2x2 (units as determinants); images exactly representable in float64",
        "words exhaustively to length 4 (n<=3) / 3 (n=4,5) for the base laws, 2..4 for derived kinds, seeded random longer words",
        "differential / Fox helpers: single-character generator names only (utils.words operates on strings of one-letter generators); "
        "the differential of the empty word is outside the library's domain",
        "a word of a representation with multi-character names is a list of names or a '*'-joined string; "
        "name shapes: single letters, s0, word1, digit-first (1x), underscore-first (_s), letter inside (0t0), x_1, punctuation (-.q)",
        "wrapped (projective / hyperbolic) images compared up to one non-zero scalar",
    ]
    from concurrent.futures import ThreadPoolExecutor
    from .. import rep_random, rep_trace
    base = "BaseCases" if quick else "DeepCases"
    c = core.cfg(constants=dict(Cases=core.Raw(base), CCases=core.Raw("BaseCCases")), invariants=["Theorems", "EmitObs"])
    c = c.replace("Cases = " + base, "Cases <- " + base).replace("CCases = BaseCCases", "CCases <- BaseCCases")
    depth = 3 if quick else 4
    big_depth = 2 if quick else 3
    rand_path, rand_cfg = rep_random.prepare(run, quick)
    recorded = rep_trace.record(run, quick)
    # the four TLC runs are independent: run them side by side (12 worker threads in total)
    from .. import rep_suite
    with ThreadPoolExecutor(6) as ex:
        f_suite = ex.submit(rep_suite.run, run)      # (E) histories of the repository's own tests (pytest + 1 TLC worker)
        f_rep = ex.submit(run.tlc, "rep/Rep.tla", c, name="Rep", workers=min(6, core.NCPU), emit_prefix="\x00none")
        f_hist = ex.submit(run.tlc, "rep/RepHist.tla", hist_cfg(depth), name="RepHist", workers=min(2, core.NCPU))
        f_big = ex.submit(run.tlc, "rep/RepHist.tla", hist_cfg(big_depth, big=True), name="RepHistBig", workers=1)
        f_rand = ex.submit(run.tlc, rand_path, rand_cfg, name="RepRand", workers=min(2, core.NCPU), emit_prefix="\x00none")
        f_trace = ex.submit(rep_trace.validate, run, recorded[0], "RepTrace") if recorded[0] else None
        results = [f.result() if f else None for f in (f_rep, f_hist, f_rand, f_trace)]
        f_suite.result()
        r_big = f_big.result()
    tables(run, results[0], "Rep", quick)
    histories(run, results[1], quick, depth)
    # the same machine over large-entry matrices that are relatively close to each other
    histories(run, r_big, quick, big_depth, tag="_close_values")
    tables(run, results[2], "RepRand", quick, tag="rand:")
    rep_trace.finish(run, recorded, results[3])
