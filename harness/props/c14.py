"""C14 — circle and sphere parameters describe the true geodesic, segment, horosphere.

spec/hyp/HypCircle.tla (pure operators: poles of spheres orthogonal to the unit sphere, exact
centres / squared radii of geodesics in the Poincare ball and the half-space, the end point
that starts the counter-clockwise inside arc, horosphere radii from two derivations, ideal
points of a subspace) and spec/hyp/HypCircleCases.tla (families of cases: segments a U + b V
on chords between rational ideal points, near-diameters of radius exactly m, horospheres and
arcs of horocycles through perfect-square points, subspaces by ideal bases, hyperplanes by
integer normals).  TLC checks on every case that the emitted values mean what the property
says (through both ideal end points and both end points, orthogonal to the boundary, centre
on the boundary of the half-space, arc orientation, tangent + through for horospheres, all
ideal points on the sphere of a subspace) and prints one CASE record.

Conformance (spec -> code): every CASE record is replayed through
  Segment / Geodesic .ideal_endpoint_coords, .circle_parameters(model, degrees), .sphere_parameters,
  Segment.geodesic(), Horosphere.sphere_parameters, HorosphereArc.circle_parameters,
  Subspace / Hyperplane .sphere_parameters, .boundary_sphere_parameters
as composite arrays (flat and 2-d) and as unit objects, and compared with the exact values.
Python only converts rationals / surd records to floats, evaluates the point of the reported
circle at the reported angles and measures distances.
"""
import concurrent.futures
import json
import math
import os
import random

import numpy as np

from .. import core

TOL = 1e-9          # well-conditioned quantities, relative to max(1, radius)
ITOL = 1e-6         # quantities that pass through conformal coordinates of an IDEAL point: the library
                    # (and property C01) obtains them as k / (1 + sqrt|1 - |k|^2|), square-root conditioned at the boundary
CHORD_TOL = 1e-5    # sampled arc points mapped back to the Klein model (through the library's own chart maps)
RADIUS_THRESHOLD = 80.0     # drawtools.RADIUS_THRESHOLD: above it (or not finite) the drawing code uses a straight line
MAXV = 3
INVARIANTS = ["SegIdeal", "SegCircle", "SegArc", "SegFirst", "SegHalf", "HoroLaws", "ArcLaws", "SubLaws", "PlaneLaws", "EmitCase"]
NSAMP = 5           # interior sample points per reported arc


def hyp():
    from geometry_tools import hyperbolic
    return hyperbolic


# ----------------------------------------------------------------------------------------
# spec values -> floats
# ----------------------------------------------------------------------------------------
def q(p):
    return p[0] / p[1]


def qv(v):
    return np.array([p[0] / p[1] for p in v], dtype=float)


def nn_of(s):
    """-<x,x>, emitted as a list of integer factors"""
    return float(math.prod(s["nn"]))


def poincare_surd(s):
    return np.array(s["xs"], dtype=float) / (s["x0"] + math.sqrt(nn_of(s)))


def half_surd(s):
    return np.append(qv(s["h"]), math.sqrt(nn_of(s)) / s["den"])


def mink(u, v):
    return (u * v).sum(-1) - 2 * u[..., 0] * v[..., 0]


class Reporter:
    """at most MAXV violations per clause and family"""

    def __init__(self, run, fam):
        self.run, self.fam, self.count = run, fam, {}

    def __call__(self, clause, case_key, detail):
        k = self.count.get(clause, 0)
        self.count[clause] = k + 1
        if k < MAXV:
            self.run.violation("%s:%s:%s" % (self.fam, case_key, clause), clause, detail)

    def mask(self, bad, clause, keys, detail):
        for i in np.nonzero(np.asarray(bad))[0][:MAXV]:
            self(clause, keys[i], detail(int(i)))


def fl(x):
    x = np.asarray(x, dtype=float)
    return x.tolist()


# ----------------------------------------------------------------------------------------
# TLC
# ----------------------------------------------------------------------------------------
def parse_model_names(stdout):
    """table ModelNames of the specification: model -> names of the enum members denoting it"""
    for line in stdout.splitlines():
        if line.startswith('"MODELNAMES '):
            t = json.loads(json.loads(line)[len("MODELNAMES "):])
            return {k: list(v) for k, v in t.items()}
    raise core.MachineryFailure("no MODELNAMES table printed by HypCircleCases.tla")


def tlc_cases(run, plan, parallel, workers):
    """one TLC run per dimension (run concurrently); returns {n: {family: [CASE records]}}"""
    def one(p):
        c = core.cfg(constants=dict(N=p["n"], B=p["B"], Kinds=set(p["kinds"]), CoefMax=p.get("coef", 2), NearM=set(p.get("near", (10,))),
                                    Bx=p.get("bx", 3), Bw=p.get("bw", 2), Bs=p.get("bs", p["B"]), Thin=p.get("thin", 1)),
                     invariants=INVARIANTS)
        wd = os.path.join(run.work, "HypCircleCases_n%d" % p["n"])
        return core.run_tlc(os.path.join(core.SPEC, "hyp/HypCircleCases.tla"), c, wd, workers=workers, seed=run.seed, emit_prefix="CASE ")
    with concurrent.futures.ThreadPoolExecutor(max_workers=parallel) as ex:
        res = list(ex.map(one, plan))          # MachineryFailure propagates
    out = {}
    for p, r in zip(plan, res):                # deterministic bookkeeping order
        run.states += r.distinct
        run.transitions += r.generated
        d = r.as_dict()
        d["module"] = "spec/hyp/HypCircleCases.tla"
        d["run"] = "HypCircleCases_n%d" % p["n"]
        d["constants"] = {k: (sorted(v) if isinstance(v, (list, tuple, set)) else v) for k, v in p.items()}
        run.tlc_runs.append(d)
        if "names" not in out:
            out["names"] = parse_model_names(r.stdout)
        fams = {}
        for e in r.emits:
            fams.setdefault(e["kind"], []).append(e)
        for k in fams:
            fams[k].sort(key=lambda e: json.dumps(e, sort_keys=True))
        for need in p["kinds"]:
            if not fams.get(need):
                raise core.MachineryFailure("no %s cases emitted for n=%d (vacuous run)" % (need, p["n"]))
        out[p["n"]] = fams
    return out


# ----------------------------------------------------------------------------------------
# configurations: composite shapes and number packagings of the same data
# ----------------------------------------------------------------------------------------
def grid_shapes(K):
    """shapes of composite objects: a square grid (N, N), a row (1, N), a column (N, 1), a 3-d block"""
    m = min(int(math.isqrt(K)), 7)
    out = []
    if m >= 2:
        out += [(m, m), (1, m), (m, 1)]
    if K >= 12:
        out.append((2, 3, 2))
    return out


PACKS = ("int64", "int32", "nested lists of ints", "Point of ints")


def pack(H, a, how):
    """the integer array a in another packaging (the entries are small integers, exactly representable everywhere)"""
    if how == "int64":
        return a.astype(np.int64)
    if how == "int32":
        return a.astype(np.int32)
    if how == "nested lists of ints":
        return a.astype(np.int64).tolist()
    if how == "Point of ints":
        return H.Point(a.astype(np.int64))
    raise KeyError(how)


def config_pass(run, rep, H, label, keys, data, build, query, names, rng, tol=1e-9):
    """data: tuple of integer-valued float arrays (K, ...) from which build(tuple) makes the library object; query(obj) -> tuple
    of arrays with leading axis K.  The same cases arranged in grids, and given as integer arrays / lists / Point objects,
    must report the same numbers as the flat float64 object (whose values are compared with the specification elsewhere)."""
    K = len(keys)
    if K < 4:
        return
    try:
        with np.errstate(all="ignore"):
            ref = [np.asarray(x, float) for x in query(build(tuple(d.copy() for d in data)))]
    except Exception as ex:
        rep("raised:%s.config.reference" % label, keys[0], dict(error="%s: %s" % (type(ex).__name__, ex)))
        return

    def compare(kind, what, got, idx, shape):
        cnt = len(idx)
        for nm, g, r in zip(names, got, ref):
            g = np.asarray(g, float)
            want_shape = tuple(shape) + r.shape[1:]
            if g.shape != want_shape:
                rep("%s.%s.%s_shape" % (label, kind, nm), "%s:%s" % (keys[idx[0]], what), dict(configuration=what, got=g.shape, want=want_shape))
                return
            g = g.reshape((cnt,) + r.shape[1:])
            rr = r[idx]
            with np.errstate(all="ignore"):
                bad = ~(np.isclose(g, rr, rtol=tol, atol=tol, equal_nan=True) | (~np.isfinite(g) & ~np.isfinite(rr)))
            bad = bad.reshape(cnt, -1).any(-1)
            for i in np.nonzero(bad)[0][:MAXV]:
                rep("%s.%s.%s" % (label, kind, nm), "%s:%s" % (keys[idx[i]], what),
                    dict(configuration=what, position=[int(x) for x in np.unravel_index(i, shape)], got=fl(g[i]), flat_float64_object=fl(rr[i])))
    for shape in grid_shapes(K):
        cnt = int(np.prod(shape))
        idx = np.arange(cnt)
        what = "composite shape %r" % (shape,)
        try:
            with np.errstate(all="ignore"):
                got = query(build(tuple(d[:cnt].reshape(tuple(shape) + d.shape[1:]).copy() for d in data)))
            compare("shape", what, got, idx, shape)
        except Exception as ex:
            rep("raised:%s.shape" % label, "%s:%s" % (keys[0], what), dict(configuration=what, error="%s: %s" % (type(ex).__name__, ex)))
        run.evaluations += cnt
    integral = all(np.array_equal(d, np.round(d)) and np.abs(d).max() < 2 ** 24 for d in data)
    if integral:
        idx = np.array(sorted(rng.sample(range(K), min(K, 200))))
        for how in PACKS:
            what = "data given as %s" % how
            try:
                with np.errstate(all="ignore"):
                    got = query(build(tuple(pack(H, d[idx], how) for d in data)))
                compare("packaging", what, got, idx, (len(idx),))
            except Exception as ex:
                rep("raised:%s.packaging" % label, "%s:%s" % (keys[idx[0]], what), dict(configuration=what, error="%s: %s" % (type(ex).__name__, ex)))
            run.evaluations += len(idx)
    run.actions["configurations (%s)" % label] = run.actions.get("configurations (%s)" % label, 0) + 1


# ----------------------------------------------------------------------------------------
# circles of segments and geodesics
# ----------------------------------------------------------------------------------------
def arc_points(c, r, th, ts):
    """points of the counter-clockwise arc from th[...,0] to th[...,1] at the fractions ts; shape (K, len(ts), 2)"""
    d = np.mod(th[..., 1] - th[..., 0], 2 * np.pi)
    ang = th[..., 0, None] + d[..., None] * ts[None, :]
    return c[:, None, :] + r[:, None, None] * np.stack([np.cos(ang), np.sin(ang)], axis=-1)


def check_circle(rep, H, label, n, model, keys, out, exp, both_degrees=None):
    """out = (centre, radius, thetas) of the library for K cases; exp = dict of spec arrays:
    c (K,n), r (K,), straight (K,) bool, e1, e2 (K,n) expected points at thetas[0], thetas[1] (or None),
    tol1, tol2 (K,) tolerances of those points, k1, k2 (K,n) Klein coordinates of the two end points."""
    M = H.Model
    K = len(keys)
    try:
        c, r, th = out
        c, r, th = np.asarray(c, float), np.asarray(r, float), np.asarray(th, float)
    except Exception as ex:
        rep("raised:%s" % label, keys[0], dict(error="%s: %s" % (type(ex).__name__, ex)))
        return
    if c.shape != (K, n) or r.shape != (K,) or th.shape != (K, 2):
        rep("%s.shape" % label, keys[0], dict(centre=c.shape, radius=r.shape, thetas=th.shape, cases=K, n=n))
        return
    st = exp["straight"]
    ns = ~st
    scale = np.maximum(1.0, exp["r"])
    if exp.get("scale") is not None:
        scale = np.maximum(scale, exp["scale"])
    # straight-line limit: the only requirement is that the drawing code falls back to a straight line
    with np.errstate(all="ignore"):
        bad = st & np.isfinite(r) & (r <= RADIUS_THRESHOLD)
    rep.mask(bad, "%s.straight_line_limit" % label, keys,
             lambda i: dict(model=model, radius=float(r[i]), centre=fl(c[i]), note="geodesic through the origin: radius must be non-finite or above the drawing threshold"))
    with np.errstate(all="ignore"):
        ctol = exp.get("ctol", TOL)
        bad = ns & ~(np.abs(c - exp["c"]).max(-1) <= ctol * scale)
        rep.mask(bad, "%s.centre" % label, keys, lambda i: dict(model=model, lib=fl(c[i]), spec=fl(exp["c"][i])))
        bad = ns & ~(np.abs(r - exp["r"]) <= ctol * scale)
        rep.mask(bad, "%s.radius" % label, keys, lambda i: dict(model=model, lib=float(r[i]), spec=float(exp["r"][i])))
        # meets the boundary at right angles, on the library's own numbers
        if model == "poincare":
            bad = ns & ~(np.abs((c ** 2).sum(-1) - 1 - r ** 2) <= 10 * ctol * scale ** 2)
            rep.mask(bad, "%s.orthogonal_to_boundary" % label, keys, lambda i: dict(centre=fl(c[i]), radius=float(r[i])))
        else:
            bad = ns & ~(np.abs(c[:, -1]) <= np.maximum(ITOL, ctol) * scale)
            rep.mask(bad, "%s.centre_on_boundary" % label, keys, lambda i: dict(centre=fl(c[i]), radius=float(r[i])))
        # ... through the end points (all dimensions), on the library's own centre and radius
        for nm in ("q1", "q2"):
            if exp.get(nm) is not None:
                dist = np.abs(np.sqrt(((exp[nm] - c) ** 2).sum(-1)) - r)
                rep.mask(ns & ~(dist <= 3 * ctol * scale), "%s.through_endpoints" % label, keys,
                         lambda i: dict(model=model, centre=fl(c[i]), radius=float(r[i]), endpoint=fl(exp[nm][i]), distance_from_circle=float(dist[i])))
    if n != 2 or exp.get("e1") is None:
        return
    # the two reported angles are the two end points, in the order that makes the counter-clockwise arc the inside arc
    with np.errstate(all="ignore"):
        p0 = c + r[:, None] * np.stack([np.cos(th[:, 0]), np.sin(th[:, 0])], -1)
        p1 = c + r[:, None] * np.stack([np.cos(th[:, 1]), np.sin(th[:, 1])], -1)
        bad0 = ns & ~(np.abs(p0 - exp["e1"]).max(-1) <= exp["tol1"] * scale)
        bad1 = ns & ~(np.abs(p1 - exp["e2"]).max(-1) <= exp["tol2"] * scale)
        swapped = (np.abs(p0 - exp["e2"]).max(-1) <= exp["tol2"] * scale) & (np.abs(p1 - exp["e1"]).max(-1) <= exp["tol1"] * scale)
    rep.mask((bad0 | bad1) & swapped, "%s.arc_is_the_outside_arc" % label, keys,
             lambda i: dict(model=model, thetas=fl(th[i]), starts_at=fl(p0[i]), spec_start=fl(exp["e1"][i]), spec_end=fl(exp["e2"][i])))
    rep.mask((bad0 | bad1) & ~swapped, "%s.angles_are_endpoints" % label, keys,
             lambda i: dict(model=model, thetas=fl(th[i]), at_theta0=fl(p0[i]), at_theta1=fl(p1[i]), spec_start=fl(exp["e1"][i]), spec_end=fl(exp["e2"][i])))
    # every point of the reported arc is inside the model and on the hyperbolic segment
    ok = ns & ~(bad0 | bad1)
    idx = np.nonzero(ok)[0]
    if len(idx) and exp.get("k1") is not None:
        ts = (np.arange(NSAMP) + 0.5) / NSAMP
        pts = arc_points(c[idx], r[idx], th[idx], ts)
        if model == "poincare":
            inside = (pts ** 2).sum(-1) < 1
        else:
            inside = pts[..., 1] > 0
        binside = ~inside.all(-1)
        rep.mask(binside, "%s.arc_inside_model" % label, [keys[i] for i in idx], lambda j: dict(model=model, thetas=fl(th[idx[j]]), samples=fl(pts[j])))
        good = ~binside
        if good.any():
            try:
                kl = np.asarray(H.Point(pts[good].copy(), model=M.POINCARE if model == "poincare" else M.HALFSPACE).coords(M.KLEIN), float)
                a, b = exp["k1"][idx][good][:, None, :], exp["k2"][idx][good][:, None, :]
                d = b - a
                lam = ((kl - a) * d).sum(-1) / (d * d).sum(-1)
                off = np.abs(kl - a - lam[..., None] * d).max(-1)
                sc = scale[idx][good][:, None]
                # the chord parameter of a point known to 1e-8 on a chord of Klein length |d| is known to 1e-8 / |d|
                lsc = sc * np.maximum(1.0, 1e-3 / np.sqrt((d * d).sum(-1)))
                ctl = np.maximum(CHORD_TOL, 3 * np.broadcast_to(np.asarray(ctol, float), (K,))[idx][good][:, None])   # accuracy of the circle itself
                badseg = ~((off <= ctl * sc) & (lam >= -ctl * lsc) & (lam <= 1 + ctl * lsc)).all(-1)
                gk = [keys[i] for i in idx[good]]
                rep.mask(badseg, "%s.arc_on_segment" % label, gk, lambda j: dict(model=model, chord_parameter=fl(lam[j]), distance_from_chord=fl(off[j])))
            except Exception as ex:
                rep("raised:%s.arc_to_klein" % label, keys[idx[0]], dict(error="%s: %s" % (type(ex).__name__, ex)))
    # degrees: same circle, angles in degrees
    if both_degrees is not None:
        try:
            cd, rd, thd = both_degrees
            cd, rd, thd = np.asarray(cd, float), np.asarray(rd, float), np.asarray(thd, float)
            with np.errstate(all="ignore"):
                bad = ns & ~((np.abs(cd - c).max(-1) <= 1e-12 * scale) & (np.abs(rd - r) <= 1e-12 * scale)
                             & (np.abs(np.cos(np.radians(thd)) - np.cos(th)).max(-1) <= 1e-9) & (np.abs(np.sin(np.radians(thd)) - np.sin(th)).max(-1) <= 1e-9)
                             & (np.abs(thd).max(-1) <= 360 + 1e-9))
            rep.mask(bad, "%s.degrees" % label, keys, lambda i: dict(model=model, radians=fl(th[i]), degrees=fl(thd[i])))
        except Exception as ex:
            rep("raised:%s.degrees" % label, keys[0], dict(error="%s: %s" % (type(ex).__name__, ex)))


def seg_key(e):
    return "n=%d:U=%s:V=%s:a=%s:b=%s" % (e["n"], e["U"], e["V"], e["a"], e["b"])


def replay_segments(run, n, cases, rng, fam, maker=None):
    H = hyp()
    M = H.Model
    rep = Reporter(run, fam)
    K = len(cases)
    keys = [seg_key(e) for e in cases]
    P1 = np.array([e["P1"] for e in cases], float)
    P2 = np.array([e["P2"] for e in cases], float)
    ku, kv = np.array([qv(e["ku"]) for e in cases]), np.array([qv(e["kv"]) for e in cases])
    k1, k2 = np.array([qv(e["k1"]) for e in cases]), np.array([qv(e["k2"]) for e in cases])
    st = np.array([e["straight"] for e in cases])
    id1 = np.array([nn_of(e["p1"]) == 0 for e in cases])
    id2 = np.array([nn_of(e["p2"]) == 0 for e in cases])
    pp1 = np.array([poincare_surd(e["p1"]) for e in cases])
    pp2 = np.array([poincare_surd(e["p2"]) for e in cases])
    pc = np.array([qv(e["pc"]) if not e["straight"] else np.full(n, np.nan) for e in cases])
    pr = np.array([math.sqrt(q(e["pr2"])) if not e["straight"] else np.nan for e in cases])
    first = np.array([e["pfirst"] for e in cases])
    gfirst = np.array([e["pgfirst"] for e in cases])
    # the library finds the ideal end points (and everything derived from them) from the two end points: conditioned
    # like 1 / (Klein length)^2; square-root conditioned where conformal coordinates of the ideal points enter
    klen = np.sqrt(((k1 - k2) ** 2).sum(-1))
    ktol = np.maximum(TOL, 10 * np.finfo(float).eps / klen ** 2)
    stol = np.maximum(ITOL, 3 * np.sqrt(ktol))

    def mk(cls, idx, shape=None):
        """the library object for the cases idx (index array or single index), optionally arranged in a grid"""
        if maker is not None:
            return maker(cls, idx, shape)
        a_, b_ = P1[idx].copy(), P2[idx].copy()
        if shape is not None:
            a_, b_ = a_.reshape(tuple(shape) + (n + 1,)), b_.reshape(tuple(shape) + (n + 1,))
        return getattr(H, cls)(a_, b_)
    try:
        seg = mk("Segment", np.arange(K))
    except Exception as ex:
        rep("raised:Segment", keys[0], dict(error="%s: %s" % (type(ex).__name__, ex)))
        return
    run.evaluations += K
    run.traces += K
    run.nontrivial_count += K
    run.actions[fam] = run.actions.get(fam, 0) + K

    # --- ideal end points: {u, v}, lightlike, on the Klein line of the end points
    def unordered(got, a, b, tol):
        e_same = np.maximum(np.abs(got[:, 0] - a).max(-1), np.abs(got[:, 1] - b).max(-1))
        e_swap = np.maximum(np.abs(got[:, 0] - b).max(-1), np.abs(got[:, 1] - a).max(-1))
        return ~(np.minimum(e_same, e_swap) <= tol)
    try:
        with np.errstate(all="ignore"):
            ik = np.asarray(seg.ideal_endpoint_coords(M.KLEIN), float)
            if ik.shape != (K, 2, n):
                rep("ideal_endpoints.shape", keys[0], dict(got=ik.shape, want=(K, 2, n)))
            else:
                rep.mask(unordered(ik, ku, kv, ktol), "ideal_endpoints.klein", keys, lambda i: dict(lib=fl(ik[i]), spec=[fl(ku[i]), fl(kv[i])]))
                ek = np.asarray(seg.endpoint_coords(M.KLEIN), float)
                d = ik[:, 1] - ik[:, 0]
                for j in (0, 1):
                    w = ek[:, j] - ik[:, 0]
                    off = np.abs(w - ((w * d).sum(-1) / (d * d).sum(-1))[:, None] * d).max(-1)
                    rep.mask(~(off <= ktol), "ideal_endpoints.collinear_with_endpoints", keys, lambda i: dict(ideal=fl(ik[i]), endpoints=fl(ek[i])))
            ip = np.asarray(seg.ideal_endpoint_coords(M.PROJECTIVE), float)
            res = np.abs(mink(ip, ip)) / (ip ** 2).sum(-1)
            rep.mask(~(res <= ktol[:, None]).all(-1), "ideal_endpoints.lightlike", keys, lambda i: dict(lib=fl(ip[i]), relative_norm=fl(res[i])))
            ipo = np.asarray(seg.ideal_endpoint_coords(M.POINCARE), float)
            rep.mask(unordered(ipo, ku, kv, stol), "ideal_endpoints.poincare", keys, lambda i: dict(lib=fl(ipo[i]), spec=[fl(ku[i]), fl(kv[i])]))
            if ik.shape == (K, 2, n):
                dflt = np.asarray(seg.ideal_endpoint_coords(), float)
                rep.mask(~(np.abs(dflt - ik).max((-1, -2)) <= 1e-12), "ideal_endpoints.default_model_is_klein", keys, lambda i: dict(lib=fl(dflt[i]), klein=fl(ik[i])))
    except Exception as ex:
        rep("raised:ideal_endpoint_coords", keys[0], dict(error="%s: %s" % (type(ex).__name__, ex)))

    # --- Poincare ball
    e1 = np.where((first == 1)[:, None], pp1, pp2)
    e2 = np.where((first == 1)[:, None], pp2, pp1)
    t1 = np.where(np.where(first == 1, id1, id2), stol, ktol)
    t2 = np.where(np.where(first == 1, id2, id1), stol, ktol)
    exp = dict(c=pc, r=pr, straight=st, e1=e1 if n == 2 else None, e2=e2, tol1=t1, tol2=t2, k1=k1, k2=k2, q1=pp1, q2=pp2, ctol=ktol)
    try:
        with np.errstate(all="ignore"):
            out = seg.circle_parameters(model=M.POINCARE, degrees=False)
            outd = seg.circle_parameters(model=M.POINCARE, degrees=True)
            outdef = seg.circle_parameters()
        check_circle(rep, H, "segment.poincare", n, "poincare", keys, out, exp, both_degrees=outd)
        with np.errstate(all="ignore"):
            same = all(np.array_equal(np.asarray(x), np.asarray(y), equal_nan=True) for x, y in zip(outd, outdef))
        if not same:
            rep("segment.defaults", keys[0], dict(note="circle_parameters() differs from circle_parameters(degrees=True, model=POINCARE)"))
        with np.errstate(all="ignore"):
            sc, sr = seg.sphere_parameters(M.POINCARE)
        check_circle(rep, H, "segment.sphere_parameters.poincare", n, "poincare", keys, (sc, sr, np.zeros((K, 2))), dict(exp, e1=None))
    except Exception as ex:
        rep("raised:segment.circle_parameters.poincare", keys[0], dict(error="%s: %s" % (type(ex).__name__, ex)))
    # the geodesic of the segment: the whole inside arc between the ideal end points
    ge1 = np.where((gfirst == 1)[:, None], ku, kv)
    ge2 = np.where((gfirst == 1)[:, None], kv, ku)
    gexp = dict(c=pc, r=pr, straight=st, e1=ge1 if n == 2 else None, e2=ge2, tol1=stol, tol2=stol, k1=ku, k2=kv, q1=ku, q2=kv, ctol=ktol)
    try:
        with np.errstate(all="ignore"):
            geo = seg.geodesic()
            out = geo.circle_parameters(model=M.POINCARE, degrees=False)
            outd = geo.circle_parameters(model=M.POINCARE, degrees=True)
        check_circle(rep, H, "geodesic_of_segment.poincare", n, "poincare", keys, out, gexp, both_degrees=outd)
    except Exception as ex:
        rep("raised:geodesic.circle_parameters.poincare", keys[0], dict(error="%s: %s" % (type(ex).__name__, ex)))
    # Geodesic objects built directly from two ideal points
    both = np.nonzero(id1 & id2)[0]
    if len(both):
        sub = lambda a: a[both]
        try:
            with np.errstate(all="ignore"):
                geo = mk("Geodesic", both)
                out = geo.circle_parameters(model=M.POINCARE, degrees=False)
                outd = geo.circle_parameters(model=M.POINCARE, degrees=True)
            check_circle(rep, H, "geodesic.poincare", n, "poincare", [keys[i] for i in both], out,
                         dict(c=sub(pc), r=sub(pr), straight=sub(st), e1=sub(e1) if n == 2 else None, e2=sub(e2), tol1=sub(t1), tol2=sub(t2),
                              k1=sub(k1), k2=sub(k2)), both_degrees=outd)
        except Exception as ex:
            rep("raised:Geodesic.circle_parameters.poincare", keys[both[0]], dict(error="%s: %s" % (type(ex).__name__, ex)))

    # --- half-space
    hs = np.nonzero(np.array([e["hs"] for e in cases]))[0]
    if len(hs):
        hk = [keys[i] for i in hs]
        hcs = [cases[i] for i in hs]
        Kh = len(hs)
        hc = np.array([qv(e["hc"]) for e in hcs])
        hr = np.array([math.sqrt(q(e["hr2"])) for e in hcs])
        hu, hv = np.array([qv(e["hu"]) for e in hcs]), np.array([qv(e["hv"]) for e in hcs])
        h1, h2 = np.array([half_surd(e["h1"]) for e in hcs]), np.array([half_surd(e["h2"]) for e in hcs])
        hf = np.array([e["hfirst"] for e in hcs])
        hg = np.array([e["hgfirst"] for e in hcs])
        f1 = np.where((hf == 1)[:, None], h1, h2)
        f2 = np.where((hf == 1)[:, None], h2, h1)
        # the library finds the half-space circle from half-space coordinates of the IDEAL end points
        ht1 = ht2 = stol[hs]
        nost = np.zeros(Kh, bool)
        # conformal factor of the half-space chart at the ideal end points (grows towards the point at infinity): the
        # boundary-conditioned error of the library's ideal points is magnified by it
        hscale = np.maximum(1 + (hu ** 2).sum(-1), 1 + (hv ** 2).sum(-1)) / 2
        hexp = dict(c=hc, r=hr, straight=nost, e1=f1 if n == 2 else None, e2=f2, tol1=ht1, tol2=ht2, k1=k1[hs], k2=k2[hs], ctol=stol[hs], q1=h1, q2=h2, scale=hscale)
        try:
            segh = mk("Segment", hs)
            with np.errstate(all="ignore"):
                ih = np.asarray(segh.ideal_endpoint_coords(M.HALFSPACE), float)
                rep.mask(unordered(ih, hu, hv, stol[hs] * hscale), "ideal_endpoints.halfspace", hk, lambda i: dict(lib=fl(ih[i]), spec=[fl(hu[i]), fl(hv[i])]))
                out = segh.circle_parameters(model=M.HALFSPACE, degrees=False)
                outd = segh.circle_parameters(model=M.HALFSPACE, degrees=True)
            check_circle(rep, H, "segment.halfspace", n, "halfspace", hk, out, hexp, both_degrees=outd)
            with np.errstate(all="ignore"):
                sc_, sr_ = segh.sphere_parameters(M.HALFSPACE)
            check_circle(rep, H, "segment.sphere_parameters.halfspace", n, "halfspace", hk, (sc_, sr_, np.zeros((Kh, 2))), dict(hexp, e1=None))
            g1 = np.where((hg == 1)[:, None], hu, hv)
            g2 = np.where((hg == 1)[:, None], hv, hu)
            with np.errstate(all="ignore"):
                geo = segh.geodesic()
                out = geo.circle_parameters(model=M.HALFSPACE, degrees=False)
                outd = geo.circle_parameters(model=M.HALFSPACE, degrees=True)
            check_circle(rep, H, "geodesic_of_segment.halfspace", n, "halfspace", hk, out,
                         dict(c=hc, r=hr, straight=nost, e1=g1 if n == 2 else None, e2=g2, tol1=stol[hs], tol2=stol[hs],
                              k1=ku[hs], k2=kv[hs], ctol=stol[hs], q1=hu, q2=hv, scale=hscale), both_degrees=outd)
        except Exception as ex:
            rep("raised:segment.circle_parameters.halfspace", hk[0], dict(error="%s: %s" % (type(ex).__name__, ex)))
        run.evaluations += Kh

    # --- the same objects as a 2-d composite and as unit objects: identical numbers
    try:
        with np.errstate(all="ignore"):
            flat = seg.circle_parameters(model=M.POINCARE, degrees=False)
            K2 = (K // 3) * 3
            if K2 >= 6:
                seg2 = mk("Segment", np.arange(K2), (K2 // 3, 3))
                o2 = seg2.circle_parameters(model=M.POINCARE, degrees=False)
                shapes = [np.asarray(x).shape for x in o2]
                if shapes != [(K2 // 3, 3, n), (K2 // 3, 3), (K2 // 3, 3, 2)]:
                    rep("segment.composite_shape", keys[0], dict(got=shapes))
                else:
                    for nm, a, b in zip(("centre", "radius", "thetas"), o2, flat):
                        a = np.asarray(a, float).reshape((K2,) + np.asarray(b).shape[1:])
                        b = np.asarray(b, float)[:K2]
                        bad = ~(np.isclose(a, b, rtol=1e-12, atol=1e-12, equal_nan=True) | (~np.isfinite(a) & ~np.isfinite(b)))
                        bad = bad.reshape(K2, -1).any(-1) & ~st[:K2]
                        rep.mask(bad, "segment.composite_%s" % nm, keys[:K2], lambda i: dict(flat=fl(b[i]), grid=fl(a[i])))
            units = rng.sample(range(K), min(K, 25))
            for i in units:
                s1 = mk("Segment", i)
                for model, mm in (("poincare", M.POINCARE), ("halfspace", M.HALFSPACE)):
                    if model == "halfspace" and not cases[i]["hs"]:
                        continue
                    o1 = s1.circle_parameters(model=mm, degrees=False)
                    ob = seg.circle_parameters(model=mm, degrees=False) if model == "halfspace" else flat
                    shapes = [np.asarray(x).shape for x in o1]
                    if shapes != [(n,), (), (2,)]:
                        rep("segment.unit_shape", keys[i], dict(got=shapes))
                        continue
                    if st[i] and model == "poincare":
                        continue
                    for nm, a, b in zip(("centre", "radius", "thetas"), o1, ob):
                        if not np.allclose(np.asarray(a, float), np.asarray(b, float)[i], rtol=1e-12, atol=1e-12):
                            rep("segment.unit_%s" % nm, keys[i], dict(model=model, unit=fl(a), composite=fl(np.asarray(b)[i])))
                run.evaluations += 1
    except Exception as ex:
        rep("raised:segment.shapes", keys[0], dict(error="%s: %s" % (type(ex).__name__, ex)))
    if maker is None:
        # composite shapes and packagings of the end point data (non-straight cases: NaN / inf patterns are free there)
        ok = np.nonzero(~st)[0]

        def q_seg(o):
            with np.errstate(all="ignore"):
                return tuple(o.circle_parameters(model=M.POINCARE, degrees=False)) + (o.ideal_endpoint_coords(M.KLEIN),) + tuple(o.sphere_parameters(M.POINCARE))
        config_pass(run, rep, H, "segment", [keys[i] for i in ok], (P1[ok], P2[ok]), lambda d: H.Segment(d[0], d[1]), q_seg,
                    ("centre", "radius", "thetas", "ideal_endpoints", "sphere_centre", "sphere_radius"), rng)
        okh = np.array([i for i in ok if cases[i]["hs"]], int)
        if len(okh):
            def q_segh(o):
                with np.errstate(all="ignore"):
                    return tuple(o.circle_parameters(model=M.HALFSPACE, degrees=False))
            config_pass(run, rep, H, "segment.halfspace", [keys[i] for i in okh], (P1[okh], P2[okh]), lambda d: H.Segment(d[0], d[1]), q_segh,
                        ("centre", "radius", "thetas"), rng, tol=1e-7)
        # geodesics given by arbitrary representatives of their two ideal points: the primitive integer vectors of the
        # specification (unequal time coordinates), and independently rescaled ones
        if len(both):
            raw1 = np.array([cases[i]["U"] if cases[i]["a"][0] != 0 else cases[i]["V"] for i in both], float)
            raw2 = np.array([cases[i]["V"] if cases[i]["a"][0] != 0 else cases[i]["U"] for i in both], float)
            sub = lambda a: a[both]
            gx = dict(c=sub(pc), r=sub(pr), straight=sub(st), e1=sub(e1) if n == 2 else None, e2=sub(e2), tol1=sub(t1), tol2=sub(t2), k1=sub(k1), k2=sub(k2),
                      q1=sub(pp1), q2=sub(pp2))
            f1 = np.array([rng.choice(SCALES) for _ in both])
            f2 = np.array([rng.choice(SCALES) for _ in both])
            for lab, a_, b_ in (("primitive", raw1, raw2), ("rescaled", raw1 * f1[:, None], raw2 * f2[:, None])):
                gk = ["%s:%s representatives" % (keys[i], lab) for i in both]
                try:
                    with np.errstate(all="ignore"):
                        geo = H.Geodesic(a_.copy(), b_.copy())
                        out = geo.circle_parameters(model=M.POINCARE, degrees=False)
                    check_circle(rep, H, "geodesic.%s_representatives.poincare" % lab, n, "poincare", gk, out, gx)
                    with np.errstate(all="ignore"):
                        sub_ = H.Subspace(np.stack([a_, b_], axis=-2))
                        sc_, sr_ = sub_.sphere_parameters(M.POINCARE)
                    check_circle(rep, H, "subspace_of_two_ideal_points.%s_representatives.poincare" % lab, n, "poincare", gk, (sc_, sr_, np.zeros((len(both), 2))), dict(gx, e1=None))
                    bh = np.array([j for j, i in enumerate(both) if cases[i]["hs"]], int)
                    if len(bh):
                        hsel = np.array([np.nonzero(hs == both[j])[0][0] for j in bh])
                        with np.errstate(all="ignore"):
                            out = H.Geodesic(a_[bh].copy(), b_[bh].copy()).circle_parameters(model=M.HALFSPACE, degrees=False)
                        check_circle(rep, H, "geodesic.%s_representatives.halfspace" % lab, n, "halfspace", [gk[j] for j in bh], out,
                                     {k_: (v_[hsel] if isinstance(v_, np.ndarray) else v_) for k_, v_ in hexp.items()})
                    run.evaluations += len(both)
                except Exception as ex:
                    rep("raised:geodesic.%s_representatives" % lab, gk[0], dict(error="%s: %s" % (type(ex).__name__, ex)))
    mid = cases[K // 2]
    run.sample(dict(kind="%s case (n=%d)" % (fam, n), U=mid["U"], V=mid["V"], endpoints=[mid["P1"], mid["P2"]], poincare_centre=mid["pc"],
                    poincare_radius_sq=mid["pr2"], arc_starts_at_endpoint=mid["pfirst"], halfspace_centre=mid["hc"], halfspace_radius_sq=mid["hr2"]))


# ----------------------------------------------------------------------------------------
# variants of the same cases: spellings of the model, histories with item assignment, other representatives
# ----------------------------------------------------------------------------------------
SCALES = (-3.0, -1.0, -0.5, 1.0 / 3, 2.0)      # spec: a unit is a projective class, Rescale(unit, c) is a stuttering step


def spellings(H, names, model):
    """every accepted way of naming `model` (spec table ModelNames): the enum members incl. aliases and their
    names as strings in several letter cases"""
    out = []
    for nm in sorted(names[model]):
        out.append(getattr(H.Model, nm))
        out += [nm.lower(), nm.upper(), nm.capitalize(), nm[0].lower() + nm[1:].upper()]
    return out


def same_arrays(a, b):
    a = a if isinstance(a, (tuple, list)) else (a,)
    b = b if isinstance(b, (tuple, list)) else (b,)
    if len(a) != len(b):
        return False
    for x, y in zip(a, b):
        x, y = np.asarray(x, float), np.asarray(y, float)
        if x.shape != y.shape or not np.array_equal(x, y, equal_nan=True):
            return False
    return True


def spelling_pass(rep, H, names, label, key, obj, calls):
    """calls: list of (name, canonical model key, function(obj, model_argument)); the result for every spelling
    of the model must be the result for the canonical enum member"""
    n_eval = 0
    for cname, model, fn in calls:
        try:
            with np.errstate(all="ignore"):
                ref = fn(obj, getattr(H.Model, model.upper()))
        except Exception as ex:
            rep("raised:%s.%s" % (label, cname), key, dict(model=model, error="%s: %s" % (type(ex).__name__, ex)))
            continue
        for sp in spellings(H, names, model):
            n_eval += 1
            try:
                with np.errstate(all="ignore"):
                    got = fn(obj, sp)
                ok = same_arrays(got, ref)
                det = dict(model_argument=repr(sp), canonical=model)
            except Exception as ex:
                ok, det = False, dict(model_argument=repr(sp), canonical=model, error="%s: %s" % (type(ex).__name__, ex))
            if not ok:
                if not isinstance(det.get("error"), str):
                    g0 = np.asarray(got[-1] if isinstance(got, (tuple, list)) else got, float)
                    r0 = np.asarray(ref[-1] if isinstance(ref, (tuple, list)) else ref, float)
                    bad = np.nonzero(~np.isclose(g0, r0, equal_nan=True).reshape(len(g0), -1).all(-1))[0] if g0.shape == r0.shape and g0.ndim else []
                    if len(bad):
                        det.update(index=int(bad[0]), with_spelling=fl(g0[bad[0]]), with_enum_member=fl(r0[bad[0]]), differing=int(len(bad)))
                rep("%s.%s.model_spelling" % (label, cname), "%s:model=%r" % (key, sp), det)
    return n_eval


def seg_arrays(cases, n):
    A = dict(
        P1=np.array([e["P1"] for e in cases], float), P2=np.array([e["P2"] for e in cases], float),
        ku=np.array([qv(e["ku"]) for e in cases]), kv=np.array([qv(e["kv"]) for e in cases]),
        k1=np.array([qv(e["k1"]) for e in cases]), k2=np.array([qv(e["k2"]) for e in cases]),
        st=np.array([e["straight"] for e in cases]),
        id1=np.array([nn_of(e["p1"]) == 0 for e in cases]), id2=np.array([nn_of(e["p2"]) == 0 for e in cases]),
        pp1=np.array([poincare_surd(e["p1"]) for e in cases]), pp2=np.array([poincare_surd(e["p2"]) for e in cases]),
        pc=np.array([qv(e["pc"]) if not e["straight"] else np.full(n, np.nan) for e in cases]),
        pr=np.array([math.sqrt(q(e["pr2"])) if not e["straight"] else np.nan for e in cases]),
        first=np.array([e["pfirst"] for e in cases]), gfirst=np.array([e["pgfirst"] for e in cases]),
        hs=np.array([e["hs"] for e in cases]))
    nanv = np.full(n, np.nan)
    A.update(
        hc=np.array([qv(e["hc"]) if e["hs"] else nanv for e in cases]),
        hr=np.array([math.sqrt(q(e["hr2"])) if e["hs"] else np.nan for e in cases]),
        hu=np.array([qv(e["hu"]) if e["hs"] else nanv for e in cases]), hv=np.array([qv(e["hv"]) if e["hs"] else nanv for e in cases]),
        h1=np.array([half_surd(e["h1"]) if e["hs"] else nanv for e in cases]), h2=np.array([half_surd(e["h2"]) if e["hs"] else nanv for e in cases]),
        hf=np.array([e["hfirst"] for e in cases]), hg=np.array([e["hgfirst"] for e in cases]))
    return A


def seg_exp(A, idx, n, model, geodesic=False):
    """expectation of check_circle for the cases idx: the segment itself, or (geodesic) the whole geodesic through it"""
    t = lambda a: a[idx]
    K = len(idx)
    if model == "poincare":
        c, r, st = t(A["pc"]), t(A["pr"]), t(A["st"])
        a, b, f = (t(A["ku"]), t(A["kv"]), t(A["gfirst"])) if geodesic else (t(A["pp1"]), t(A["pp2"]), t(A["first"]))
        ia, ib = (np.ones(K, bool), np.ones(K, bool)) if geodesic else (t(A["id1"]), t(A["id2"]))
        e1, e2 = np.where((f == 1)[:, None], a, b), np.where((f == 1)[:, None], b, a)
        t1, t2 = np.where(np.where(f == 1, ia, ib), ITOL, TOL), np.where(np.where(f == 1, ib, ia), ITOL, TOL)
        return dict(c=c, r=r, straight=st, e1=e1 if n == 2 else None, e2=e2, tol1=t1, tol2=t2,
                    k1=t(A["ku"]) if geodesic else t(A["k1"]), k2=t(A["kv"]) if geodesic else t(A["k2"]), q1=a, q2=b)
    a, b, f = (t(A["hu"]), t(A["hv"]), t(A["hg"])) if geodesic else (t(A["h1"]), t(A["h2"]), t(A["hf"]))
    e1, e2 = np.where((f == 1)[:, None], a, b), np.where((f == 1)[:, None], b, a)
    hscale = np.maximum(1 + (t(A["hu"]) ** 2).sum(-1), 1 + (t(A["hv"]) ** 2).sum(-1)) / 2
    return dict(c=t(A["hc"]), r=t(A["hr"]), straight=np.zeros(K, bool), e1=e1 if n == 2 else None, e2=e2, tol1=np.full(K, ITOL), tol2=np.full(K, ITOL),
                k1=t(A["ku"]) if geodesic else t(A["k1"]), k2=t(A["kv"]) if geodesic else t(A["k2"]), q1=a, q2=b, ctol=ITOL, scale=hscale)


def ideal_pair_bad(got, a, b, tol):
    e_same = np.maximum(np.abs(got[:, 0] - a).max(-1), np.abs(got[:, 1] - b).max(-1))
    e_swap = np.maximum(np.abs(got[:, 0] - b).max(-1), np.abs(got[:, 1] - a).max(-1))
    with np.errstate(all="ignore"):
        return ~(np.minimum(e_same, e_swap) <= tol)


def segment_variants(run, n, cases, rng, names):
    """(a) every spelling of the model argument, (b) histories query -> obj[k] = other unit -> query on composite
    Segment and Geodesic objects, (c) negative and mixed-sign homogeneous representatives"""
    H = hyp()
    M = H.Model
    rep = Reporter(run, "segment")
    A = seg_arrays(cases, n)
    keys = [seg_key(e) for e in cases]
    K = len(cases)
    allidx = np.arange(K)
    hsidx = np.nonzero(A["hs"])[0]

    # ---------- (a) spellings
    sub = hsidx[:600] if len(hsidx) else allidx[:600]
    try:
        seg = H.Segment(A["P1"][sub].copy(), A["P2"][sub].copy())
        geo = seg.geodesic()
        calls = []
        for model in ("poincare", "halfspace"):
            if model == "halfspace" and not len(hsidx):
                continue
            calls += [("circle_parameters", model, lambda o, m: o.circle_parameters(model=m, degrees=False)),
                      ("circle_parameters_degrees", model, lambda o, m: o.circle_parameters(True, m)),
                      ("sphere_parameters", model, lambda o, m: o.sphere_parameters(m)),
                      ("ideal_endpoint_coords", model, lambda o, m: o.ideal_endpoint_coords(m)),
                      ("endpoint_coords", model, lambda o, m: o.endpoint_coords(m))]
        for model in ("klein", "projective"):
            calls += [("ideal_endpoint_coords", model, lambda o, m: o.ideal_endpoint_coords(m)),
                      ("endpoint_coords", model, lambda o, m: o.endpoint_coords(model=m))]
        run.evaluations += spelling_pass(rep, H, names, "segment", "n=%d:%d segments" % (n, len(sub)), seg, calls)
        gcalls = [c for c in calls if c[0] in ("circle_parameters", "circle_parameters_degrees", "sphere_parameters", "endpoint_coords")]
        run.evaluations += spelling_pass(rep, H, names, "geodesic", "n=%d:%d geodesics" % (n, len(sub)), geo, gcalls)
        run.actions["model spellings"] = run.actions.get("model spellings", 0) + 1
    except Exception as ex:
        rep("raised:segment.spellings", keys[0], dict(error="%s: %s" % (type(ex).__name__, ex)))

    # ---------- (b) histories with item assignment
    for cls in ("Segment", "Geodesic"):
        pool = hsidx if len(hsidx) >= 20 else allidx
        if cls == "Geodesic":
            pool = pool[(A["id1"] & A["id2"])[pool]]
        if len(pool) < 4:
            continue
        L = min(len(pool), 300)
        base = pool[np.array(sorted(rng.sample(range(len(pool)), L)))]
        src = base.copy()
        half = bool(A["hs"][pool].all())
        try:
            with np.errstate(all="ignore"):
                mk = lambda i: getattr(H, cls)(A["P1"][i].copy(), A["P2"][i].copy())
                obj = mk(base)
                # query (the library may derive and keep anything it likes here)
                obj.circle_parameters(model=M.POINCARE, degrees=False)
                obj.sphere_parameters(M.POINCARE)
                if half:
                    obj.circle_parameters(model=M.HALFSPACE, degrees=False)
                    obj.sphere_parameters(M.HALFSPACE)
                if cls == "Segment":
                    obj.ideal_endpoint_coords(M.KLEIN)
                # in-place item assignment of other units
                ks = rng.sample(range(L), max(2, L // 6))
                for k in ks:
                    j = int(pool[rng.randrange(len(pool))])
                    obj[k] = mk(j)
                    src[k] = j
                hk = ["%s%s" % (keys[j], ":assigned_at=%d(was %s)" % (i, keys[base[i]]) if base[i] != j else "") for i, j in enumerate(src)]
                out = obj.circle_parameters(model=M.POINCARE, degrees=False)
                outd = obj.circle_parameters(model=M.POINCARE, degrees=True)
            check_circle(rep, H, "history.%s.poincare" % cls.lower(), n, "poincare", hk, out, seg_exp(A, src, n, "poincare"), both_degrees=outd)
            if half:
                with np.errstate(all="ignore"):
                    out = obj.circle_parameters(model=M.HALFSPACE, degrees=False)
                    outs = obj.sphere_parameters(M.HALFSPACE)
                check_circle(rep, H, "history.%s.halfspace" % cls.lower(), n, "halfspace", hk, out, seg_exp(A, src, n, "halfspace"))
                check_circle(rep, H, "history.%s.sphere_parameters.halfspace" % cls.lower(), n, "halfspace", hk, tuple(outs) + (np.zeros((L, 2)),),
                             dict(seg_exp(A, src, n, "halfspace"), e1=None))
            if cls == "Segment":
                with np.errstate(all="ignore"):
                    ik = np.asarray(obj.ideal_endpoint_coords(M.KLEIN), float)
                rep.mask(ideal_pair_bad(ik, A["ku"][src], A["kv"][src], TOL), "history.segment.ideal_endpoints", hk,
                         lambda i: dict(lib=fl(ik[i]), spec=[fl(A["ku"][src][i]), fl(A["kv"][src][i])]))
            run.evaluations += L
            run.traces += 1
            run.actions["history: query, obj[k] = unit, query (%s)" % cls] = run.actions.get("history: query, obj[k] = unit, query (%s)" % cls, 0) + len(ks)
        except Exception as ex:
            rep("raised:history.%s" % cls.lower(), keys[base[0]], dict(error="%s: %s" % (type(ex).__name__, ex)))

    # ---------- (c) other homogeneous representatives of the same end points
    sub = np.array(sorted(rng.sample(range(K), min(K, 800))))
    s1 = np.array([rng.choice(SCALES) for _ in sub])
    s2 = np.array([rng.choice(SCALES) for _ in sub])
    rk = ["%s:scaled by %g, %g" % (keys[i], a, b) for i, a, b in zip(sub, s1, s2)]
    try:
        with np.errstate(all="ignore"):
            seg = H.Segment(A["P1"][sub] * s1[:, None], A["P2"][sub] * s2[:, None])
            out = seg.circle_parameters(model=M.POINCARE, degrees=False)
            ik = np.asarray(seg.ideal_endpoint_coords(M.KLEIN), float)
        check_circle(rep, H, "rescaled.segment.poincare", n, "poincare", rk, out, seg_exp(A, sub, n, "poincare"))
        rep.mask(ideal_pair_bad(ik, A["ku"][sub], A["kv"][sub], TOL), "rescaled.segment.ideal_endpoints", rk,
                 lambda i: dict(lib=fl(ik[i]), spec=[fl(A["ku"][sub][i]), fl(A["kv"][sub][i])]))
        hsub = np.nonzero(A["hs"][sub])[0]
        if len(hsub):
            with np.errstate(all="ignore"):
                segh = H.Segment((A["P1"][sub] * s1[:, None])[hsub], (A["P2"][sub] * s2[:, None])[hsub])
                out = segh.circle_parameters(model=M.HALFSPACE, degrees=False)
            check_circle(rep, H, "rescaled.segment.halfspace", n, "halfspace", [rk[i] for i in hsub], out, seg_exp(A, sub[hsub], n, "halfspace"))
        run.evaluations += len(sub)
        run.actions["rescaled representatives"] = run.actions.get("rescaled representatives", 0) + len(sub)
    except Exception as ex:
        rep("raised:rescaled.segment", rk[0], dict(error="%s: %s" % (type(ex).__name__, ex)))


# ----------------------------------------------------------------------------------------
# horospheres
# ----------------------------------------------------------------------------------------
def horo_key(e):
    return "n=%d:U=%s:X=%s" % (e["n"], e["U"], e["X"]) + (":Y=%s" % e["Y"] if "Y" in e else "")


def replay_horospheres(run, n, cases, rng, arcs):
    H = hyp()
    M = H.Model
    fam = "horoarc" if arcs else "horosphere"
    rep = Reporter(run, fam)
    K = len(cases)
    keys = [horo_key(e) for e in cases]
    U = np.array([e["U"] for e in cases], float)
    X = np.array([e["X"] for e in cases], float)
    run.evaluations += K
    run.traces += K
    run.nontrivial_count += K
    run.actions[fam] = run.actions.get(fam, 0) + K
    try:
        if arcs:
            Y = np.array([e["Y"] for e in cases], float)
            obj = H.HorosphereArc(U.copy(), X.copy(), Y.copy())
        else:
            obj = H.Horosphere(U.copy(), X.copy())
    except Exception as ex:
        rep("raised:constructor", keys[0], dict(error="%s: %s" % (type(ex).__name__, ex)))
        return
    for model, mm in (("poincare", M.POINCARE), ("halfspace", M.HALFSPACE)):
        if model == "poincare":
            idx = np.arange(K)
            ec = np.array([qv(e["pc"]) for e in cases])
            er = np.array([q(e["pr"]) for e in cases])
            ex_ = np.array([qv(e["px"]) for e in cases])
            eu = np.array([qv(e["ku"]) for e in cases])
        else:
            idx = np.nonzero(np.array([e["hs"] for e in cases]))[0]
            if not len(idx):
                continue
            ec = np.array([qv(cases[i]["hc"]) for i in idx])
            er = np.array([q(cases[i]["hr"]) for i in idx])
            ex_ = np.array([qv(cases[i]["hx"]) for i in idx])
            eu = np.array([qv(cases[i]["hu"]) for i in idx])
        kk = [keys[i] for i in idx]
        Kc = len(idx)
        try:
            o = obj if Kc == K else (H.HorosphereArc(U[idx].copy(), X[idx].copy(), Y[idx].copy()) if arcs else H.Horosphere(U[idx].copy(), X[idx].copy()))
            with np.errstate(all="ignore"):
                c, r = H.Horosphere.sphere_parameters(o, mm) if arcs else o.sphere_parameters(mm)
                c, r = np.asarray(c, float), np.asarray(r, float)
                ref = np.asarray(o.ref_coords(mm), float)
        except Exception as ex:
            rep("raised:sphere_parameters.%s" % model, kk[0], dict(error="%s: %s" % (type(ex).__name__, ex)))
            continue
        if c.shape != (Kc, n) or r.shape != (Kc,):
            rep("sphere_parameters.%s.shape" % model, kk[0], dict(centre=c.shape, radius=r.shape))
            continue
        scale = np.maximum(1.0, er)
        if model == "halfspace":        # conformal factor of the chart at the ideal centre
            scale = np.maximum(scale, (1 + (eu ** 2).sum(-1)) / 2)
        with np.errstate(all="ignore"):
            rep.mask(~(np.abs(c - ec).max(-1) <= ITOL * scale), "horosphere.%s.centre" % model, kk, lambda i: dict(lib=fl(c[i]), spec=fl(ec[i])))
            rep.mask(~(np.abs(r - er) <= ITOL * scale), "horosphere.%s.radius" % model, kk, lambda i: dict(lib=float(r[i]), spec=float(er[i])))
            # literally: through the reference point, tangent to the boundary at the centre of the horosphere
            thr = np.abs(np.sqrt(((ref - c) ** 2).sum(-1)) - r)
            rep.mask(~(thr <= ITOL * scale), "horosphere.%s.through_reference" % model, kk, lambda i: dict(centre=fl(c[i]), radius=float(r[i]), reference=fl(ref[i])))
            rep.mask(~(np.abs(ref - ex_).max(-1) <= TOL * np.maximum(1.0, np.abs(ex_).max(-1))), "horosphere.%s.reference_coords" % model, kk,
                     lambda i: dict(lib=fl(ref[i]), spec=fl(ex_[i])))
            if model == "poincare":
                tang = np.abs(np.sqrt((c ** 2).sum(-1)) + r - 1) + np.abs(c - (1 - r)[:, None] * eu).max(-1)
            else:
                tang = np.abs(c[:, -1] - r) + np.abs(c[:, :-1] - eu[:, :-1]).max(-1)
            rep.mask(~(tang <= 2 * ITOL * scale), "horosphere.%s.tangent_at_centre" % model, kk, lambda i: dict(centre=fl(c[i]), radius=float(r[i]), ideal_centre=fl(eu[i])))
        if not arcs:
            continue
        ey = np.array([qv(cases[i]["py" if model == "poincare" else "hy"]) for i in idx])
        first = np.array([cases[i]["pfirst" if model == "poincare" else "hfirst"] for i in idx])
        e1 = np.where((first == 1)[:, None], ex_, ey)
        e2 = np.where((first == 1)[:, None], ey, ex_)
        try:
            with np.errstate(all="ignore"):
                c2, r2, th = o.circle_parameters(model=mm, degrees=False)
                cd, rd, thd = o.circle_parameters(model=mm, degrees=True)
                c2, r2, th, thd = np.asarray(c2, float), np.asarray(r2, float), np.asarray(th, float), np.asarray(thd, float)
        except Exception as ex:
            rep("raised:horoarc.circle_parameters.%s" % model, kk[0], dict(error="%s: %s" % (type(ex).__name__, ex)))
            continue
        if th.shape != (Kc, 2):
            rep("horoarc.%s.shape" % model, kk[0], dict(thetas=th.shape))
            continue
        with np.errstate(all="ignore"):
            rep.mask(~((np.abs(c2 - c).max(-1) <= 1e-12 * scale) & (np.abs(r2 - r) <= 1e-12 * scale)), "horoarc.%s.circle_is_horosphere" % model, kk,
                     lambda i: dict(arc=[fl(c2[i]), float(r2[i])], horosphere=[fl(c[i]), float(r[i])]))
            p0 = c2 + r2[:, None] * np.stack([np.cos(th[:, 0]), np.sin(th[:, 0])], -1)
            p1 = c2 + r2[:, None] * np.stack([np.cos(th[:, 1]), np.sin(th[:, 1])], -1)
            bad = ~((np.abs(p0 - e1).max(-1) <= ITOL * scale) & (np.abs(p1 - e2).max(-1) <= ITOL * scale))
            swapped = (np.abs(p0 - e2).max(-1) <= ITOL * scale) & (np.abs(p1 - e1).max(-1) <= ITOL * scale)
        rep.mask(bad & swapped, "horoarc.%s.arc_contains_ideal_centre" % model, kk, lambda i: dict(thetas=fl(th[i]), spec_start=fl(e1[i]), spec_end=fl(e2[i])))
        rep.mask(bad & ~swapped, "horoarc.%s.angles_are_endpoints" % model, kk, lambda i: dict(thetas=fl(th[i]), at_theta0=fl(p0[i]), at_theta1=fl(p1[i]),
                                                                                               spec_start=fl(e1[i]), spec_end=fl(e2[i])))
        good = np.nonzero(~bad)[0]
        if len(good):
            ts = (np.arange(NSAMP) + 0.5) / NSAMP
            pts = arc_points(c2[good], r2[good], th[good], ts)
            inside = ((pts ** 2).sum(-1) < 1) if model == "poincare" else (pts[..., 1] > 0)
            rep.mask(~inside.all(-1), "horoarc.%s.arc_inside_model" % model, [kk[i] for i in good], lambda j: dict(thetas=fl(th[good[j]]), samples=fl(pts[j])))
        with np.errstate(all="ignore"):
            badd = ~((np.abs(np.cos(np.radians(thd)) - np.cos(th)).max(-1) <= 1e-9) & (np.abs(np.sin(np.radians(thd)) - np.sin(th)).max(-1) <= 1e-9))
        rep.mask(badd, "horoarc.%s.degrees" % model, kk, lambda i: dict(radians=fl(th[i]), degrees=fl(thd[i])))
    # composite shapes (N, N), (1, N), (N, 1), ... and packagings of the data
    for model, mm in (("poincare", M.POINCARE), ("halfspace", M.HALFSPACE)):
        sel = np.arange(K) if model == "poincare" else np.nonzero(np.array([e["hs"] for e in cases]))[0]
        if len(sel) < 4:
            continue
        data = (U[sel], X[sel]) + ((Y[sel],) if arcs else ())

        def q_h(o, mm=mm):
            with np.errstate(all="ignore"):
                out = tuple(H.Horosphere.sphere_parameters(o, mm))
                if arcs:
                    out += (o.circle_parameters(model=mm, degrees=False)[2],)
                return out
        config_pass(run, rep, H, "%s.%s" % (fam, model), [keys[i] for i in sel], data,
                    (lambda d: H.HorosphereArc(d[0], d[1], d[2])) if arcs else (lambda d: H.Horosphere(d[0], d[1])), q_h,
                    ("centre", "radius") + (("thetas",) if arcs else ()), rng, tol=1e-9 if model == "poincare" else 1e-7)
    # unit objects
    for i in rng.sample(range(K), min(K, 15)):
        try:
            with np.errstate(all="ignore"):
                o1 = H.HorosphereArc(U[i].copy(), X[i].copy(), Y[i].copy()) if arcs else H.Horosphere(U[i].copy(), X[i].copy())
                c1, r1 = H.Horosphere.sphere_parameters(o1, M.POINCARE)
                if arcs:
                    for model, mm in (("poincare", M.POINCARE), ("halfspace", M.HALFSPACE)):
                        if model == "halfspace" and not cases[i]["hs"]:
                            continue
                        cu, ru, thu = o1.circle_parameters(model=mm, degrees=False)
                        thu = np.asarray(thu, float)
                        ex_, ey = (qv(cases[i]["px"]), qv(cases[i]["py"])) if model == "poincare" else (qv(cases[i]["hx"]), qv(cases[i]["hy"]))
                        first = cases[i]["pfirst" if model == "poincare" else "hfirst"]
                        e1, e2 = (ex_, ey) if first == 1 else (ey, ex_)
                        sc = max(1.0, float(ru))
                        if thu.shape != (2,):
                            rep("horoarc.unit_shape", keys[i], dict(thetas=thu.shape))
                            continue
                        p0 = np.asarray(cu, float) + float(ru) * np.array([np.cos(thu[0]), np.sin(thu[0])])
                        p1 = np.asarray(cu, float) + float(ru) * np.array([np.cos(thu[1]), np.sin(thu[1])])
                        if not (np.abs(p0 - e1).max() <= ITOL * sc and np.abs(p1 - e2).max() <= ITOL * sc):
                            rep("horoarc.unit.%s.angles" % model, keys[i], dict(thetas=fl(thu), at_theta0=fl(p0), at_theta1=fl(p1), spec_start=fl(e1), spec_end=fl(e2)))
            if np.asarray(c1).shape != (n,) or np.asarray(r1).shape != ():
                rep("horosphere.unit_shape", keys[i], dict(centre=np.asarray(c1).shape, radius=np.asarray(r1).shape))
            elif not (np.allclose(c1, qv(cases[i]["pc"]), atol=ITOL) and abs(float(r1) - q(cases[i]["pr"])) <= ITOL):
                rep("horosphere.unit_value", keys[i], dict(lib=[fl(c1), float(r1)], spec=[fl(qv(cases[i]["pc"])), q(cases[i]["pr"])]))
        except Exception as ex:
            rep("raised:horosphere.unit", keys[i], dict(error="%s: %s" % (type(ex).__name__, ex)))
        run.evaluations += 1
    mid = cases[K // 2]
    run.sample(dict(kind="%s case (n=%d)" % (fam, n), centre=mid["U"], reference=mid["X"], poincare_sphere=[mid["pc"], mid["pr"]],
                    halfspace_sphere=[mid["hc"], mid["hr"]]))


def horo_variants(run, n, cases, rng, names, arcs):
    """spellings of the model, item-assignment histories and other representatives for horospheres / arcs of horocycles"""
    H = hyp()
    M = H.Model
    fam = "horoarc" if arcs else "horosphere"
    rep = Reporter(run, fam)
    keys = [horo_key(e) for e in cases]
    pool = np.array([i for i, e in enumerate(cases) if e["hs"]])
    if len(pool) < 4:
        return
    U = np.array([e["U"] for e in cases], float)
    X = np.array([e["X"] for e in cases], float)
    Y = np.array([e["Y"] for e in cases], float) if arcs else None
    E = dict(poincare=dict(c=np.array([qv(e["pc"]) for e in cases]), r=np.array([q(e["pr"]) for e in cases]),
                           x=np.array([qv(e["px"]) for e in cases]), u=np.array([qv(e["ku"]) for e in cases])),
             halfspace=dict(c=np.array([qv(e["hc"]) if e["hs"] else np.full(n, np.nan) for e in cases]), r=np.array([q(e["hr"]) for e in cases]),
                            x=np.array([qv(e["hx"]) for e in cases]), u=np.array([qv(e["hu"]) if e["hs"] else np.full(n, np.nan) for e in cases])))
    if arcs:
        E["poincare"].update(y=np.array([qv(e["py"]) for e in cases]), f=np.array([e["pfirst"] for e in cases]))
        E["halfspace"].update(y=np.array([qv(e["hy"]) for e in cases]), f=np.array([e["hfirst"] for e in cases]))

    def mk(i, su=1.0, sx=1.0, sy=1.0):
        i = np.asarray(i)
        sc = (lambda a, f: a * (f[:, None] if np.ndim(f) else f))
        if arcs:
            return H.HorosphereArc(sc(U[i], su), sc(X[i], sx), sc(Y[i], sy))
        return H.Horosphere(sc(U[i], su), sc(X[i], sx))

    def check(label, obj, src, hk):
        for model, mm in (("poincare", M.POINCARE), ("halfspace", M.HALFSPACE)):
            e = E[model]
            with np.errstate(all="ignore"):
                c, r = H.Horosphere.sphere_parameters(obj, mm)
                c, r = np.asarray(c, float), np.asarray(r, float)
            ec, er = e["c"][src], e["r"][src]
            scale = np.maximum(1.0, er)
            if model == "halfspace":
                scale = np.maximum(scale, (1 + (e["u"][src] ** 2).sum(-1)) / 2)
            if c.shape != ec.shape or r.shape != er.shape:
                rep("%s.%s.shape" % (label, model), hk[0], dict(centre=c.shape, radius=r.shape))
                continue
            with np.errstate(all="ignore"):
                rep.mask(~(np.abs(c - ec).max(-1) <= ITOL * scale), "%s.%s.centre" % (label, model), hk, lambda i: dict(lib=fl(c[i]), spec=fl(ec[i])))
                rep.mask(~(np.abs(r - er) <= ITOL * scale), "%s.%s.radius" % (label, model), hk, lambda i: dict(lib=float(r[i]), spec=float(er[i])))
            if arcs:
                with np.errstate(all="ignore"):
                    c2, r2, th = obj.circle_parameters(model=mm, degrees=False)
                    c2, r2, th = np.asarray(c2, float), np.asarray(r2, float), np.asarray(th, float)
                    f = e["f"][src]
                    e1 = np.where((f == 1)[:, None], e["x"][src], e["y"][src])
                    e2 = np.where((f == 1)[:, None], e["y"][src], e["x"][src])
                    p0 = c2 + r2[:, None] * np.stack([np.cos(th[:, 0]), np.sin(th[:, 0])], -1)
                    p1 = c2 + r2[:, None] * np.stack([np.cos(th[:, 1]), np.sin(th[:, 1])], -1)
                    bad = ~((np.abs(p0 - e1).max(-1) <= ITOL * scale) & (np.abs(p1 - e2).max(-1) <= ITOL * scale))
                rep.mask(bad, "%s.%s.arc_angles" % (label, model), hk, lambda i: dict(thetas=fl(th[i]), at_theta0=fl(p0[i]), at_theta1=fl(p1[i]),
                                                                                      spec_start=fl(e1[i]), spec_end=fl(e2[i])))

    # (a) spellings
    sub = pool[:400]
    try:
        obj = mk(sub)
        calls = []
        for model in ("poincare", "halfspace"):
            calls.append(("sphere_parameters", model, lambda o, m: H.Horosphere.sphere_parameters(o, m)))
            calls.append(("ref_coords", model, lambda o, m: o.ref_coords(m)))
            calls.append(("center_coords", model, lambda o, m: o.center_coords(m)))
            if arcs:
                calls.append(("circle_parameters", model, lambda o, m: o.circle_parameters(model=m, degrees=False)))
                calls.append(("circle_parameters_degrees", model, lambda o, m: o.circle_parameters(m, True)))
        run.evaluations += spelling_pass(rep, H, names, fam, "n=%d:%d objects" % (n, len(sub)), obj, calls)
    except Exception as ex:
        rep("raised:%s.spellings" % fam, keys[sub[0]], dict(error="%s: %s" % (type(ex).__name__, ex)))
    # (b) history
    L = min(len(pool), 200)
    base = pool[np.array(sorted(rng.sample(range(len(pool)), L)))]
    src = base.copy()
    try:
        with np.errstate(all="ignore"):
            obj = mk(base)
            for mm in (M.POINCARE, M.HALFSPACE):
                H.Horosphere.sphere_parameters(obj, mm)
                if arcs:
                    obj.circle_parameters(model=mm)
            ks = rng.sample(range(L), max(2, L // 6))
            for k in ks:
                j = int(pool[rng.randrange(len(pool))])
                obj[k] = mk(j)
                src[k] = j
        hk = ["%s%s" % (keys[j], ":assigned_at=%d(was %s)" % (i, keys[base[i]]) if base[i] != j else "") for i, j in enumerate(src)]
        check("history.%s" % fam, obj, src, hk)
        run.evaluations += L
        run.traces += 1
        run.actions["history: query, obj[k] = unit, query (%s)" % fam] = len(ks)
    except Exception as ex:
        rep("raised:history.%s" % fam, keys[base[0]], dict(error="%s: %s" % (type(ex).__name__, ex)))
    # (c) other representatives of the ideal centre, the reference point (and the second end point)
    sub = pool[np.array(sorted(rng.sample(range(len(pool)), min(len(pool), 400))))]
    su, sx, sy = (np.array([rng.choice(SCALES) for _ in sub]) for _ in range(3))
    rk = ["%s:scaled by %g, %g%s" % (keys[i], a, b, ", %g" % c if arcs else "") for i, a, b, c in zip(sub, su, sx, sy)]
    try:
        with np.errstate(all="ignore"):
            obj = mk(sub, su, sx, sy)
        check("rescaled.%s" % fam, obj, sub, rk)
        run.evaluations += len(sub)
    except Exception as ex:
        rep("raised:rescaled.%s" % fam, rk[0], dict(error="%s: %s" % (type(ex).__name__, ex)))


def subspace_variants(run, n, cases, rng, names):
    """spellings of the model and an item-assignment history for Subspace objects with the same number of basis points"""
    H = hyp()
    M = H.Model
    rep = Reporter(run, "subspace")
    groups = {}
    for e in cases:
        if e["hs"] and not e["straight"]:
            groups.setdefault(e["k"] + 1, []).append(e)
    for m, es in sorted(groups.items()):
        if len(es) < 4:
            continue
        es = es[:200]
        keys = ["n=%d:basis=%s" % (n, e["basis"]) for e in es]
        data = np.array([e["basis"] for e in es], float)
        try:
            obj = H.Subspace(data.copy())
            calls = [("sphere_parameters", model, lambda o, mm: o.sphere_parameters(mm)) for model in ("poincare", "halfspace")]
            calls += [("ideal_basis_coords", model, lambda o, mm: o.ideal_basis_coords(mm)) for model in ("poincare", "halfspace", "klein")]
            run.evaluations += spelling_pass(rep, H, names, "subspace", keys[0], obj, calls)
            src = list(range(len(es)))
            with np.errstate(all="ignore"):
                obj.sphere_parameters(M.POINCARE)
                obj.sphere_parameters(M.HALFSPACE)
                for k in rng.sample(range(len(es)), max(2, len(es) // 6)):
                    j = rng.randrange(len(es))
                    obj[k] = H.Subspace(data[j].copy())
                    src[k] = j
                pc, pr = obj.sphere_parameters(M.POINCARE)
                hc, hr = obj.sphere_parameters(M.HALFSPACE)
            for i, j in enumerate(src):
                key = keys[j] + (":assigned_at=%d" % i if i != j else "")
                check_subspace(rep, "history.subspace", key, n, es[j], (np.asarray(pc)[i], np.asarray(pr)[i]), (np.asarray(hc)[i], np.asarray(hr)[i]), None)
            run.evaluations += len(es)
            run.traces += 1
        except Exception as ex:
            rep("raised:subspace.variants", keys[0], dict(error="%s: %s" % (type(ex).__name__, ex)))


# ----------------------------------------------------------------------------------------
# subspaces and hyperplanes
# ----------------------------------------------------------------------------------------
def contains(rep, label, key, c, r, pts, tol, extra, conformal=False):
    c, r = np.asarray(c, float), float(r)
    with np.errstate(all="ignore"):
        d = np.abs(np.sqrt(((pts - c) ** 2).sum(-1)) - r)
        sc = max(1.0, r)
        if conformal:               # half-space chart: conformal factor at the ideal points
            sc = max(sc, float((1 + (pts ** 2).sum(-1)).max() / 2))
        ok = np.isfinite(r) and np.isfinite(c).all() and bool((d <= tol * sc).all())
    if not ok:
        rep(label, key, dict(centre=fl(c), radius=r, ideal_points=fl(pts), distance_from_sphere=fl(d), **extra))


def replay_subspaces(run, n, cases, rng):
    """Subspace objects given by k+1 ideal points, as composite arrays and unit objects"""
    H = hyp()
    M = H.Model
    fam = "subspace"
    rep = Reporter(run, fam)
    groups = {}
    for e in cases:
        groups.setdefault(e["k"] + 1, []).append(e)
    for m, es in sorted(groups.items()):
        K = len(es)
        run.evaluations += K
        run.traces += K
        run.nontrivial_count += K
        run.actions[fam] = run.actions.get(fam, 0) + K
        keys = ["n=%d:basis=%s" % (n, e["basis"]) for e in es]
        rot = [rng.randrange(m) for _ in es]            # the subspace does not depend on the order of its basis
        data = np.array([e["basis"][s:] + e["basis"][:s] for e, s in zip(es, rot)], float)
        hs = np.nonzero(np.array([e["hs"] for e in es]))[0]      # subspaces through the point at infinity: no half-space sphere
        try:
            with np.errstate(all="ignore"):
                pc, pr = H.Subspace(data.copy()).sphere_parameters(M.POINCARE)
                pc, pr = np.asarray(pc, float), np.asarray(pr, float)
                hc = hr = bs = None
                if len(hs):
                    objh = H.Subspace(data[hs].copy())
                    hc, hr = objh.sphere_parameters(M.HALFSPACE)
                    hc, hr = np.asarray(hc, float), np.asarray(hr, float)
                    if m == n:
                        bs = objh.boundary_sphere_parameters()
                        bs = (np.asarray(bs[0], float), np.asarray(bs[1], float))
        except Exception as ex:
            rep("raised:sphere_parameters", keys[0], dict(error="%s: %s" % (type(ex).__name__, ex)))
            continue
        if pc.shape != (K, n) or pr.shape != (K,) or (hc is not None and (hc.shape != (len(hs), n) or hr.shape != (len(hs),))):
            rep("sphere_parameters.shape", keys[0], dict(poincare=[pc.shape, pr.shape], halfspace=[getattr(hc, "shape", None), getattr(hr, "shape", None)]))
            continue
        where = {int(i): j for j, i in enumerate(hs)}
        for i, e in enumerate(es):
            j = where.get(i)
            check_subspace(rep, fam, keys[i], n, e, (pc[i], pr[i]), None if j is None else (hc[j], hr[j]), None if (j is None or bs is None) else (bs[0][j], bs[1][j]))
        nst = np.array([i for i, e in enumerate(es) if not e["straight"]], int)
        if len(nst) >= 4:
            def q_sub(o):
                with np.errstate(all="ignore"):
                    return tuple(o.sphere_parameters(M.POINCARE))
            config_pass(run, rep, H, "subspace.poincare", [keys[i] for i in nst], (data[nst],), lambda d: H.Subspace(d[0]), q_sub, ("centre", "radius"), rng)
        for i in rng.sample(range(K), min(K, 10)):
            try:
                with np.errstate(all="ignore"):
                    o1 = H.Subspace(data[i].copy())
                    p1 = o1.sphere_parameters(M.POINCARE)
                    h1 = o1.sphere_parameters(M.HALFSPACE) if es[i]["hs"] else None
                if np.asarray(p1[0]).shape != (n,) or np.asarray(p1[1]).shape != ():
                    rep("%s.unit_shape" % fam, keys[i], dict(centre=np.asarray(p1[0]).shape, radius=np.asarray(p1[1]).shape))
                else:
                    check_subspace(rep, fam + ".unit", keys[i], n, es[i], p1, h1, None)
            except Exception as ex:
                rep("raised:%s.unit" % fam, keys[i], dict(error="%s: %s" % (type(ex).__name__, ex)))
            run.evaluations += 1
        mid = es[K // 2]
        run.sample(dict(kind="subspace case (n=%d, %d ideal basis points)" % (n, m), basis=mid["basis"], ideal_points=mid["pts"],
                        poincare_sphere_of_spec=[mid["pc"], mid["pr2"]]))


def check_subspace(rep, fam, key, n, e, psph, hsph, bsph):
    kz = np.array([qv(z) for z in e["kz"]])
    if not e["straight"]:
        contains(rep, "%s.poincare.contains_ideal_points" % fam, key, psph[0], psph[1], kz, ITOL, dict(spec_sphere=[fl(qv(e["pc"])), math.sqrt(q(e["pr2"]))]))
    if e["hs"]:
        hz = np.array([qv(z) for z in e["hz"]])
        contains(rep, "%s.halfspace.contains_ideal_points" % fam, key, hsph[0], hsph[1], hz, ITOL, {}, conformal=True)
        if bsph is not None:
            contains(rep, "%s.boundary_sphere.contains_ideal_points" % fam, key, bsph[0], bsph[1], hz[:, :-1], ITOL, {}, conformal=True)


def replay_hyperplanes(run, n, cases, rng):
    """Hyperplane objects built from a spacelike normal (unit objects: the constructor completes an ideal basis itself)"""
    H = hyp()
    M = H.Model
    fam = "hyperplane"
    rep = Reporter(run, fam)
    K = len(cases)
    run.evaluations += K
    run.traces += K
    run.nontrivial_count += K
    run.actions[fam] = run.actions.get(fam, 0) + K
    for e in cases:
        key = "n=%d:W=%s" % (n, e["W"])
        try:
            with np.errstate(all="ignore"):
                obj = H.Hyperplane(np.array(e["W"], float))
                psph = obj.sphere_parameters(M.POINCARE)
                hsph = obj.sphere_parameters(M.HALFSPACE) if e["hs"] else None
                bsph = obj.boundary_sphere_parameters() if e["hs"] else None
            if np.asarray(psph[0]).shape != (n,) or np.asarray(psph[1]).shape != ():
                rep("hyperplane.shape", key, dict(centre=np.asarray(psph[0]).shape, radius=np.asarray(psph[1]).shape))
                continue
            check_subspace(rep, fam, key, n, e, psph, hsph, bsph)
        except Exception as ex:
            rep("raised:hyperplane.sphere_parameters", key, dict(error="%s: %s" % (type(ex).__name__, ex)))
    mid = cases[K // 2]
    run.sample(dict(kind="hyperplane case (n=%d)" % n, normal=mid["W"], ideal_points=mid["pts"], poincare_sphere_of_spec=[mid["pc"], mid["pr2"]]))


def replay_moved(run, n, cases, rng):
    """histories: a Segment / Geodesic is built, an exact isometry is applied to it (iso @ obj), and the IMAGE is queried; it
    must be described by the exact values of the image segment"""
    from .. import hyp_common as hc
    H = hyp()
    groups = {}
    for e in cases:
        groups.setdefault(json.dumps(e["atom"], sort_keys=True), []).append(e)
    for ak, es in sorted(groups.items()):
        atom = es[0]["atom"]
        try:
            g = hc.lib_atom(atom, n)
        except Exception as ex:
            run.violation("moved:n=%d:atom=%s" % (n, ak), "raised:isometry", dict(error="%s: %s" % (type(ex).__name__, ex)))
            continue
        o1 = np.array([e["oP1"] for e in es], float)
        o2 = np.array([e["oP2"] for e in es], float)
        for e in es:        # keys name the original segment and the isometry
            e["U_img"], e["V_img"] = e["U"], e["V"]

        def maker(cls, idx, shape=None, o1=o1, o2=o2, g=g):
            a_, b_ = o1[idx].copy(), o2[idx].copy()
            if shape is not None:
                a_, b_ = a_.reshape(tuple(shape) + (n + 1,)), b_.reshape(tuple(shape) + (n + 1,))
            with np.errstate(all="ignore"):
                obj = getattr(H, cls)(a_, b_)
                obj.sphere_parameters(H.Model.POINCARE)          # a query before the transformation
                return g @ obj
        replay_segments(run, n, es, rng, "moved[%s]" % ak, maker=maker)
        run.actions["isometry @ segment (%s)" % atom["k"]] = run.actions.get("isometry @ segment (%s)" % atom["k"], 0) + len(es)


# ----------------------------------------------------------------------------------------
def run(run, replay=None):
    quick = run.tier == "quick"
    rng = random.Random(run.seed)
    run.rule = ("one case per CASE record emitted by HypCircleCases.tla (an object of the library with the exact value of every observed "
                "quantity); each case is replayed in both conformal models, in radians and degrees, inside composite arrays and (a sample) "
                "as unit objects; distinct_nontrivial = number of cases")
    run.assumptions += [
        "ideal points: integer null vectors with bounded entries (Pythagorean tuples); end points a U + b V with small integer weights; "
        "reference points of horospheres with -<x,x> a perfect square; near-diameters with radius exactly m <= 1000",
        "objects through the half-space point at infinity are outside the domain; geodesics through the origin of the ball only have to "
        "report a non-finite radius or one above the drawing threshold %g" % RADIUS_THRESHOLD,
        "angles are only meaningful (and only checked) for n = 2; centres, radii and ideal end points for n = 2..4",
        "tolerance 1e-9 relative to max(1, radius); 2e-7 where the library passes through conformal coordinates of an ideal point "
        "(square-root conditioning at the boundary, as in C01)",
        "for subspaces of dimension >= 2 only containment of the ideal points is required (the property leaves the sphere free otherwise)",
    ]
    if quick:
        plan = [dict(n=2, kinds=["segment", "near", "tiny", "moved", "horo", "horoarc", "hyperplane"], B=13, coef=2, near=(10, 100, 1000), bx=5, bw=3, thin=2),
                dict(n=3, kinds=["segment", "moved", "horo", "subspace", "hyperplane"], B=3, coef=1, bx=3, bw=2, thin=8),
                dict(n=4, kinds=["segment", "horo", "subspace", "hyperplane"], B=2, coef=1, bx=2, bw=1, thin=40)]
    else:
        plan = [dict(n=2, kinds=["segment", "near", "tiny", "moved", "horo", "horoarc", "hyperplane"], B=25, coef=3, near=(3, 10, 30, 100, 300, 1000), bx=9, bw=5),
                dict(n=3, kinds=["segment", "moved", "horo", "subspace", "hyperplane"], B=5, coef=2, bx=5, bw=3, bs=5, thin=4),
                dict(n=4, kinds=["segment", "horo", "subspace", "hyperplane"], B=3, coef=1, bx=3, bw=2, bs=2, thin=3)]
    cases = tlc_cases(run, plan, parallel=3, workers=3 if quick else 5)
    names = cases["names"]
    count = {}
    for p in plan:
        n = p["n"]
        fams = cases[n]
        for k, v in fams.items():
            count["%s n=%d" % (k, n)] = len(v)
        replay_segments(run, n, fams["segment"], rng, "segment")
        segment_variants(run, n, fams["segment"], rng, names)
        if "near" in fams:
            replay_segments(run, n, fams["near"], rng, "near_diameter")
        if "tiny" in fams:
            replay_segments(run, n, fams["tiny"], rng, "tiny_segment")
        if "moved" in fams:
            replay_moved(run, n, fams["moved"], rng)
        replay_horospheres(run, n, fams["horo"], rng, arcs=False)
        horo_variants(run, n, fams["horo"], rng, names, arcs=False)
        if "horoarc" in fams:
            replay_horospheres(run, n, fams["horoarc"], rng, arcs=True)
            horo_variants(run, n, fams["horoarc"], rng, names, arcs=True)
        if "subspace" in fams:
            replay_subspaces(run, n, fams["subspace"], rng)
            subspace_variants(run, n, fams["subspace"], rng, names)
        replay_hyperplanes(run, n, fams["hyperplane"], rng)
    run.extra["cases_by_family"] = count
