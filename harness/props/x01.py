"""X01 (extension, outside the listed properties) — group enumeration from the Coxeter automata, the even graph,
standard subgroups and validation of a Coxeter matrix.

spec/cox/CoxeterEnum.tla (on top of CoxeterRep.tla / CoxeterWalk.tla) states the contracts in plain words and lets TLC
check, on every element of the ball of every matrix, that the reversed words are the class of the inverse, that left
multiplication through the inverse is the walk of g.w and commutes with right multiplication, that an element has the
same reduced expressions in every standard subgroup containing its letters (SubgroupConvex) and that the reflection
images of the subgroup are the principal submatrices of the parent's (SubRep).  It emits per element: normal form, all
reduced words, inverse, left / right neighbours (or "outside the ball"), exact geometric / dual images; per matrix the
restricted matrices of all subsets; and the table of verdicts for 1296 candidate 2 x 2 matrices.

Conformance (spec -> code):
  * coxeter_automaton.enumerate_group on the library's own geodesic / shortlex graphs: the list of Groupelements equals
    the ball in shortlex order (word, id, length, node, lex_node, inverse, every left / right entry or None), for several
    max_len on the same graphs (prefix history), the whole group for a finite group, arguments unchanged;
  * coxeter_automaton.even_graph: paths from state 0 spell exactly the even-length reduced words / normal forms;
  * CoxeterGroup.standard_subgroup for every non-empty subset, argument as list / reversed list / tuple / set /
    iterator / generator, parent built through every constructor configuration: restricted matrix, order and names of
    the parent, automata = the parent's words over the subset, geometric / canonical images = principal submatrices
    (exact where integral), nested subgroups, parent unchanged;
  * CoxeterGroup(matrix=...) accepts / warns / rejects as the table says and stores an accepted matrix unchanged.
"""
import copy
import json
import multiprocessing as mp
import random
import warnings

import numpy as np

from .. import core
from .. import cox_common as cc

MATS, RADS, OBS, INFO = [], [], [], {}
OUTSIDE = (0,)


# ----------------------------------------------------------------------------------------
# tables of one matrix (0-based generators)
# ----------------------------------------------------------------------------------------
class Ball:
    def __init__(self, m):
        z = lambda w: tuple(g - 1 for g in w)
        self.M = MATS[m]
        self.L = RADS[m]
        self.rank = len(self.M)
        self.el = {}
        for o in OBS[m]:
            wid = z(o["id"])
            self.el[wid] = dict(
                cls=[z(u) for u in o["cls"]], inv=z(o["inv"]),
                right=[None if tuple(t) == OUTSIDE else z(t) for t in o["right"]],
                left=[None if tuple(t) == OUTSIDE else z(t) for t in o["left"]],
                geo=np.array(o["geo"], dtype=float) if o["geo"] else None,
                dual=np.array(o["dual"], dtype=float) if o["dual"] else None)
        self.ids = sorted(self.el, key=lambda w: (len(w), w))
        self.growth = [sum(1 for w in self.ids if len(w) == k) for k in range(self.L + 1)]
        self.longest = max(len(w) for w in self.ids)
        # the ball is the whole (finite) group iff its outermost sphere is empty
        self.exhausted = self.growth[self.L] == 0


def lib_int_matrix(M, neg):
    return [[(-1 if (v == 0 and neg) else v) for v in row] for row in M]


def to_graph(A, rank):
    """FSA with integer labels -> the list-of-lists format enumerate_group / even_graph read"""
    gd = A.graph_dict
    n = max(gd) + 1
    return [[gd.get(v, {}).get(k, 0) for k in range(rank)] for v in range(n)]


def follow(graph, w):
    v = 0
    for g in w:
        v = graph[v][g]
        if not v:
            return None
    return v


def check_enumeration(ball, g, gl, maxlen, ca):
    """one call of enumerate_group against the ball; returns (evaluations, [(clause, detail)])"""
    want = [w for w in ball.ids if len(w) <= maxlen]
    g0, gl0 = copy.deepcopy(g), copy.deepcopy(gl)
    try:
        grp = ca.enumerate_group(g, gl, maxlen)
    except Exception as e:
        return 1, [("enumerate_group.raised", "enumerate_group(max_len=%d) raised %s: %s; the group has %d elements of length <= %d"
                    % (maxlen, type(e).__name__, e, len(want), maxlen))]
    bad = []
    if g != g0 or gl != gl0:
        bad.append(("enumerate_group.arguments_changed", "graph / graph_lex modified by the call"))
    words = [tuple(x.word) for x in grp]
    if words != want:
        ws, gs = set(want), set(words)
        return len(want), bad + [("enumerate_group.elements", "max_len=%d: %d elements, spec %d; missing %r, extra %r, duplicates %d, order ok: %r"
                                  % (maxlen, len(words), len(want), sorted(ws - gs, key=lambda x: (len(x), x))[:4],
                                     sorted(gs - ws, key=lambda x: (len(x), x))[:4], len(words) - len(gs), sorted(words, key=lambda x: (len(x), x)) == words))]
    index = {w: i for i, w in enumerate(want)}
    for i, (x, w) in enumerate(zip(grp, want)):
        e = ball.el[w]
        if x.id != i or x.length != len(w) or x.rank != ball.rank:
            bad.append(("enumerate_group.fields", "element %r: id %r, length %r, rank %r" % (w, x.id, x.length, x.rank)))
            break
        if x.node != follow(g, w) or x.lex_node != follow(gl, w):
            bad.append(("enumerate_group.node", "element %r: node %r / lex_node %r, the graphs lead to %r / %r" % (w, x.node, x.lex_node, follow(g, w), follow(gl, w))))
            break
        if x.inverse is not grp[index[e["inv"]]]:
            bad.append(("enumerate_group.inverse", "element %r: inverse %r, spec %r" % (w, x.inverse.word if x.inverse is not None else None, e["inv"])))
            break
        for side, tab in (("right", x.right), ("left", x.left)):
            for k in range(ball.rank):
                t = e[side][k]
                exp = grp[index[t]] if (t is not None and len(t) <= maxlen) else None
                if tab[k] is not exp:
                    bad.append(("enumerate_group." + side, "max_len=%d, element %r: %s[%d] is %r, spec %r" % (
                        maxlen, w, side, k, tab[k].word if tab[k] is not None else None, exp.word if exp is not None else None)))
                    break
            else:
                continue
            break
        if bad:
            break
    return len(want) * (3 + 2 * ball.rank), bad


def even_words(eg, depth):
    """words spelled by the paths of an even graph from state 0 with at most `depth` two-letter steps"""
    out = [()]
    frontier = [((), 0)]
    for _ in range(depth):
        nxt = []
        for (w, v) in frontier:
            for (i, j), t in eg[v].items():
                nxt.append((w + (i, j), t))
        out += [w for w, _ in nxt]
        frontier = nxt
    return out


def check_enum_matrix(m):
    from geometry_tools.automata import coxeter_automaton as ca
    ball = Ball(m)
    out, evals = [], 0
    ctx = dict(matrix=ball.M)
    LM = lib_int_matrix(ball.M, neg=(m % 2 == 1))
    try:
        g = to_graph(ca.generate_automaton_coxeter_matrix(LM, False), ball.rank)
        gl = to_graph(ca.generate_automaton_coxeter_matrix(LM, True), ball.rank)
    except Exception as e:
        return m, 1, [(ctx, "enum:%s" % cc.short(ball.M), "raised:generate_automaton", "%s: %s" % (type(e).__name__, e))], None
    # several calls on the same graphs: the ball, shorter prefixes, and (finite group) beyond the longest element
    top = ball.longest if ball.exhausted else ball.L
    calls = sorted({top, max(top - 1, 0), max(top - 3, 0), 0})
    for maxlen in calls:
        n, bad = check_enumeration(ball, g, gl, maxlen, ca)
        evals += n
        for clause, detail in bad:
            out.append((dict(ctx, max_len=maxlen), "enum:%s:L=%d" % (cc.short(ball.M), maxlen), clause, detail))
    if ball.exhausted:
        for maxlen in sorted({ball.longest + 1, ball.L}):
            n, bad = check_enumeration(ball, g, gl, maxlen, ca)
            evals += n
            for clause, detail in bad:
                out.append((dict(ctx, max_len=maxlen, longest_element=ball.longest), "enum:beyond-longest:%s" % cc.short(ball.M), clause, detail))
    # even graphs
    reduced = {u for e in ball.el.values() for u in e["cls"]}
    for name, graph, exp in (("geodesic", g, reduced), ("shortlex", gl, set(ball.ids))):
        g0 = copy.deepcopy(graph)
        try:
            eg = ca.even_graph(graph)
            depth = ball.L // 2
            if not isinstance(eg, list) or len(eg) != len(graph) or not all(isinstance(d, dict) for d in eg):
                out.append((ctx, "even:%s" % cc.short(ball.M), "even_graph.shape", "%s: not a list of %d dictionaries" % (name, len(graph))))
                continue
            got = sorted(even_words(eg, depth))
            want = sorted(w for w in exp if len(w) % 2 == 0 and len(w) <= 2 * depth)
            evals += len(want)
            if got != want:
                gs, ws = set(got), set(want)
                out.append((ctx, "even:%s" % cc.short(ball.M), "even_graph." + name, "paths of at most %d steps: extra %r, missing %r, duplicates %d" % (
                    depth, sorted(gs - ws, key=lambda x: (len(x), x))[:4], sorted(ws - gs, key=lambda x: (len(x), x))[:4], len(got) - len(gs))))
            if graph != g0:
                out.append((ctx, "even:%s" % cc.short(ball.M), "even_graph.argument_changed", name))
        except Exception as e:
            out.append((ctx, "even:%s" % cc.short(ball.M), "raised:even_graph", "%s: %s: %s" % (name, type(e).__name__, e)))
    sample = None
    if 20 < len(ball.ids) < 200 and not ball.exhausted:
        w = ball.ids[len(ball.ids) // 2]
        e = ball.el[w]
        sample = dict(kind="enumerated element", matrix=ball.M, max_len=ball.L, elements=len(ball.ids), word=list(w), inverse=list(e["inv"]),
                      right=[list(t) if t is not None else None for t in e["right"]], left=[list(t) if t is not None else None for t in e["left"]])
    return m, evals, out, sample


# ----------------------------------------------------------------------------------------
# standard subgroups
# ----------------------------------------------------------------------------------------
ARG_FORMS = ["list", "reversed", "tuple", "set", "iterator", "generator"]
ROUTES = [("matrix", "alpha", "zero", "list", "int"), ("diagram", "alphanum", "neg", "tuple", "int"),
          ("matrix", "alphanum", "neg", "list", "float"), ("diagram", "alpha", "zero", "generator", "float")]


def pack_argument(names, form):
    if form == "list":
        return list(names)
    if form == "reversed":
        return list(reversed(names))
    if form == "tuple":
        return tuple(names)
    if form == "set":
        return set(names)
    if form == "iterator":
        return iter(list(names))
    return (x for x in list(names))


def snapshot(G):
    return (np.array(G.coxeter_matrix).tolist(), list(G.ordered_gens), {a: dict(b) for a, b in G.generators.items()}, dict(G.generator_index))


def check_subgroups(m):
    from .c08 import cosine_matrix
    ball = Ball(m)
    M, L, rank = ball.M, ball.L, ball.rank
    out, evals = [], 0
    route, style, inf, container, labels = ROUTES[m % len(ROUTES)]
    ctx = dict(matrix=M, route=route, style=style, inf=inf, labels=labels)
    try:
        G, names, _ = cc.build_group_ex(M, route, style, inf, container, labels)
        before = snapshot(G)
        geoG = G.geometric_representation()
        canG = G.canonical_representation()
    except Exception as e:
        return m, 1, [(ctx, "sub:%s" % cc.short(M), "raised:parent", "%s: %s" % (type(e).__name__, e))], None
    LM = np.array(cc.lib_matrix(M, inf))
    subs = sorted(INFO[m]["subs"], key=lambda s: (len(s["S"]), s["S"]))
    sample = None
    for si, sub in enumerate(subs):
        S = [i - 1 for i in sub["S"]]
        snames = [names[i] for i in S]
        form = ARG_FORMS[(m + si) % len(ARG_FORMS)]
        key = "sub:%s:%s:%s" % (cc.short(M), "".join(str(i) for i in S), form)
        c2 = dict(ctx, subset=snames, argument=form)
        try:
            H = G.standard_subgroup(pack_argument(snames, form))
            hm = np.asarray(H.coxeter_matrix)
            evals += 1
            if list(H.ordered_gens) != snames or hm.shape != (len(S), len(S)) or not np.array_equal(np.where(hm <= 0, 0, hm), np.array(sub["M"])) \
                    or not np.array_equal(hm, LM[np.ix_(S, S)]):
                out.append((c2, key, "standard_subgroup.matrix", "generators %r, matrix %r; spec: generators %r, restricted matrix %r" % (
                    list(H.ordered_gens), hm.tolist(), snames, LM[np.ix_(S, S)].tolist())))
                continue
            inside = [w for w in ball.ids if set(w) <= set(S)]
            J = lambda w: "".join(names[g] for g in w)
            for sl in (False, True):
                exp = sorted(J(w) for w in (inside if sl else [u for w in inside for u in ball.el[w]["cls"]]))
                got = sorted(H.automaton(shortlex=sl).enumerate_words(L))
                evals += len(exp)
                if got != exp:
                    gs, ws = set(got), set(exp)
                    out.append((c2, key, "standard_subgroup.automaton", "shortlex=%r up to length %d: accepted but not words of the parent over the subset: %r, missing %r" % (
                        sl, L, sorted(gs - ws, key=lambda x: (len(x), x))[:4], sorted(ws - gs, key=lambda x: (len(x), x))[:4])))
            B = np.asarray(H.bilinear_form(), dtype=float)
            if np.abs(B - cosine_matrix(M)[np.ix_(S, S)]).max() > 1e-12:
                out.append((c2, key, "standard_subgroup.bilinear_form", "%r" % (np.round(B, 12).tolist(),)))
            geoH = H.geometric_representation()
            canH = H.canonical_representation()
            ix = np.ix_(S, S)
            for w in inside:
                wn = [names[g] for g in w]
                evals += 2
                e = ball.el[w]
                for tag, rh, rg, exact in (("geometric", geoH, geoG, e["geo"]), ("canonical", canH, canG, e["dual"])):
                    X = np.asarray(rh[wn], dtype=float)
                    P = np.asarray(rg[wn], dtype=float)[ix]
                    sc = 1.0 + np.abs(P).max()
                    if X.shape != P.shape or np.abs(X - P).max() > 1e-9 * sc or (exact is not None and np.abs(X - exact[ix]).max() > 1e-9 * sc):
                        out.append((c2, key, "standard_subgroup." + tag, "image of %r: %r; principal submatrix of the parent's image %r%s" % (
                            J(w), np.round(X, 9).tolist(), np.round(P, 9).tolist(), ("; exact %r" % exact[ix].tolist()) if exact is not None else "")))
                        break
                else:
                    continue
                break
            if len(S) >= 2:
                S2 = S[:len(S) // 2] if si % 2 else S[len(S) // 2:]
                H2 = H.standard_subgroup([names[i] for i in S2])
                if list(H2.ordered_gens) != [names[i] for i in S2] or not np.array_equal(np.asarray(H2.coxeter_matrix), LM[np.ix_(S2, S2)]):
                    out.append((c2, key, "standard_subgroup.nested", "subgroup %r of the subgroup: %r" % ([names[i] for i in S2], np.asarray(H2.coxeter_matrix).tolist())))
            if sample is None and len(S) == 2 and rank >= 3 and len(inside) > 4:
                sample = dict(kind="standard subgroup", matrix=M, subset=snames, argument=form, restricted=hm.tolist(), normal_forms_over_subset=[J(w) for w in inside][:8])
        except Exception as e:
            out.append((c2, key, "raised:standard_subgroup", "%s: %s" % (type(e).__name__, e)))
    try:
        if snapshot(G) != before:
            out.append((ctx, "sub:%s" % cc.short(M), "standard_subgroup.parent_changed", "parent group modified"))
    except Exception as e:
        out.append((ctx, "sub:%s" % cc.short(M), "raised:parent_snapshot", "%s: %s" % (type(e).__name__, e)))
    return m, evals, out, sample


# ----------------------------------------------------------------------------------------
# validation table
# ----------------------------------------------------------------------------------------
def check_validation(run, table):
    from geometry_tools import coxeter
    from geometry_tools.projective import GeometryError
    shown = 0
    for k, (X, verdict) in enumerate(table):
        vals = [[e[0] / e[1] for e in row] for row in X]
        integral = all(e[0] % e[1] == 0 for row in X for e in row)
        forms = [("ndarray", np.array(vals, dtype=np.int64 if integral else np.float64)), ("nested list", [[int(v) if float(v).is_integer() else v for v in row] for row in vals])]
        name, arg = forms[k % 2]
        keep = copy.deepcopy(arg)
        run.case(key=("val", k), action="constructor(%s)" % verdict)
        key = "val:%r" % (vals,)
        with warnings.catch_warnings(record=True) as rec:
            warnings.simplefilter("always")
            try:
                G = coxeter.CoxeterGroup(matrix=arg)
                got = "warn" if any("diagonal" in str(w.message) for w in rec) else "ok"
            except GeometryError:
                got, G = "error", None
            except Exception as e:
                got, G = "raised %s: %s" % (type(e).__name__, e), None
        if got != verdict:
            run.violation(key, "from_coxeter_matrix.verdict", dict(matrix=vals, handed_over_as=name, observed=got, spec=verdict))
            continue
        if G is not None and not np.array_equal(np.asarray(G.coxeter_matrix, dtype=float), np.array(vals)):
            run.violation(key, "from_coxeter_matrix.stored", dict(matrix=vals, stored=np.asarray(G.coxeter_matrix).tolist()))
        if not np.array_equal(np.array(arg, dtype=float), np.array(keep, dtype=float)):
            run.violation(key, "from_coxeter_matrix.argument_changed", dict(matrix=vals))
        if shown < 1 and verdict == "warn":
            shown += 1
            run.sample(dict(kind="validation", matrix=vals, verdict=verdict))


def run(run, replay=None):
    global MATS, RADS, OBS, INFO
    quick = run.tier == "quick"
    rng = random.Random(run.seed)
    run.rule = ("a case is one matrix x one function family (enumerate_group with several max_len + both even graphs; all standard "
                "subgroups) or one candidate matrix of the validation table; evaluations counts compared element fields, words and images")
    r2 = [cc.sym(2, [v]) for v in (2, 3, 4, 5, 6, 7, 0)]
    batches = [("rank2", r2, [M[0][1] + 2 if M[0][1] else 6 for M in r2])]
    r3 = cc.up_to_relabelling(3, cc.LABELS7) + [M for M in cc.all_mats(3, [2, 3, 0]) if M[0][1] > M[1][2] or M[0][2] > M[1][2]]
    if not quick:
        seen = {tuple(map(tuple, M)) for M in r3}
        r3 += [M for M in cc.all_mats(3, cc.LABELS7) if tuple(map(tuple, M)) not in seen]
    batches.append(("rank3", r3, [6 if quick else 7] * len(r3)))
    named4 = [cc.sym(4, v) for v in ([3, 2, 2, 3, 2, 3], [4, 2, 2, 3, 2, 3], [3, 2, 2, 3, 3, 2], [3, 2, 3, 3, 2, 3], [5, 2, 2, 3, 2, 5], [3, 2, 0, 3, 2, 3], [2, 2, 2, 2, 2, 2])]
    r4 = named4 + cc.random_mats(rng, 4, cc.LABELS7, 14 if quick else 120, weights=[3, 3, 1, 1, 1, 1, 2])
    batches.append(("rank4", r4, [4 if quick else 5] * len(r4)))
    # small finite groups whose whole Cayley graph fits: the enumeration must return the whole group
    fin = [cc.sym(3, [3, 2, 3]), cc.sym(3, [2, 2, 2]), cc.sym(3, [2, 2, 5]), cc.sym(3, [4, 2, 3])] + ([cc.sym(3, [5, 2, 3]), cc.sym(4, [3, 2, 2, 3, 2, 3])] if not quick else [])
    batches.append(("finite", fin, [7, 4, 7, 10] + ([16, 11] if not quick else [])))      # longest element + 1
    if replay:
        first = json.load(open(replay))["first"]
        Mx = first["detail"].get("case", {}).get("matrix")
        if Mx and all(isinstance(v, int) for row in Mx for v in row):
            batches = [("replay", [Mx], [{2: 9, 3: 6}.get(len(Mx), 4)])]
    MATS, RADS = [], []
    for (_, ms, rs) in batches:
        MATS += ms
        RADS += rs
    run.assumptions += [
        "labels 2..7 and infinity; " + ", ".join("%s: %d matrices, radius %d" % (t, len(ms), max(rs)) for (t, ms, rs) in batches),
        "graph format read by enumerate_group / even_graph: list indexed by state of lists indexed by generator, 0 = no edge, built from the "
        "library's own generate_automaton_coxeter_matrix output (FSA.graph_dict)",
        "Groupelement.left / right / inverse compared by object identity with the listed elements; entries outside the ball must be None",
        "standard_subgroup: every non-empty subset, argument forms list / reversed list / tuple / set / iterator / generator in rotation "
        "(docstring: 'generators : iterable'); parent built through 4 constructor configurations in rotation; generator names that are not "
        "generators of the parent and the empty subset are not exercised",
        "validation: every 2 x 2 matrix over {1, 2, 3, 0, -1, 5/2}, handed over as ndarray or nested list alternately",
        "out of scope here: nothing in this area needs sage / snappy / external binaries",
    ]
    workers = min(8, core.NCPU)
    r, OBS, _, INFO, _ = cc.run_batch(run, "CoxeterEnum", MATS, RADS, "CoxeterEnum",
                                      invariants=["TypeOK", "Closed", "RelationsHold", "InverseOK", "LeftOK", "SubgroupConvex", "SubRep", "EmitEnum", "EmitInfoEnum"],
                                      action_constraints=[], workers=workers, constants=dict(TriLabels={2}))
    table = None
    for line in r.stdout.splitlines():
        if line.startswith('"VAL '):
            table = json.loads(json.loads(line)[4:])
    if table is None or len(INFO) != len(MATS):
        raise core.MachineryFailure("CoxeterEnum.tla did not print its tables")
    r.stdout = ""
    run.extra["matrices"] = len(MATS)
    run.extra["elements"] = sum(len(o) for o in OBS)
    order = sorted(range(len(MATS)), key=lambda m: -len(OBS[m]))
    with mp.get_context("fork").Pool(workers) as pool:
        outs = pool.map(check_enum_matrix, order, chunksize=2) + pool.map(check_subgroups, order, chunksize=2)
    for k, (m, evals, bad, sample) in enumerate(outs):
        run.evaluations += evals
        run.traces += 1
        run.case(key=("enum" if k < len(order) else "sub", m), action="enumerate_group+even_graph" if k < len(order) else "standard_subgroup")
        for ctx, key, clause, detail in bad[:6]:
            run.violation(key, clause, dict(case=ctx, observed=detail))
        if sample:
            run.sample(sample)
    if not replay:
        check_validation(run, sorted(table, key=repr))
    run.extra["validation_cases"] = len(table)
