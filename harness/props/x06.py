"""X06 (extension, outside the listed properties) — utility layer of geometry_tools.utils that no property check executes:
permutation conjugation, transposition matrices, eigenpair ordering, the standard indefinite / symplectic forms,
find_positive_functional, the option branches and the tolerance of numerical.svd_kernel, the Sage-free number-packaging
helpers (check_type, zeros/ones/identity/array_like, number, pi, unit_imag, change_base_ring, guess_literal_ring, the
elementary-function wrappers, types.is_linalg_type / inexact_type) and the test helper testing.assert_numpy_equivalent.

Specifications (spec/xutil, each states its contract in its header): XPerm, XStdForms, XCone, XKernelOpts, XSvdTol, XTypes,
XEquiv — exact integer / rational / Gaussian-integer case and state-machine specifications on FormOps.tla; TLC checks the
laws of each (P P^T = I, conjugation = matrix product, composition, J^2 = -I, Jacobi signatures, Gordan's alternative for
positive functionals, partition of a batch by kernel dimension, monotonicity in the tolerance, the casting lattice, ...)
and prints one OBS record per state with the exact expected values.  Conformance: every record is replayed through the
real functions, as single units and as stacked / grid batches, and compared exactly (integers) or to 1e-9.
Out of scope (need Sage): every `if SAGE_AVAILABLE` branch (base rings, sagewrap.*), eigh's exact branch.
"""
import copy
import json
import math

import numpy as np

from .. import core
from . import c18

TOL = 1e-9


def jkey(x):
    return json.dumps(x, separators=(",", ":"))


def call(f, *a, **k):
    return c18.call(f, *a, **k)


def exc_name(err):
    return err.split(":")[0] if err else None


class Ctx:
    def __init__(self, run):
        self.run = run
        self.V = c18.Viol(run)

    def act(self, name, n=1):
        self.run.evaluations += n
        self.run.actions[name] = self.run.actions.get(name, 0) + n

    def bad(self, key, clause, **detail):
        self.V.add(key, clause, detail)


def job(name, module, constants, invariants, workers=2, simulate=None, depth=None, init="Init"):
    return dict(name=name, module="xutil/" + module, workers=workers, simulate=simulate, depth=depth,
                cfg=core.cfg(constants=constants, invariants=invariants, init=init))


PERM_INV = ["PermOrthogonal", "InverseIsTranspose", "ConjIsProduct", "ConjInvIsProduct", "ConjCompose", "ConjUndo",
            "SwapLaws", "SortLaws", "EmitObs"]
FORM_INV = ["IndefiniteLaws", "SymplecticLaws", "EmitObs"]
CONE_INV = ["Exclusive", "Antitone", "ScaleFree", "WitnessWorks", "EmitObs"]
KOPT_INV = ["Partition", "SortedDims", "KernelsExact", "RankBounds", "FullRankDim", "EmitObs"]
TOL_INV = ["Orthogonal", "FullRowRank", "Monotone", "DefaultIsExact", "EmitObs"]
TYPE_INV = ["Lattice", "InexactMeansFloating", "LinalgMeansNumeric", "CheckTypeLaws", "NumberLaws", "PowerLaws", "TrigLaws",
            "EmitObs"]
EQUIV_INV = ["Reflexive", "MonotoneInK", "ZeroEntries", "NonZeroEntries", "EmitObs"]


# ----------------------------------------------------------------------------------------
# permutations
# ----------------------------------------------------------------------------------------
def replay_perm(cx, recs):
    from geometry_tools import utils
    by_n = {}
    for c in recs:
        by_n.setdefault(c["n"], []).append(c)
    for n, cases in sorted(by_n.items()):
        seen_swaps = set()
        for c in cases:
            cx.run.case(key=("perm", n, jkey(c["p"]), jkey(c["q"]), jkey(c["M"])), action="perm_state")
            p = np.array(c["p"])
            key = "perm:n=%d:p=%s" % (n, jkey(c["p"]))
            # permutation_matrix, both conventions
            for inv, want in ((False, c["P"]), (True, c["Pinv"])):
                for kw in ({}, dict(dtype=int)):
                    out, err = call(utils.permutation_matrix, list(c["p"]), inverse=inv, **kw)
                    cx.act("permutation_matrix")
                    if err or not np.array_equal(np.asarray(out), np.array(want)):
                        cx.bad(key + ":inverse=%s" % inv, "permutation_matrix.value", p=c["p"], inverse=inv, got=err or np.asarray(out).tolist(), want=want)
            # conjugation: single unit, integer and float entries
            for dt in (float, int):
                M = np.array(c["M"], dtype=dt)
                out, err = call(utils.conjugate_by_permutation, M.copy(), p.copy())
                cx.act("conjugate_by_permutation")
                if err or np.asarray(out).shape != M.shape or not np.array_equal(np.asarray(out), np.array(c["conj"])):
                    cx.bad(key + ":M=%s" % jkey(c["M"]), "conjugate_by_permutation.value", M=c["M"], p=c["p"],
                           got=err or np.asarray(out).tolist(), want=c["conj"])
                elif np.asarray(out).dtype != M.dtype:
                    cx.bad(key + ":dtype", "conjugate_by_permutation.dtype", got=str(np.asarray(out).dtype), want=str(M.dtype))
            # ... and composed with a second one through the library
            M = np.array(c["M"], dtype=float)
            out, err = call(lambda: utils.conjugate_by_permutation(utils.conjugate_by_permutation(M, p), np.array(c["q"])))
            cx.act("conjugate_by_permutation")
            if err or not np.array_equal(np.asarray(out), np.array(c["conjpq"])):
                cx.bad(key + ":q=%s" % jkey(c["q"]), "conjugate_by_permutation.composition", M=c["M"], p=c["p"], q=c["q"],
                       got=err or np.asarray(out).tolist(), want=c["conjpq"])
            # inverse=True conjugates by the inverse permutation (stable key: one finding whatever the input)
            out, err = call(utils.conjugate_by_permutation, M.copy(), p.copy(), inverse=True)
            cx.act("conjugate_by_permutation(inverse)")
            if c["conjinv"] != c["conj"] and (err or not np.array_equal(np.asarray(out), np.array(c["conjinv"]))):
                cx.bad("conjugate_by_permutation:inverse=True", "conjugate_by_permutation.inverse", M=c["M"], p=c["p"],
                       got=err or np.asarray(out).tolist(), want=c["conjinv"],
                       equals_the_direct_conjugation=(not err) and np.array_equal(np.asarray(out), np.array(c["conj"])))
            # transpositions
            for i, j, S in c["swaps"]:
                if (i, j) in seen_swaps:
                    continue
                seen_swaps.add((i, j))
                out, err = call(utils.swap_matrix, i, j, n)
                cx.act("swap_matrix")
                if err or not np.array_equal(np.asarray(out), np.array(S)):
                    cx.bad("swap:n=%d:%d,%d" % (n, i, j), "swap_matrix.value", i=i, j=j, n=n, got=err or np.asarray(out).tolist(), want=S)
            # eigenpairs
            if c["evdom"]:
                w = np.array([complex(a, b) for a, b in c["ev"]])
                for vals, tag in ((w, "complex"),) + (((w.real, "real"),) if all(b == 0 for a, b in c["ev"]) else ()):
                    out, err = call(utils.order_eigs, vals.copy(), np.array(c["M"], dtype=float))
                    cx.act("order_eigs")
                    want_w = np.array([complex(a, b) for a, b in c["evsorted"]])
                    ok = (not err) and np.allclose(np.asarray(out[0]), want_w, atol=TOL) and np.array_equal(np.asarray(out[1]), np.array(c["vecsorted"]))
                    if not ok:
                        cx.bad(key + ":ev=%s" % jkey(c["ev"]), "order_eigs.value", values=c["ev"], vectors=c["M"],
                               got=err or [np.asarray(out[0]).tolist().__repr__(), np.asarray(out[1]).tolist()],
                               want=[c["evsorted"], c["vecsorted"]])
        # batches: stacked and grid, permutations with the same leading shape
        Bn = len(cases)
        Ms = np.array([c["M"] for c in cases], dtype=float)
        ps = np.array([c["p"] for c in cases])
        want = np.array([c["conj"] for c in cases], dtype=float)
        ws = np.array([[complex(a, b) for a, b in c["ev"]] for c in cases])
        want_w = np.array([[complex(a, b) for a, b in c["evsorted"]] for c in cases])
        want_v = np.array([c["vecsorted"] for c in cases], dtype=float)
        for tag, grid in c18.shapes_of(Bn):
            shp = (Bn,) if grid is None else grid
            m = int(np.prod(shp))
            out, err = call(utils.conjugate_by_permutation, Ms[:m].reshape(shp + (n, n)).copy(), ps[:m].reshape(shp + (n,)).copy())
            cx.act("conjugate_by_permutation", m)
            if err or np.asarray(out).shape != shp + (n, n) or not np.array_equal(np.asarray(out).reshape((m, n, n)), want[:m]):
                cx.bad("perm:n=%d:batch:%s" % (n, tag), "conjugate_by_permutation.batch", shape=list(shp), got=err or "values differ")
            out, err = call(utils.order_eigs, ws[:m].reshape(shp + (n,)).copy(), Ms[:m].reshape(shp + (n, n)).copy())
            cx.act("order_eigs", m)
            ok = (not err) and np.asarray(out[0]).shape == shp + (n,) and np.allclose(np.asarray(out[0]).reshape((m, n)), want_w[:m], atol=TOL) \
                and np.array_equal(np.asarray(out[1]).reshape((m, n, n)), want_v[:m])
            if not ok:
                cx.bad("perm:n=%d:batch:%s" % (n, tag), "order_eigs.batch", shape=list(shp), got=err or "values differ")
        c = cases[len(cases) // 2]
        cx.run.sample(dict(kind="permutation", p=c["p"], M=c["M"], P=c["P"], P_M_Pinv=c["conj"], Pinv_M_P=c["conjinv"],
                           eigenvalues=c["ev"], sorted_by_modulus=c["evsorted"]))
    cx.run.traces += len(recs)


# ----------------------------------------------------------------------------------------
# standard forms
# ----------------------------------------------------------------------------------------
def replay_forms(cx, recs):
    from geometry_tools import utils
    for c in recs:
        cx.run.case(key=("stdform", c["kind"], c["p"], c["q"], c["neg_first"]), action=c["kind"] + "_form")
        n = c["n"]
        want = np.array(c["value"], dtype=float).reshape((n, n)) if not c["raises"] else None
        if c["kind"] == "indefinite":
            key = "indefinite_form:p=%d:q=%d:neg_first=%s" % (c["p"], c["q"], c["neg_first"])
            for kw in ({}, dict(dtype=int), dict(like=np.zeros(2))):
                args = (c["p"], c["q"]) if c["neg_first"] and not kw else (c["p"], c["q"], c["neg_first"])
                out, err = call(utils.indefinite_form, *args, **kw)
                cx.act("indefinite_form")
                if err or np.asarray(out).shape != (n, n) or not np.array_equal(np.asarray(out), want):
                    cx.bad(key, "indefinite_form.value", got=err or np.asarray(out).tolist(), want=c["value"], kwargs=str(kw))
                elif "dtype" in kw and np.asarray(out).dtype.kind != "i":
                    cx.bad(key, "indefinite_form.dtype", got=str(np.asarray(out).dtype))
        else:
            key = "symplectic_form:n=%d" % n
            out, err = call(utils.symplectic_form, n)
            cx.act("symplectic_form")
            if c["raises"]:
                if err is None:
                    cx.bad(key, "symplectic_form.odd_accepted", n=n, got=np.asarray(out).tolist())
                elif exc_name(err) != "ValueError":
                    cx.bad(key, "symplectic_form.error_type", n=n, got=err, want="ValueError")
            elif err:
                cx.bad(key, "symplectic_form.raised", n=n, error=err, want=c["value"])
            elif np.asarray(out).shape != (n, n) or not np.array_equal(np.asarray(out), want):
                cx.bad(key, "symplectic_form.value", n=n, got=np.asarray(out).tolist(), want=c["value"])
    cx.run.sample(dict(kind="standard form", case=[c for c in recs if c["kind"] == "symplectic" and c["n"] == 4][0]))
    cx.run.traces += len(recs)


# ----------------------------------------------------------------------------------------
# positive functionals
# ----------------------------------------------------------------------------------------
def check_functional(cx, key, vs, f, tag):
    f = np.asarray(f, dtype=float)
    V = np.array(vs, dtype=float)
    if f.shape != (V.shape[-1],):
        cx.bad(key, "positive_functional.shape", vectors=vs, got=list(f.shape), shape=tag)
    elif not abs(np.linalg.norm(f) - 1) <= TOL:
        cx.bad(key, "positive_functional.unit_norm", vectors=vs, got=f.tolist(), shape=tag)
    elif not (V @ f > 1e-12).all():
        cx.bad(key, "positive_functional.positive", vectors=vs, got=f.tolist(), pairings=(V @ f).tolist(), shape=tag)


def replay_cone(cx, recs):
    from geometry_tools import utils
    recs = [c for c in recs if c["decided"]]
    groups = {}
    for c in recs:
        cx.run.case(key=("cone", jkey(c["vs"])), action="cone_state")
        key = "cone:%s" % jkey(c["vs"])
        out, err = call(utils.find_positive_functional, np.array(c["vs"], dtype=float))
        cx.act("find_positive_functional")
        if err:
            cx.bad(key, "positive_functional.raised", vectors=c["vs"], error=err, feasible=c["feasible"])
        elif c["feasible"]:
            if out is None:
                cx.bad(key, "positive_functional.missed", vectors=c["vs"], exact_witness=c["witness"])
            else:
                check_functional(cx, key, c["vs"], out, "unit")
        elif out is not None:
            cx.bad(key, "positive_functional.none_exists", vectors=c["vs"], got=np.asarray(out).tolist())
        groups.setdefault((c["n"], len(c["vs"]), c["feasible"]), []).append(c)
    for (n, k, feas), cs in sorted(groups.items()):
        if not feas:
            continue
        A = np.array([c["vs"] for c in cs], dtype=float)
        for tag, grid in c18.shapes_of(len(cs)):
            shp = (len(cs),) if grid is None else grid
            m = int(np.prod(shp))
            out, err = call(utils.find_positive_functional, A[:m].reshape(shp + (k, n)).copy())
            cx.act("find_positive_functional", m)
            key = "cone:batch:n=%d:k=%d:%s" % (n, k, tag)
            if err or out is None or np.asarray(out).shape != shp + (n,):
                cx.bad(key, "positive_functional.batch", shape=list(shp), got=err or (None if out is None else list(np.asarray(out).shape)))
                continue
            F = np.asarray(out).reshape((m, n))
            for i in range(m):
                check_functional(cx, "cone:%s" % jkey(cs[i]["vs"]), cs[i]["vs"], F[i], tag)
        # one unit without a positive functional makes the whole result None
        inf = groups.get((n, k, False))
        if inf and len(cs) >= 2:
            mixed = np.array([cs[0]["vs"], inf[len(inf) // 2]["vs"], cs[-1]["vs"]], dtype=float)
            out, err = call(utils.find_positive_functional, mixed)
            cx.act("find_positive_functional", 3)
            if err or out is not None:
                cx.bad("cone:mixed:n=%d:k=%d" % (n, k), "positive_functional.mixed_batch_is_none", batch=mixed.tolist(),
                       got=err or np.asarray(out).tolist())
    f = [c for c in recs if c["feasible"] and len(c["vs"]) >= 3]
    g = [c for c in recs if not c["feasible"] and len(c["vs"]) >= 3]
    if f and g:
        cx.run.sample(dict(kind="positive functional", in_open_half_space=f[len(f) // 2], in_no_open_half_space=g[len(g) // 2]))
    cx.run.traces += len(recs)


# ----------------------------------------------------------------------------------------
# svd_kernel options
# ----------------------------------------------------------------------------------------
def check_basis(cx, key, M, K, exact, clause_prefix, relrows=None):
    """K (C, d): orthonormal, annihilated by (the counted rows of) M, containing the exact integer kernel vectors"""
    M = np.asarray(M, dtype=float)
    K = np.asarray(K, dtype=float)
    d = K.shape[-1]
    if d == 0:
        return True
    rows = M if relrows is None else M[relrows]
    ok = np.abs(K.T @ K - np.eye(d)).max() <= TOL
    if ok and len(rows):
        ok = (np.abs(rows @ K).max(axis=-1) <= 1e-8 * np.abs(rows).max(axis=-1)).all()
    if ok and exact is not None and len(exact):
        S = np.array(exact, dtype=float)
        ok = np.abs((S @ K) @ K.T - S).max() <= 1e-8 * max(1.0, np.abs(S).max())
    if not ok:
        cx.bad(key, clause_prefix + ".basis", matrix=M.tolist(), got=np.round(K, 6).tolist(), exact_kernel=exact)
    return ok


def replay_kopts(cx, recs):
    from geometry_tools.utils import numerical
    for c in recs:
        cx.run.case(key=("kopt", jkey(c["batch"])), action="kernel_batch_state")
        A = np.array(c["batch"], dtype=float)
        B, C = len(c["batch"]), c["c"]
        key = "svd_kernel:%s" % jkey(c["batch"])
        # matching_rank=True (default)
        out, err = call(numerical.svd_kernel, A.copy())
        cx.act("svd_kernel")
        if c["matching"]:
            d = c["dims"][0]
            if err or np.asarray(out).shape != (B, C, d):
                cx.bad(key, "svd_kernel.matching.shape", got=err or list(np.asarray(out).shape), want=[B, C, d])
            else:
                for i in range(B):
                    check_basis(cx, key, A[i], np.asarray(out)[i], c["kers"][i], "svd_kernel.matching")
        elif exc_name(err) != "ValueError":
            cx.bad(key, "svd_kernel.matching.must_refuse_mixed_ranks", dims=c["dims"], got=err or list(np.asarray(out).shape))
        # matching_rank=False, the four layouts
        for wd in (False, True):
            for wl in (False, True):
                out, err = call(numerical.svd_kernel, A.copy(), matching_rank=False, with_dimensions=wd, with_loc=wl)
                cx.act("svd_kernel(matching_rank=False)")
                k2 = key + ":dims=%s:loc=%s" % (wd, wl)
                if err:
                    cx.bad(k2, "svd_kernel.grouped.raised", error=err)
                    continue
                try:
                    if wd and wl:
                        dims, bases, locs = out
                    elif wd:
                        dims, bases = out
                        locs = None
                    elif wl:
                        bases, locs = out
                        dims = None
                    else:
                        dims, bases, locs = None, out, None
                    assert isinstance(bases, tuple) and len(bases) == len(c["dimseq"])
                except Exception:
                    cx.bad(k2, "svd_kernel.grouped.layout", want_groups=len(c["dimseq"]), got=repr(type(out)))
                    continue
                if dims is not None and list(np.asarray(dims).tolist()) != c["dimseq"]:
                    cx.bad(k2, "svd_kernel.grouped.dimensions", got=np.asarray(dims).tolist(), want=c["dimseq"])
                for g, d in enumerate(c["dimseq"]):
                    idx = c["groups"][g]
                    Kg = np.asarray(bases[g])
                    if Kg.shape != (len(idx), C, d):
                        cx.bad(k2, "svd_kernel.grouped.shape", dim=d, got=list(Kg.shape), want=[len(idx), C, d])
                        continue
                    for j, i in enumerate(idx):
                        check_basis(cx, k2, A[i], Kg[j], c["kers"][i], "svd_kernel.grouped")
                    if locs is not None:
                        mask = np.zeros(B, dtype=bool)
                        mask[idx] = True
                        if not (len(locs) == len(c["dimseq"]) and np.array_equal(np.asarray(locs[g]), mask)):
                            cx.bad(k2, "svd_kernel.grouped.masks", dim=d, got=np.asarray(locs[g]).tolist() if len(locs) > g else None, want=mask.tolist())
        # assume_full_rank
        if c["allfull"]:
            d = max(C - c["r"], 0)
            for arg, shp, tag in ((A, (B,), "batch"), (A[0], (), "unit")):
                out, err = call(numerical.svd_kernel, arg.copy(), assume_full_rank=True)
                cx.act("svd_kernel(assume_full_rank)")
                if err or np.asarray(out).shape != shp + (C, d):
                    cx.bad(key + ":" + tag, "svd_kernel.full_rank.shape", got=err or list(np.asarray(out).shape), want=list(shp + (C, d)))
                else:
                    K = np.asarray(out).reshape((B if shp else 1, C, d))
                    for i in range(K.shape[0]):
                        check_basis(cx, key, A[i], K[i], c["kers"][i], "svd_kernel.full_rank")
        out, err = call(numerical.svd_kernel, A.copy(), assume_full_rank=True, matching_rank=False)
        cx.act("svd_kernel(assume_full_rank, matching_rank=False)")
        if exc_name(err) != "ValueError":
            cx.bad("svd_kernel:assume_full_rank+matching_rank=False", "svd_kernel.options.must_refuse", got=err or "returned")
    mixed = [c for c in recs if not c["matching"] and len(c["batch"]) >= 3]
    if mixed:
        c = mixed[len(mixed) // 2]
        cx.run.sample(dict(kind="svd_kernel batch", batch=c["batch"], kernel_dims=c["dims"], distinct_dims=c["dimseq"], groups=c["groups"]))
    cx.run.traces += len(recs)


def replay_tol(cx, recs):
    from geometry_tools.utils import numerical
    recs = [c for c in recs if c["indomain"]]
    groups = {}
    for c in recs:
        cx.run.case(key=("tol", jkey(c["rows"]), jkey(c["exps"]), c["tol"]), action="tolerance_state")
        M = np.array(c["rows"], dtype=float) * np.array([10.0 ** (-e) for e in c["exps"]])[:, None]
        tol = 10.0 ** (-c["tol"])
        key = "svd_kernel.tolerance:%s:e=%s:t=%d" % (jkey(c["rows"]), jkey(c["exps"]), c["tol"])
        kw = {} if c["tol"] == 8 else dict(tolerance=tol)
        out, err = call(numerical.svd_kernel, M.copy(), **kw)
        cx.act("svd_kernel(tolerance)")
        if err or np.asarray(out).shape != (c["c"], c["dim"]):
            cx.bad(key, "svd_kernel.tolerance.dimension", rows=c["rows"], exponents=c["exps"], tolerance_exponent=c["tol"],
                   got=err or list(np.asarray(out).shape), want=[c["c"], c["dim"]], counted=c["counted"])
        else:
            check_basis(cx, key, M, out, None, "svd_kernel.tolerance", relrows=np.array(c["counted"], dtype=bool))
        groups.setdefault((len(c["rows"]), c["c"], c["dim"], c["tol"]), []).append(M)
    for (k, C, d, t), Ms in sorted(groups.items()):
        A = np.array(Ms)
        out, err = call(numerical.svd_kernel, A.copy(), tolerance=10.0 ** (-t))
        cx.act("svd_kernel(tolerance)", len(Ms))
        if err or np.asarray(out).shape != (len(Ms), C, d):
            cx.bad("svd_kernel.tolerance:batch:k=%d:c=%d:d=%d:t=%d" % (k, C, d, t), "svd_kernel.tolerance.batch",
                   got=err or list(np.asarray(out).shape), want=[len(Ms), C, d])
    drop = [c for c in recs if not all(c["counted"])]
    if drop:
        cx.run.sample(dict(kind="svd_kernel tolerance", case=drop[len(drop) // 2]))
    cx.run.traces += len(recs)


# ----------------------------------------------------------------------------------------
# number packaging
# ----------------------------------------------------------------------------------------
NPK = dict(bool=np.dtype(bool), int8=np.dtype("int8"), int64=np.dtype("int64"), uint8=np.dtype("uint8"),
           float32=np.dtype("float32"), float64=np.dtype("float64"), complex64=np.dtype("complex64"),
           complex128=np.dtype("complex128"), object=np.dtype(object), str=np.dtype("<U1"))


def kind_of(dt):
    dt = np.dtype(dt)
    if dt.kind == "U":
        return "str"
    for k, v in NPK.items():
        if v == dt:
            return k
    return str(dt)


def make_like(l):
    if l == "none":
        return None
    if l.startswith("arr:"):
        k = l[4:]
        if k == "object":
            return np.array([None, None], dtype=object)
        if k == "str":
            return np.array(["a", "b"])
        return np.ones(2, dtype=NPK[k])
    return {"py:int": 3, "py:float": 2.5, "py:complex": 1j, "py:bool": True, "py:str": "a", "py:list_int": [1, 2],
            "py:list_float": [1.0, 2.5], "py:object": object()}[l]


def replay_types(cx, recs):
    from geometry_tools import utils
    from geometry_tools.utils import types
    if utils.SAGE_AVAILABLE:
        raise core.MachineryFailure("X06 specifies the Sage-free behaviour; Sage is importable here")
    for c in recs:
        fam = c["fam"]
        if fam == "check_type":
            cx.run.case(key=("check_type", c["dtype"], c["like"], c["integer_type"]), action="check_type")
            kw = {}
            if c["dtype"] != "none":
                kw["dtype"] = NPK[c["dtype"]]
            like = make_like(c["like"])
            if like is not None:
                kw["like"] = like
            key = "check_type:dtype=%s:like=%s:integer_type=%s" % (c["dtype"], c["like"], c["integer_type"])
            out, err = call(utils.check_type, integer_type=c["integer_type"], **kw)
            cx.act("check_type")
            if err or out[0] is not None or kind_of(out[1]) != c["result"]:
                cx.bad(key, "check_type.result", got=err or [repr(out[0]), str(out[1])], want=c["result"])
                continue
            # the array constructors built on it
            res = NPK[c["result"]]
            for name, fn, val in (("zeros", lambda: utils.zeros((2, 3), integer_type=c["integer_type"], **kw), 0),
                                  ("ones", lambda: utils.ones((2, 3), integer_type=c["integer_type"], **kw), 1),
                                  ("identity", lambda: utils.identity(3, integer_type=c["integer_type"], **kw), None)):
                if c["result"] in ("str", "object") and name != "zeros":
                    continue
                out, err = call(fn)
                cx.act(name)
                ok = (not err) and kind_of(np.asarray(out).dtype) == c["result"]
                if ok and c["result"] not in ("str", "object"):
                    ok = np.array_equal(np.asarray(out), np.eye(3, dtype=res) if val is None else np.full((2, 3), val, dtype=res))
                if not ok:
                    cx.bad(key + ":" + name, name + ".dtype_or_value", got=err or [str(np.asarray(out).dtype), np.asarray(out).tolist()], want=c["result"])
            if c["result"] not in ("str", "object") and not isinstance(like, (str, object().__class__)) or like is None or isinstance(like, (np.ndarray, int, float, complex, list)):
                if c["result"] not in ("str", "object"):
                    out, err = call(utils.array_like, [[1, 0], [0, 1]], integer_type=c["integer_type"], **kw)
                    cx.act("array_like")
                    if err or kind_of(np.asarray(out).dtype) != c["result"] or not np.array_equal(np.asarray(out), np.eye(2, dtype=res)):
                        cx.bad(key + ":array_like", "array_like.dtype_or_value", got=err or str(np.asarray(out).dtype), want=c["result"])
            # a base ring cannot be honoured without Sage
            if c["dtype"] == "none" and c["like"] == "none":
                out, err = call(utils.check_type, base_ring="QQ")
                if exc_name(err) not in ("OSError", "EnvironmentError"):
                    cx.bad("check_type:base_ring", "check_type.base_ring_refused", got=err or repr(out))
        elif fam == "kind":
            k = c["kind"]
            cx.run.case(key=("kind", k), action="type_predicates")
            dt = NPK[k]
            lattice = (bool(np.can_cast(dt, int)), bool(np.can_cast(dt, float)), bool(np.can_cast(dt, complex)))
            if lattice != (c["to_int"], c["to_float"], c["to_complex"]):
                raise core.MachineryFailure("NumPy's casting lattice differs from XTypes.tla for %s: %r" % (k, lattice))
            arr = make_like("arr:" + k)
            samples = [("array", arr)]
            py = {"bool": True, "int64": 7, "float64": 0.5, "complex128": 2j, "str": "a", "object": None}.get(k, "skip")
            if not (isinstance(py, str) and py == "skip"):
                samples.append(("python", py))
            for tag, x in samples:
                for name, fn, want in (("is_linalg_type", types.is_linalg_type, c["linalg"]), ("inexact_type", types.inexact_type, c["inexact"])):
                    out, err = call(fn, x)
                    cx.act(name)
                    if err or bool(out) != want:
                        cx.bad("types:%s:%s:%s" % (name, k, tag), "types." + name, kind=k, argument=tag, got=err or bool(out), want=want)
        elif fam == "number":
            val = c["val"][0] / c["val"][1] if c["val"][1] != 1 else int(c["val"][0])
            cx.run.case(key=("number", jkey(c["val"]), c["dtype"], c["like"], c["base_ring"]), action="number")
            kw = {}
            if c["dtype"] != "none":
                kw["dtype"] = NPK[c["dtype"]]
            if c["like"] != "none":
                kw["like"] = make_like(c["like"])
            if c["base_ring"]:
                kw["base_ring"] = "QQ"
            key = "number:%s:dtype=%s:like=%s:base_ring=%s" % (jkey(c["val"]), c["dtype"], c["like"], c["base_ring"])
            out, err = call(utils.number, val, **kw)
            cx.act("number")
            if c["raises"]:
                if exc_name(err) != "UserWarning":
                    cx.bad(key, "number.must_refuse", got=err or repr(out), want="UserWarning raised")
                continue
            want = c["value"][0] / c["value"][1]
            pyk = {"int": int, "float": float, "complex": complex}[c["kind"]]
            if err or type(out) is not pyk or out != want:
                cx.bad(key, "number.value", got=err or repr(out), want="%s(%r)" % (c["kind"], want))
        elif fam == "power":
            cx.run.case(key=("power", c["base"], c["exp"], c["dtype"], c["like"]), action="power")
            kw = {}
            if c["dtype"] != "none":
                kw["dtype"] = NPK[c["dtype"]]
            if c["like"] != "none":
                kw["like"] = make_like(c["like"])
            for b in (c["base"], np.array([c["base"], c["base"]])):
                out, err = call(utils.power, b, c["exp"], **kw)
                cx.act("power")
                if err or not np.array_equal(np.asarray(out), np.full(np.shape(b), c["value"])):
                    cx.bad("power:%d^%d:%s" % (c["base"], c["exp"], jkey([c["dtype"], c["like"]])), "power.value",
                           got=err or np.asarray(out).tolist(), want=c["value"])
        elif fam == "trig":
            cx.run.case(key=("trig", c["quarter_turns"], jkey(c["z"]), c["like"]), action="elementary")
            kw = {} if c["like"] == "none" else dict(like=make_like(c["like"]))
            x = c["quarter_turns"] * math.pi / 2
            for name, fn, want in (("cos", utils.cos, c["cos"]), ("sin", utils.sin, c["sin"])):
                for arg in (x, np.array([x, x])):
                    out, err = call(fn, arg, **kw)
                    cx.act(name)
                    if err or not np.allclose(np.asarray(out), want, atol=1e-12, rtol=0) or np.shape(out) != np.shape(arg):
                        cx.bad("trig:%s:%d" % (name, c["quarter_turns"]), name + ".value", got=err or np.asarray(out).tolist(), want=want)
            z = complex(*c["z"])
            out, err = call(utils.conjugate, np.array([z, 2 * z]), **kw)
            cx.act("conjugate")
            if err or not np.array_equal(np.asarray(out), np.array([complex(*c["conj"]), 2 * complex(*c["conj"])])):
                cx.bad("conjugate:%s" % jkey(c["z"]), "conjugate.value", got=err or np.asarray(out).tolist(), want=c["conj"])
            for name, fn in (("real", utils.real), ("imag", utils.imag)):
                out, err = call(fn, np.array([z]))
                cx.act(name)
                if err or float(np.asarray(out)[0]) != (c["z"][0] if name == "real" else c["z"][1]):
                    cx.bad("%s:%s" % (name, jkey(c["z"])), name + ".value", got=err or np.asarray(out).tolist())
    # constants and ring changes (Sage-free)
    cx.run.case(key=("constants",), action="constants")
    for kw in ({}, dict(like=np.zeros(2)), dict(dtype=float), dict(like=3)):
        out, err = call(utils.pi, **kw)
        cx.act("pi")
        if err or out != math.pi:
            cx.bad("pi:%s" % sorted(kw), "pi.value", got=err or repr(out))
        out, err = call(utils.unit_imag, **kw)
        cx.act("unit_imag")
        if err or out != 1j:
            cx.bad("unit_imag:%s" % sorted(kw), "unit_imag.value", got=err or repr(out))
    a = np.arange(6.0).reshape(2, 3)
    out, err = call(utils.change_base_ring, a)
    cx.act("change_base_ring")
    if err or out is not a:
        cx.bad("change_base_ring:none", "change_base_ring.identity", got=err or "a different object")
    out, err = call(utils.change_base_ring, a, "QQ")
    if exc_name(err) not in ("OSError", "EnvironmentError"):
        cx.bad("change_base_ring:ring", "change_base_ring.refused_without_sage", got=err or repr(out))
    for x in (a, [1, 2], "x", np.array([None], dtype=object)):
        out, err = call(utils.guess_literal_ring, x)
        cx.act("guess_literal_ring")
        if err or out is not None:
            cx.bad("guess_literal_ring", "guess_literal_ring.none_without_sage", got=err or repr(out))
    ct = [c for c in recs if c["fam"] == "check_type" and c["like"] == "arr:int8" and not c["integer_type"] and c["dtype"] == "none"]
    cx.run.sample(dict(kind="check_type", case=ct[0] if ct else recs[0]))
    cx.run.traces += len(recs)


# ----------------------------------------------------------------------------------------
# assert_numpy_equivalent
# ----------------------------------------------------------------------------------------
def build_obj(o):
    from geometry_tools import projective
    def arr(x):
        return None if x == ["none"] else np.array(x, dtype=float)
    aux, dual = arr(o["aux"]), arr(o["dual"])
    return projective.ProjectiveObject(np.array(o["proj"], dtype=float), aux_data=aux, dual_data=dual, unit_ndims=1,
                                       aux_ndims=0 if aux is None else 1, dual_ndims=0 if dual is None else 1)


def edited(o, ed):
    from geometry_tools import projective
    t = ed["t"]
    nu, ncrd = np.array(o["proj"]).shape
    def stores(f=lambda name, a: a, dtype=float):
        out = {}
        for name in ("proj", "aux", "dual"):
            out[name] = None if o[name] == ["none"] else f(name, np.array(o[name], dtype=float)).astype(dtype)
        return out
    und = 1
    if t == "same":
        s = stores()
    elif t == "add":
        def f(name, a):
            if name == ed["store"]:
                a = a.copy()
                a[ed["i"] - 1, ed["c"] - 1] += 10.0 ** (-ed["k"])
            return a
        s = stores(f)
    elif t == "scale2":
        s = stores(lambda name, a: 2 * a if name == ed["store"] else a)
    elif t == "dtype":
        s = stores(dtype=NPK[ed["to"]])
    elif t == "drop_unit":
        s = stores(lambda name, a: a[:-1])
    elif t == "grid":
        s = stores(lambda name, a: a.reshape((2, nu // 2, ncrd)))
    elif t == "pairs":
        s = stores(lambda name, a: a.reshape((nu // 2, 2, ncrd)))
        und = 2
    elif t == "remove":
        s = stores()
        s[ed["store"]] = None
    aux_nd = 0 if s["aux"] is None else und
    dual_nd = 0 if s["dual"] is None else und
    return projective.ProjectiveObject(s["proj"], aux_data=s["aux"], dual_data=s["dual"], unit_ndims=und, aux_ndims=aux_nd,
                                       dual_ndims=dual_nd)


def replay_equiv(cx, recs):
    from geometry_tools.utils.testing import assert_numpy_equivalent
    for c in recs:
        cx.run.case(key=("equiv", jkey(c["obj"]), jkey(c["edit"])), action="assert_numpy_equivalent")
        key = "equiv:%s:%s" % (jkey(c["edit"]), jkey(c["obj"]["proj"]))
        try:
            o1, o2 = build_obj(c["obj"]), edited(c["obj"], c["edit"])
        except Exception as e:
            raise core.MachineryFailure("cannot build the objects of an XEquiv case %r: %s: %s" % (c["edit"], type(e).__name__, e))
        cx.act("assert_numpy_equivalent")
        try:
            assert_numpy_equivalent(o1, o2)
            got = True
        except AssertionError:
            got = False
        except Exception as e:
            cx.bad(key, "assert_numpy_equivalent.raised", edit=c["edit"], error="%s: %s" % (type(e).__name__, e))
            continue
        if got != c["accept"]:
            cx.bad(key, "assert_numpy_equivalent.verdict", edit=c["edit"], object=c["obj"], got="accepted" if got else "rejected",
                   want="accept" if c["accept"] else "reject")
    adds = [c for c in recs if c["edit"]["t"] == "add"]
    cx.run.sample(dict(kind="assert_numpy_equivalent", case=adds[len(adds) // 3]))
    cx.run.traces += len(recs)


# ----------------------------------------------------------------------------------------
def run(run, replay=None):
    if replay:
        with open(replay) as f:
            rp = json.load(f)
        run.tier = rp.get("tier", run.tier)
        run.seed = rp.get("seed", run.seed)
        print("replaying tier=%s seed=%s; recorded first violation: %s" % (run.tier, run.seed, json.dumps(rp.get("first"))[:400]))
    quick = run.tier == "quick"
    core.import_repo()
    run.rule = ("a case is one OBS record (one TLC state) replayed through every function it specifies, as a single unit and in "
                "stacked / batch-of-one / grid batches where the function takes arrays; distinct_nontrivial counts distinct records")
    run.assumptions += [
        "Sage is not installed: only the Sage-free branches are specified and executed",
        "permutations of 0..n-1, n = 3, 4 (5 thorough); eigenvalues Gaussian integers with pairwise distinct moduli",
        "positive functionals: integer vectors in [-1,1]^n (n = 2, 3), up to 4 per unit; only states decided by a bounded exact "
        "certificate (small functional or Gordan combination) are replayed",
        "svd_kernel options: batches of up to 3 matrices 2x2, 2x3, 3x2 (3x3, 3x4 thorough) with entries in [-1,1]; tolerance: "
        "orthogonal integer rows scaled by 10^-e, tolerances 10^-2, 10^-5, 10^-8 (default), exact ties excluded",
        "uint64 is outside the domain of inexact_type (NumPy does not cast it safely to int64)",
    ]
    W = max(1, min(4, core.NCPU))
    jobs = [
        job("perm_n3", "XPerm.tla", dict(N=3), PERM_INV, workers=2),
        job("perm_n4", "XPerm.tla", dict(N=4), PERM_INV, workers=W),
        job("stdforms", "XStdForms.tla", dict(MaxN=6 if quick else 8), FORM_INV, workers=1),
        job("cone_n2", "XCone.tla", dict(N=2, Rng=1, MaxVecs=4, FK=2, CK=2), CONE_INV[:-1] + ["Complete", "EmitObs"], workers=W),
        job("kopts_2x2", "XKernelOpts.tla", dict(NR=2, NC=2, Rng=1, MaxSupp=2, MaxBatch=2), KOPT_INV, workers=W),
        job("kopts_2x3_sim", "XKernelOpts.tla", dict(NR=2, NC=3, Rng=1, MaxSupp=3, MaxBatch=3), KOPT_INV, workers=W,
            simulate=60 if quick else 600, depth=4),
        job("kopts_3x2_sim", "XKernelOpts.tla", dict(NR=3, NC=2, Rng=1, MaxSupp=2, MaxBatch=3), KOPT_INV, workers=W,
            simulate=40 if quick else 400, depth=4),
        job("tol_c3", "XSvdTol.tla", dict(C=3, Rng=1, MaxRows=2 if quick else 3, Exps={0, 3, 9}, Tols={2, 8}), TOL_INV, workers=W),
        job("types", "XTypes.tla", {}, TYPE_INV, workers=2),
        job("equiv", "XEquiv.tla", dict(NU=4, NC=3), EQUIV_INV, workers=2),
    ]
    if quick:
        jobs += [job("cone_n3_sim", "XCone.tla", dict(N=3, Rng=1, MaxVecs=4, FK=4, CK=2), CONE_INV, workers=W, simulate=25, depth=5)]
    else:
        jobs += [
            job("perm_n5", "XPerm.tla", dict(N=5), PERM_INV, workers=W),
            job("cone_n3", "XCone.tla", dict(N=3, Rng=1, MaxVecs=3, FK=4, CK=2), CONE_INV[:-1] + ["Complete", "EmitObs"], workers=W),
            job("cone_n3_sim", "XCone.tla", dict(N=3, Rng=1, MaxVecs=5, FK=4, CK=3), CONE_INV, workers=W, simulate=150, depth=6),
            job("cone_n2_r2", "XCone.tla", dict(N=2, Rng=2, MaxVecs=3, FK=4, CK=4), CONE_INV, workers=W),
            job("kopts_3x3_sim", "XKernelOpts.tla", dict(NR=3, NC=3, Rng=1, MaxSupp=3, MaxBatch=4), KOPT_INV, workers=W, simulate=400, depth=5),
            job("kopts_3x4_sim", "XKernelOpts.tla", dict(NR=3, NC=4, Rng=1, MaxSupp=2, MaxBatch=4), KOPT_INV, workers=W, simulate=400, depth=5),
            job("tol_c4", "XSvdTol.tla", dict(C=4, Rng=1, MaxRows=2, Exps={0, 6, 9}, Tols={5, 8}), TOL_INV, workers=W),
        ]
    recs = c18.run_jobs(run, jobs, parallel=3 if quick else 3)
    cx = Ctx(run)
    pick = lambda prefix: [o for k, v in sorted(recs.items()) if k.startswith(prefix) for o in v]
    replay_perm(cx, pick("perm"))
    replay_forms(cx, pick("stdforms"))
    replay_cone(cx, pick("cone"))
    replay_kopts(cx, pick("kopts"))
    replay_tol(cx, pick("tol"))
    replay_types(cx, pick("types"))
    replay_equiv(cx, pick("equiv"))
    run.extra["records"] = {k: len(v) for k, v in sorted(recs.items())}
    run.extra["violations_by_clause_family"] = dict(cx.V.count)
