"""C12 (a): execute every (entry point, packaging, value) case of spec/num/Packaging.tla."""
import math

import numpy as np

from .. import core
from .. import hyp_common as hc

SCALAR_VALUES = {
    # entry -> {"frac": x, "int": k, "zero": 0}
    "default": {"frac": 0.3, "int": 1, "zero": 0},
    "standard_loxodromic": {"frac": 1.5, "int": 2},
    "regular_polygon_angle": {"frac": 0.4, "int": 1},
    "regular_polygon_radius": {"frac": 0.7, "int": 1},
    "regular_polygon_radius_fn": {"frac": 0.4, "int": 1},
    "polygon_interior_angle_fn": {"frac": 0.7, "int": 1},
}

ARRAY_VALUES = {
    "elliptic_block": {"frac": [[0.6, -0.8], [0.8, 0.6]], "int": [[0, -1], [1, 0]]},
    "sl2_iso": {"frac": [[1.5, 0.5], [1.0, 1.0]], "int": [[2, 1], [1, 1]]},
    "point_klein": {"frac": [0.3, 0.2], "int": [0, 0]},
    "point_projective": {"frac": [1.5, 0.5, 1.0], "int": [3, 2, 2]},
    "transformation": {"frac": [[2, 0.5, 0], [0, 1, 0], [0, 0, 1]], "int": [[2, 1, 0], [0, 1, 0], [0, 0, 1]]},
    "array_like_matrix": {"frac": [[0.5, 1], [0, 2]], "int": [[2, 1], [1, 1]]},
    "isometry_matrix": {"frac": [[1.25, 0.75, 0], [0.75, 1.25, 0], [0, 0, 1]], "int": [[3, 2, 2], [2, 2, 1], [2, 1, 2]]},
    "tangent_vector": {"frac": [[1.5, 0.5, 1.0], [0.5, 1.5, 0.0]], "int": [[3, 2, 2], [2, 3, 0]]},
    "segment": {"frac": [[1.5, 0.5, 1.0], [1.0, 0.0, 0.25]], "int": [[3, 2, 2], [2, 0, 1]]},
    "polygon": {"frac": [[1.0, 0.5, 0.0], [1.0, 0.0, 0.5], [1.0, -0.5, -0.25]], "int": [[2, 1, 0], [2, 0, 1], [3, -1, -1]]},
    "ideal_from_angle_grid": {"frac": [[0.3, 1.1], [2.0, -0.7]], "int": [[0, 1], [2, 3]]},
    "ideal_from_angle_vector": {"frac": [0.3, 1.1, 2.0], "int": [0, 1, 2]},
    "point_from_parts": {"frac": [1.5, 0.5, 1.0], "int": [3, 2, 2]},
    "point_poincare": {"frac": [0.25, -0.5], "int": [0, 0]},
    "point_halfspace": {"frac": [0.5, 1.5], "int": [1, 2]},
    "point_hyperboloid": {"frac": [1.25, 0.75, 0.0], "int": [3, 2, 2]},
    "points_halfspace": {"frac": [[0.5, 1.5], [-1.0, 0.25]], "int": [[1, 2], [0, 3]]},
    "points_poincare": {"frac": [[0.25, -0.5], [0.0, 0.5]], "int": [[0, 0], [0, 0]]},
    "transformation_from_parts": {"frac": [[2, 0.5, 0], [0, 1, 0], [0, 0, 1]], "int": [[2, 1, 0], [0, 1, 0], [0, 0, 1]]},
    "polygon_from_parts": {"frac": [[1.0, 0.5, 0.0], [1.0, 0.0, 0.5], [1.0, -0.5, -0.25]], "int": [[2, 1, 0], [2, 0, 1], [3, -1, -1]]},
    "hyperplane_reflection": {"frac": [0.5, 1.5, 0.25], "int": [1, 2, 0]},
    "hyperplane_reflection_scaled": {"frac": [1.5, 4.5, -0.75], "int": [3, 6, -3]},
    "geodesic_reflection": {"frac": [[1.5, 1.5, 0.0], [0.5, 0.0, -0.5]], "int": [[3, 3, 0], [2, 0, -2]]},
}


def pack_scalar(p, v):
    return {
        "py_float": lambda: float(v), "py_int": lambda: int(v),
        "np_float64": lambda: np.float64(v), "np_float32": lambda: np.float32(v),
        "np_int64": lambda: np.int64(v), "np_int32": lambda: np.int32(v),
        "np_int16": lambda: np.int16(v), "np_uint8": lambda: np.uint8(v),
        "zero_d_float": lambda: np.array(float(v)), "zero_d_int": lambda: np.array(int(v)),
        "zero_d_int32": lambda: np.array(int(v), dtype=np.int32), "zero_d_int16": lambda: np.array(int(v), dtype=np.int16),
        "zero_d_uint8": lambda: np.array(int(v), dtype=np.uint8),
    }[p]()


def exact_cast(v, dtype):
    """the packaging must carry the value exactly (the spec's domain says it can); anything else is a fault of the
    tables of this harness, not of the library"""
    a = np.array(v)
    if (a < 0).any():
        raise core.MachineryFailure("value %r is not in the domain of an unsigned packaging (Packaging.tla SignedValueEntries)" % (v,))
    return a.astype(dtype)


def pack_array(p, v):
    def deep(f, x):
        return [deep(f, y) for y in x] if isinstance(x, list) else f(x)
    return {
        "nested_list_float": lambda: deep(float, v), "nested_list_int": lambda: deep(int, v),
        "ndarray_float64": lambda: np.array(v, dtype=np.float64), "ndarray_float32": lambda: np.array(v, dtype=np.float32),
        "ndarray_int64": lambda: np.array(v, dtype=np.int64),
        "ndarray_int32": lambda: np.array(v, dtype=np.int32), "ndarray_int16": lambda: np.array(v, dtype=np.int16),
        "ndarray_uint8": lambda: exact_cast(v, np.uint8),
        "tuple_float": lambda: tuple(deep(float, v)) if not isinstance(v[0], list) else tuple(tuple(deep(float, r)) for r in v),
    }[p]()


def call(entry, x, tol=1e-9):
    """returns a list of arrays/scalars: the data of the object the entry point returns (+ follow-up outputs)"""
    from geometry_tools import utils, coxeter
    from geometry_tools import projective as P
    H = hc.H()
    if entry == "rotation_matrix":
        return [utils.rotation_matrix(x)]
    if entry == "standard_rotation2":
        return [H.Isometry.standard_rotation(x).matrix]
    if entry == "standard_rotation3":
        return [H.Isometry.standard_rotation(x, dimension=3).matrix]
    if entry == "standard_loxodromic":
        return [H.Isometry.standard_loxodromic(2, x).matrix]
    if entry == "ideal_from_angle":
        p = H.IdealPoint.from_angle(x)
        return [p.proj_data, p.coords("klein")]
    if entry == "regular_polygon_angle":
        p = H.Polygon.regular_polygon(5, angle=x)
        return [p.proj_data, p.coords("poincare")]
    if entry == "regular_polygon_radius":
        p = H.Polygon.regular_polygon(5, radius=x)
        return [p.proj_data, p.coords("poincare")]
    if entry == "regular_polygon_radius_fn":
        return [H.regular_polygon_radius(5, x)]
    if entry == "polygon_interior_angle_fn":
        return [H.polygon_interior_angle(5, x)]
    if entry == "number_like":
        # the VALUE is the caller's number; `like` only says what kind of arithmetic is wanted: a fractional value or one
        # beyond the range of a narrow template type must come back unchanged whatever the template's packaging
        return [utils.number(2, like=x), utils.number(0.5, like=x), utils.number(300, like=x), utils.number(-1.25, like=x)]
    if entry == "zeros_like":
        return [utils.zeros((2, 2), like=x) + 1]
    if entry == "identity_like":
        return [utils.identity(2, like=x)]
    if entry == "array_like_scalar":
        return [utils.array_like([[x, 0], [0, x + 1]])]
    if entry == "elliptic_block":
        return [H.Isometry.elliptic(2, x).matrix]
    if entry == "sl2_iso":
        return [H.sl2_iso(x).matrix]
    if entry == "point_klein":
        p = H.Point(x, model="klein")
        return [p.proj_data, p.coords("hyperboloid"), p.coords("poincare"), p.distance(H.Point.get_origin(2))]
    if entry in ("point_poincare", "point_halfspace", "point_hyperboloid", "points_halfspace", "points_poincare"):
        model = entry.split("_")[1]
        p = H.Point(x, model=model)
        o = H.Point.get_origin(2)
        return [p.coords("klein"), p.coords("hyperboloid"), p.coords("poincare"), p.coords("halfspace"), p.distance(o)]
    if entry == "point_projective":
        p = H.Point(x)
        return [p.coords("klein"), p.coords("hyperboloid"), p.coords("halfspace"), p.origin_to().matrix]
    if entry in ("hyperplane_reflection", "hyperplane_reflection_scaled", "geodesic_reflection"):
        h = H.Geodesic(x) if entry == "geodesic_reflection" else H.Hyperplane(x)
        r = h.reflection_across()
        q = H.Point(np.array([3.0, 2.0, 2.0]))
        # the reflection, its square (the identity), the image of a point, and the form it preserves
        m = np.asarray(r.matrix)
        return [m, (r @ r).matrix, (r @ q).coords("klein"), m @ hc.J(3) @ np.swapaxes(m, -1, -2)]
    if entry == "transformation":
        t = P.Transformation(x)
        return [t.matrix, t.inv().matrix, (t @ P.Point(np.array([1.0, 2.0, 3.0]))).proj_data]
    if entry == "array_like_matrix":
        return [utils.array_like(x)]
    if entry == "isometry_matrix":
        t = H.Isometry(x, column_vectors=True)
        return [t.matrix, (t @ H.Point(np.array([3.0, 2.0, 2.0]))).coords("klein")]
    if entry == "tangent_vector":
        xa = x if not isinstance(x, (list, tuple)) else x
        t = H.TangentVector(xa[0], xa[1])
        return [t.normalized().aux_data, t.point_along(0.5).coords("klein")]
    if entry == "segment":
        s = H.Segment(x[0], x[1])
        c, r, th = s.circle_parameters()
        return [s.ideal_endpoint_coords(), c, r]
    if entry == "polygon":
        p = H.Polygon(x)
        return [p.coords("klein"), p.get_edges().proj_data]
    if entry in ("ideal_from_angle_grid", "ideal_from_angle_vector"):
        p = H.IdealPoint.from_angle(x)
        th = np.asarray(x, dtype=float)
        data = np.asarray(p.proj_data, float)
        # unit by unit, what the scalar call gives
        for idx in np.ndindex(th.shape):
            one = np.asarray(H.IdealPoint.from_angle(float(th[idx])).proj_data, float)
            if data.shape != th.shape + (3,) or not np.allclose(data[idx], one, atol=max(1e-12, tol)):
                raise AssertionError("from_angle(array)%r = %r, from_angle(%r) = %r" % (idx, data[idx].tolist() if data.shape == th.shape + (3,) else data.shape, float(th[idx]), one.tolist()))
        return [p.proj_data, p.coords("klein")]
    if entry == "point_from_parts":
        p = H.Point([H.Point(x), H.Point(np.array([1.25, 0.75, 0.5]))])
        return [p.proj_data, p.coords("klein")]
    if entry == "transformation_from_parts":
        t = P.Transformation([P.Transformation(x), P.Transformation(np.array([[1.0, 0.25, 0], [0, 1.5, 0], [0.5, 0, 1]]))])
        return [t.matrix, (t @ P.Point(np.array([1.0, 2.0, 3.0]))).proj_data]
    if entry == "polygon_from_parts":
        p = H.Polygon([H.Polygon(x), H.Polygon(np.array([[1.0, 0.25, 0.5], [1.0, -0.5, 0.125], [1.0, 0.0, -0.75]]))])
        return [p.proj_data, p.get_edges().proj_data, p.coords("klein")]
    if entry == "coxeter_matrix":
        G = coxeter.CoxeterGroup(matrix=x)
        out = [G.canonical_representation()["ab"], G.geometric_representation()["c"], G.hyperbolic_rep()["a"].matrix, G.bilinear_form()]
        # a second round on the same group object must give the same answers (the labels the caller supplied
        # must not have been consumed / altered by the first round)
        out += [G.canonical_representation()["ab"], G.bilinear_form(), np.asarray(G.cartan_matrix({(0, 2): -3.0}))]
        return out
    if entry == "triangle_group":
        G = coxeter.TriangleGroup(x)
        return [G.canonical_representation()["abc"], G.hyperbolic_rep()["b"].matrix]
    if entry == "coxeter_diagram":
        G = coxeter.CoxeterGroup(diagram=x)
        return [G.canonical_representation()["ab"], G.bilinear_form()]
    raise KeyError(entry)


def make_input(entry, pack, val, canonical=False):
    if entry in ("coxeter_matrix", "triangle_group", "coxeter_diagram"):
        labels = [[1, 3, -1], [3, 1, 7], [-1, 7, 1]]           # an infinite label, written as a negative number
        if entry == "coxeter_matrix":
            if pack in ("ndarray_int64", "ndarray_int32"):
                return np.array(labels, dtype=np.int64 if pack == "ndarray_int64" else np.int32)
            if pack == "ndarray_float64":
                return np.array(labels, dtype=np.float64)
            if pack == "nested_list_float":
                return [[float(v) for v in row] for row in labels]
            if pack == "nested_list_int":
                return labels
            f = {"py_int": int, "np_int64": np.int64, "np_int32": np.int32, "np_int16": np.int16}[pack]
            return [[f(v) for v in row] for row in labels]
        f = {"py_int": int, "np_int64": np.int64, "np_int32": np.int32, "np_int16": np.int16, "ndarray_int64": np.int64,
             "ndarray_int32": np.int32, "nested_list_int": int, "ndarray_float64": np.float64, "nested_list_float": float}[pack]
        if entry == "triangle_group":
            t = (f(3), f(3), f(4))
            return np.array(t) if pack.startswith("ndarray") else (list(t) if pack.startswith("nested_list") else t)
        return [("a", "b", f(3)), ("b", "c", f(7)), ("c", "a", f(-1))]
    if entry in ARRAY_VALUES:
        return pack_array(pack, ARRAY_VALUES[entry][val])
    v = SCALAR_VALUES.get(entry, SCALAR_VALUES["default"]).get(val, SCALAR_VALUES["default"][val])
    return pack_scalar(pack, v)


def kind_of(a):
    a = np.asarray(a)
    return a.dtype.kind


def run(run):
    from geometry_tools import utils
    c = core.cfg(invariants=["NeverObject", "CanonicalInDomain", "CanonicalFullPrecision", "ToleranceBounded", "Coverage", "NarrowIntCoverage", "EmitCase"])
    r = run.tlc("num/Packaging.tla", c, name="Packaging", workers=2, emit_prefix="CASE ")
    for e in r.emits:
        entry, pack, val = e["entry"], e["pack"], e["val"]
        key = "pack:%s:%s:%s" % (entry, pack, val)
        run.case(key=key, nontrivial=pack != e["canonical"], action="packaging:" + entry)
        x_ref, x_in = make_input(entry, e["canonical"], val), make_input(entry, pack, val)
        try:
            with np.errstate(all="ignore"):
                ref = call(entry, x_ref)
        except Exception as ex:
            run.violation(key + ":canonical", "packaging:canonical_raised", dict(entry=entry, value=val, packaging=e["canonical"],
                                                                                 error="%s: %s" % (type(ex).__name__, ex)))
            continue
        try:
            with np.errstate(all="ignore"):
                tol = e["tol"][0] * 10.0 ** (-e["tol"][1])          # precision of the packaging (spec)
                res = call(entry, x_in, 1e-12 if (e["precision"] == "float64" or "float" in pack) else tol)
            bad = None
            for i, (a, b) in enumerate(zip(res, ref)):
                k = kind_of(a)
                ok_kinds = "fc" if e["kind"] == "float" else "fciu"
                if k not in ok_kinds:
                    bad = ("dtype", "output %d has dtype kind %r (%s), expected %s" % (i, k, np.asarray(a).dtype, e["kind"]))
                    break
                a2, b2 = np.asarray(a).astype(complex), np.asarray(b).astype(complex)
                if a2.shape != b2.shape or not np.allclose(a2, b2, rtol=tol, atol=tol):
                    bad = ("value", "output %d: %r vs canonical %r" % (i, np.asarray(a).tolist(), np.asarray(b).tolist()))
                    break
                arr = np.asarray(a)
                if "cos" in e["followups"]:
                    utils.cos(arr)
                    np.cos(arr)
                if arr.ndim >= 2 and arr.shape[-1] == arr.shape[-2] and "invert" in e["followups"] and np.all(np.abs(np.linalg.det(arr.astype(complex))) > 1e-9):
                    utils.invert(arr)
                    utils.eig(arr)
        except Exception as ex:
            bad = ("raised", "%s: %s" % (type(ex).__name__, ex))
        if bad:
            run.violation(key, "packaging:" + bad[0], dict(entry=entry, packaging=pack, value=val, observed=bad[1]))
    run.traces += len(r.emits)
    if r.emits:
        run.sample(dict(kind="packaging case", case=r.emits[len(r.emits) // 2]))
