"""C03, projective classes: spec/proj/ProjAction.tla cases replayed with projective.Transformation on
projective.Point / PointPair / Polygon / Simplex / Subspace / Transformation (real 3x3, inverse =
adjugate projectively) and on complex points of CP^1 (Gaussian-integer 2x2)."""
import json

import numpy as np

from .. import core
from .. import hyp_common as hc

TOL = 1e-9


def cproj_close(a, b, tol=TOL):
    a = np.asarray(a, complex).ravel()
    b = np.asarray(b, complex).ravel()
    if a.shape != b.shape or not np.isfinite(a).all():
        return False
    a = a / np.linalg.norm(a)
    b = b / np.linalg.norm(b)
    ph = np.vdot(b, a)
    if abs(ph) == 0:
        return False
    return bool(np.abs(a - (ph / abs(ph)) * b).max() <= tol)


def G(z):
    return complex(z[0], z[1])


def build(o):
    from geometry_tools import projective as P
    cls = o["cls"]
    if cls == "cpoint":
        return P.Point(np.array([G(z) for z in o["v"]], dtype=complex))
    if cls == "transformation":
        return P.Transformation(np.array(o["h"], float), column_vectors=True)
    rows = np.array(o["rows"], float)
    if cls == "point":
        return P.Point(rows[0])
    return {"pair": P.PointPair, "polygon": P.Polygon, "simplex": P.Simplex, "subspace": P.Subspace}[cls](rows)


def same(lib, spec, typ, shape):
    if type(lib) is not typ:
        return ("type", "%s vs %s" % (type(lib).__name__, typ.__name__))
    if tuple(lib.shape) != tuple(shape):
        return ("shape", "%r vs %r" % (lib.shape, shape))
    cls = spec["cls"]
    pd = np.asarray(lib.proj_data)
    if cls == "cpoint":
        want = np.array([G(z) for z in spec["v"]])
        return None if cproj_close(pd, want) else ("cpoint", "%r vs %r" % (pd.tolist(), want.tolist()))
    pd = pd.astype(float)
    if cls == "transformation":
        return None if hc.mat_proj_close(pd.T, np.array(spec["h"], float), TOL) else ("matrix", "%r vs %r" % (pd.T.tolist(), spec["h"]))
    rows = np.array(spec["rows"], float)
    if cls == "point":
        return None if hc.proj_close(pd, rows[0], TOL) else ("point", "%r vs %r" % (pd.tolist(), rows[0].tolist()))
    if pd.shape != rows.shape:
        return ("rows.shape", "%r" % (pd.shape,))
    if cls == "subspace":
        # a subspace is its span: compare by rank
        if np.linalg.matrix_rank(np.vstack([pd / np.linalg.norm(pd, axis=1, keepdims=True),
                                            rows / np.linalg.norm(rows, axis=1, keepdims=True)]), tol=1e-8) != len(rows):
            return ("subspace.span", "%r vs %r" % (pd.tolist(), rows.tolist()))
        return None
    for i in range(len(rows)):
        if not hc.proj_close(pd[i], rows[i], TOL):
            return ("row[%d]" % i, "%r vs %r" % (pd[i].tolist(), rows[i].tolist()))
    if cls == "polygon":
        aux = np.asarray(lib.aux_data, float)
        k = len(rows)
        if aux.shape != (k, 2, rows.shape[-1]):
            return ("polygon.edges.shape", "%r" % (aux.shape,))
        for i in range(k):
            if not (hc.proj_close(aux[i, 0], rows[i], TOL) and hc.proj_close(aux[i, 1], rows[(i + 1) % k], TOL)):
                return ("polygon.edge[%d]" % i, "%r" % (aux[i].tolist(),))
    return None


def run(run):
    from geometry_tools import projective as P
    c = core.cfg(invariants=["Invertible", "ActionLaw", "IdentityLaw", "InverseActs", "AdjugateIsInverse", "EmitCase"])
    r = run.tlc("proj/ProjAction.tla", c, name="ProjAction", workers=4, emit_prefix="CASE ")
    for e in r.emits:
        o = e["obj"]
        cplx = o["cls"] == "cpoint"
        run.case(key=None, action="proj_act:" + o["cls"])
        try:
            if cplx:
                A = P.Transformation(np.array([[G(z) for z in row] for row in e["A"]]), column_vectors=True)
                Bt = P.Transformation(np.array([[G(z) for z in row] for row in e["B"]]), column_vectors=True)
                ident = P.identity(1, dtype=complex) if False else P.Transformation(np.eye(2, dtype=complex))
            else:
                A = P.Transformation(np.array(e["A"], float), column_vectors=True)
                Bt = P.Transformation(np.array(e["B"], float), column_vectors=True)
                ident = P.identity(2)
            X = build(o)
            typ, shape = type(X), X.shape
            bad = None
            for name, lib, spec in (("(A@B)@X", (A @ Bt) @ X, e["img"]), ("A@(B@X)", A @ (Bt @ X), e["img"]), ("A@X", A @ X, e["imgA"]),
                                    ("I@X", ident @ X, o), ("A.inv()@(A@X)", A.inv() @ (A @ X), o)):
                bad = same(lib, spec, typ, shape)
                if bad:
                    bad = (name + ":" + bad[0], bad[1])
                    break
        except Exception as ex:
            bad = ("raised", "%s: %s" % (type(ex).__name__, ex))
        if bad:
            run.violation("proj_act:%s" % json.dumps([o, e["A"], e["B"]])[:300], bad[0], dict(obj=o, A=e["A"], B=e["B"], observed=bad[1]))
    run.traces += len(r.emits)
    run.nontrivial_count += len(r.emits)
    for e in r.emits:
        if e["obj"]["cls"] in ("polygon", "cpoint") and e["A"] != e["B"]:
            run.sample(dict(kind="projective action case (%s)" % e["obj"]["cls"], **e))
