"""C03, projective classes: spec/proj/ProjAction.tla cases replayed with projective.Transformation on
projective.Point / PointPair / Polygon / Simplex / Subspace / Transformation (real 3x3, inverse =
adjugate projectively) and on complex points, pairs, polygons and transformations of CP^1 / CP^2
(Gaussian-integer 2x2 and 3x3).  A transformation is a projective class: every case is run with the
matrix the spec wrote down and with the unitary / orthogonal representative A / sqrt(k) of the class
when the spec says there is one (Scales(A)), and with integer storage of the real matrices."""
import itertools
import json

import numpy as np

from .. import core
from .. import hyp_common as hc

TOL = 1e-9
CCLS = ("cpoint", "cpair", "cpolygon", "ctransformation")


def cproj_close(a, b, tol=TOL):
    a = np.asarray(a, complex).ravel()
    b = np.asarray(b, complex).ravel()
    if a.shape != b.shape or not np.isfinite(a).all():
        return False
    na, nb = np.linalg.norm(a), np.linalg.norm(b)
    if na == 0 or nb == 0:
        return False
    a = a / na
    b = b / nb
    ph = np.vdot(b, a)
    if abs(ph) == 0:
        return False
    return bool(np.abs(a - (ph / abs(ph)) * b).max() <= tol)


def G(z):
    return complex(z[0], z[1])


def cmat(M):
    return np.array([[G(z) for z in row] for row in M], dtype=complex)


def crow(rows):
    return np.array([[G(z) for z in v] for v in rows], dtype=complex)


def build(o, dtype=float):
    from geometry_tools import projective as P
    cls = o["cls"]
    if cls in CCLS:
        if cls == "ctransformation":
            return P.Transformation(cmat(o["h"]), column_vectors=True)
        rows = crow(o["rows"])
        if cls == "cpoint":
            return P.Point(rows[0])
        return {"cpair": P.PointPair, "cpolygon": P.Polygon}[cls](rows)
    if cls == "transformation":
        return P.Transformation(np.array(o["h"], dtype), column_vectors=True)
    rows = np.array(o["rows"], dtype)
    if cls == "point":
        return P.Point(rows[0])
    return {"pair": P.PointPair, "polygon": P.Polygon, "simplex": P.Simplex, "subspace": P.Subspace}[cls](rows)


def same(lib, spec, typ, shape):
    if type(lib) is not typ:
        return ("type", "%s vs %s" % (type(lib).__name__, typ.__name__))
    if tuple(lib.shape) != tuple(shape):
        return ("shape", "%r vs %r" % (lib.shape, shape))
    cls = spec["cls"]
    pd = np.asarray(lib.proj_data)
    if cls in CCLS:
        if cls == "ctransformation":
            want = cmat(spec["h"])
            return None if cproj_close(np.swapaxes(pd, -1, -2), want) else ("cmatrix", "%r vs %r" % (pd.T.tolist(), want.tolist()))
        want = crow(spec["rows"])
        if cls == "cpoint":
            return None if cproj_close(pd, want[0]) else ("cpoint", "%r vs %r" % (pd.tolist(), want[0].tolist()))
        if pd.shape != want.shape:
            return ("rows.shape", "%r" % (pd.shape,))
        for i in range(len(want)):
            if not cproj_close(pd[i], want[i]):
                return ("crow[%d]" % i, "%r vs %r" % (pd[i].tolist(), want[i].tolist()))
        if cls == "cpolygon":
            aux = np.asarray(lib.aux_data)
            k = len(want)
            if aux.shape != (k, 2, want.shape[-1]):
                return ("cpolygon.edges.shape", "%r" % (aux.shape,))
            for i in range(k):
                if not (cproj_close(aux[i, 0], want[i]) and cproj_close(aux[i, 1], want[(i + 1) % k])):
                    return ("cpolygon.edge[%d]" % i, "%r" % (aux[i].tolist(),))
        return None
    if np.iscomplexobj(pd) and np.abs(pd.imag).max() > 0:
        return ("real_data_became_complex", "%r" % (pd.tolist(),))
    pd = pd.real.astype(float)
    if cls == "transformation":
        return None if hc.mat_proj_close(pd.T, np.array(spec["h"], float), TOL) else ("matrix", "%r vs %r" % (pd.T.tolist(), spec["h"]))
    rows = np.array(spec["rows"], float)
    if cls == "point":
        return None if hc.proj_close(pd, rows[0], TOL) else ("point", "%r vs %r" % (pd.tolist(), rows[0].tolist()))
    if pd.shape != rows.shape:
        return ("rows.shape", "%r" % (pd.shape,))
    if cls == "subspace":
        # a subspace is its span: compare by rank
        if np.linalg.matrix_rank(np.vstack([pd / np.linalg.norm(pd, axis=1, keepdims=True),
                                            rows / np.linalg.norm(rows, axis=1, keepdims=True)]), tol=1e-8) != len(rows):
            return ("subspace.span", "%r vs %r" % (pd.tolist(), rows.tolist()))
        return None
    for i in range(len(rows)):
        if not hc.proj_close(pd[i], rows[i], TOL):
            return ("row[%d]" % i, "%r vs %r" % (pd[i].tolist(), rows[i].tolist()))
    if cls == "polygon":
        aux = np.asarray(lib.aux_data, float)
        k = len(rows)
        if aux.shape != (k, 2, rows.shape[-1]):
            return ("polygon.edges.shape", "%r" % (aux.shape,))
        for i in range(k):
            if not (hc.proj_close(aux[i, 0], rows[i], TOL) and hc.proj_close(aux[i, 1], rows[(i + 1) % k], TOL)):
                return ("polygon.edge[%d]" % i, "%r" % (aux[i].tolist(),))
    return None


def reps(M, scales, cplx):
    """the representatives of the projective class of M that the replay hands to the library:
    (label, matrix) - the spec's matrix, the unitary / orthogonal one where the spec names a scale, and for real
    integer matrices the integer-typed array"""
    base = cmat(M) if cplx else np.array(M, float)
    out = [("as_written", base)]
    for k in sorted(scales):
        if k != 1:
            out.append(("over_sqrt_%d" % k, base / np.sqrt(float(k))))
    if not cplx:
        out.append(("int64", np.array(M, dtype=np.int64)))
    return out


def five(A, Bt, ident, X, e, o):
    return (("(A@B)@X", lambda: (A @ Bt) @ X, e["img"]), ("A@(B@X)", lambda: A @ (Bt @ X), e["img"]), ("A@X", lambda: A @ X, e["imgA"]),
            ("I@X", lambda: ident @ X, o), ("A.inv()@(A@X)", lambda: A.inv() @ (A @ X), o))


def replay_cases(run, emits):
    from geometry_tools import projective as P
    for e in emits:
        o = e["obj"]
        cplx = o["cls"] in CCLS
        n = len(e["A"])
        run.case(key=None, action="proj_act:" + o["cls"])
        bad = None
        try:
            ident = P.Transformation(np.eye(n, dtype=complex)) if cplx else P.identity(n - 1)
            Areps, Breps = reps(e["A"], e["sA"], cplx), reps(e["B"], e["sB"], cplx)
            # every representative of A with B as written, and A as written with every representative of B
            combos = [(ra, Breps[0]) for ra in Areps] + [(Areps[0], rb) for rb in Breps[1:]]
            if not cplx:
                combos.append((Areps[-1], Breps[-1]))          # everything stored as integers
            for (la, Am), (lb, Bm) in combos:
                A = P.Transformation(Am.copy(), column_vectors=True)
                Bt = P.Transformation(Bm.copy(), column_vectors=True)
                X = build(o, dtype=np.int64 if (la == "int64" and lb == "int64") else float)
                typ, shape = type(X), X.shape
                for name, f, spec in five(A, Bt, ident, X, e, o):
                    bad = same(f(), spec, typ, shape)
                    if bad:
                        bad = ("%s[A %s, B %s]:%s" % (name, la, lb, bad[0]), bad[1])
                        break
                if bad:
                    break
        except Exception as ex:
            bad = ("raised", "%s: %s" % (type(ex).__name__, ex))
        if bad:
            run.violation("proj_act:%s" % json.dumps([o, e["A"], e["B"]])[:300], bad[0], dict(obj=o, A=e["A"], B=e["B"], observed=bad[1]))
    run.traces += len(emits)
    run.nontrivial_count += len(emits)


def replay_stacks(run, emits):
    """composite transformations: T = stack of (representatives of) transformations of one dimension, applied
    elementwise to a stack of copies of X; unit i of T @ X is the image under T[i] and T.inv() @ (T @ X) is X, unit by
    unit.  Stacks: every matrix of the universe; only those with a unitary / orthogonal representative (normalised)."""
    from geometry_tools import projective as P
    groups = {}
    for e in emits:
        o = e["obj"]
        groups.setdefault(json.dumps(o, sort_keys=True), {}).setdefault(json.dumps(e["A"]), e)
    for oj, d in sorted(groups.items()):
        es = [d[k] for k in sorted(d)]
        o = es[0]["obj"]
        cplx = o["cls"] in CCLS
        special = [e for e in es if e["sA"]]
        for label, sel, norm in (("all", es, False), ("special_normalised", special, True), ("special_as_written", special, False)):
            if len(sel) < 2:
                continue
            run.case(key=None, action="proj_stack:" + o["cls"])
            bad = None
            try:
                mats = []
                for e in sel:
                    M = cmat(e["A"]) if cplx else np.array(e["A"], float)
                    if norm:
                        M = M / np.sqrt(float(max(e["sA"])))
                    mats.append(M)
                T = P.Transformation(np.array(mats), column_vectors=True)
                unit = build(o)
                X = type(unit)([build(o) for _ in sel])
                R = T @ X
                back = T.inv() @ R
                if type(R) is not type(X) or tuple(R.shape) != (len(sel),):
                    bad = ("stack.type_shape", "%s %r" % (type(R).__name__, R.shape))
                for i, e in enumerate(sel):
                    if bad:
                        break
                    bad = same(R[i], e["imgA"], type(unit), ())
                    if bad:
                        bad = ("stack[%d]:T@X:%s" % (i, bad[0]), bad[1])
                        break
                    bad = same(back[i], o, type(unit), ())
                    if bad:
                        bad = ("stack[%d]:T.inv()@(T@X):%s" % (i, bad[0]), bad[1])
            except Exception as ex:
                bad = ("raised:stack", "%s: %s" % (type(ex).__name__, ex))
            if bad:
                run.violation("proj_stack:%s:%s" % (label, oj[:200]), bad[0], dict(obj=o, stack=label, A=[e["A"] for e in sel], observed=bad[1]))


def tlc_job():
    c = core.cfg(invariants=["Invertible", "ActionLaw", "IdentityLaw", "InverseActs", "AdjugateIsInverse", "SpecialInverses",
                             "UniverseRich", "EmitCase"])
    return dict(module="proj/ProjAction.tla", cfg=c, name="ProjAction", emit_prefix="CASE ")


def replay(run, r):
    replay_cases(run, r.emits)
    replay_stacks(run, r.emits)
    seen = set()
    for e in r.emits:
        if (e["obj"]["cls"], len(e["A"])) in (("polygon", 3), ("cpoint", 2), ("cpolygon", 3)) and e["A"] != e["B"] and (e["sA"] or e["obj"]["cls"] == "polygon"):
            if (e["obj"]["cls"], len(e["A"])) not in seen:
                seen.add((e["obj"]["cls"], len(e["A"])))
                run.sample(dict(kind="projective action case (%s, %dx%d)" % (e["obj"]["cls"], len(e["A"]), len(e["A"])), **e))
