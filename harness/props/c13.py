"""C13 — constructed isometries, tangent vectors and regular polygons hit their targets.

spec/hyp/HypTangent.tla (EXTENDS HypIso): a tangent vector is the image g.(o, e_1) of the base
tangent vector under an exact frame g = <<M, d>> built by the word machine (reflections,
Pythagorean rotations, rational loxodromics, signed permutations, boosts), so basepoint and unit
direction are rational.  TLC checks in every reachable frame: the frame is a tangent vector on
the upper sheet, d(p, PointAlong(t)) = |t| in cosh^2 form, the point lies on the geodesic on the
side of sgn t, the unit tangent towards it is sgn(t) v, angles are g-invariant, the hyperbolic law
of cosines in integer form, IsoTo(g, h) = h g^-1 carries (p_g, v_g) to (p_h, v_h).
spec/hyp/HypPolygon.tla: regular polygons with angles k pi/m in exact Q(sqrt r) arithmetic;
TLC checks the library's closed forms against cosh R = cot(pi/n) cot(a/2), their mutual
inverseness, the law of cosines at the centre and at a vertex, admissibility.
spec/hyp/HypMetric.tla (C01's module, run here for its exact pairs of integer points).

Conformance (spec -> code): every emitted frame is handed to the library as numbers
(TangentVector(point, vector), non-unit representatives) and each operation is compared with the
exact value emitted by TLC: Point.origin_to, TangentVector.origin_to, isometry_to (orientation
forced or not), point_along at t = atanh(a/b) of both signs, unit_tangent_towards, angle, and the
law of cosines (exact cosh d(q1,q2) of the two points reached along two tangent vectors).  Every
emitted polygon case is built by Polygon.regular_polygon and measured with the library's own
distance / angle (vertex count, equal radii, equal sides, interior angle) and compared with the
exact cosh^2 R, cosh s, cos a; regular_polygon_radius / polygon_interior_angle are compared
with the exact values and composed both ways.
"""
import json
import math
import random

import numpy as np

from .. import core
from .. import hyp_common as hc

TOL = 1e-9
TAN_INVS = ["FormPreserved", "Normalised", "EditsSound", "InverseLaws", "FrameValid", "AlongLaws", "TurnLaws", "Transport", "SecondsValid", "EmitObs"]
POLY_INVS = ["CosTableSound", "SurfaceCaseLaws", "AngleCaseLaws", "RadiusCaseLaws", "AdmissibleIffPositive", "EmitCase"]
SCALES = (1.0, 2.0, 1.0 / 3.0, 5.0, 0.5)


# ------------------------------------------------------------------------------------------
# projections
# ------------------------------------------------------------------------------------------
def err_text(e):
    return "%s: %s" % (type(e).__name__, e)


def spec_dir(tan, sign=1):
    """exact tangent vector of the spec -> (point of the hyperboloid, unit direction) as floats"""
    d = float(tan["d"])
    return np.array(tan["ph"], float) / d, sign * np.array(tan["v"], float) / d


def lib_dir(tv):
    """projection of a library TangentVector to its tangent direction: (point of the upper hyperboloid, unit vector).
    The class of (x, v) under (x, v) ~ (c x, sgn(c) m v), m > 0."""
    x = np.asarray(tv.point, float)
    v = np.asarray(tv.vector, float)
    nx = -hc.mink(x, x)
    nv = hc.mink(v, v)
    if not (np.all(np.isfinite(x)) and np.all(np.isfinite(v)) and np.all(nx > 0) and np.all(nv > 0)):
        return None
    s = np.sign(x[..., :1])
    return s * x / np.sqrt(nx)[..., None], s * v / np.sqrt(nv)[..., None]


def dir_mismatch(tv, tan, sign=1, tol=TOL):
    """None if the library tangent vector has the basepoint and direction of the spec's, else a description"""
    got = lib_dir(tv)
    wx, wv = spec_dir(tan, sign)
    if got is None:
        return "not a tangent vector: point %r vector %r" % (np.asarray(tv.point).tolist(), np.asarray(tv.vector).tolist())
    gx, gv = got
    if gx.shape != wx.shape or gv.shape != wv.shape:
        return "shape %r / %r" % (gx.shape, gv.shape)
    scale = max(1.0, float(np.abs(wx).max()))
    if not np.abs(gx - wx).max() <= tol * scale:
        return "basepoint %r, spec %r" % (gx.tolist(), wx.tolist())
    if not np.abs(gv - wv).max() <= tol * scale:
        return "direction %r, spec %r (at basepoint %r)" % (gv.tolist(), wv.tolist(), wx.tolist())
    if not abs(hc.mink(gx, gv)) <= tol * scale * scale:
        return "vector not tangent at the point: <x,v> = %r" % float(hc.mink(gx, gv))
    return None


def make_tv(H, tan, m, form):
    """hand the spec's tangent vector to the library as numbers; m > 0 scales the vector, the basepoint is the
    primitive integer representative (x0 > 0) or the point of the hyperboloid"""
    d = float(tan["d"])
    vec = m * np.array(tan["v"], float) / d
    if form == 0:
        return H.TangentVector(H.Point(np.array(tan["p"], float)), vec)
    if form == 1:
        return H.TangentVector(np.array([np.array(tan["ph"], float) / d, vec]))
    return H.TangentVector(np.array([np.array(tan["p"], float), vec]))


def rat(q):
    return q[0] / q[1]


def tanh_arg(t):
    return math.atanh(t[0] / t[1])


# ------------------------------------------------------------------------------------------
# tangent vectors: one frame of HypTangent.tla
# ------------------------------------------------------------------------------------------
def check_frame(n, ob, seconds, idx, history=(), isouses=()):
    """All obligations of one emitted frame.  Returns (violations, evaluations, actions) where a violation is
    (key, clause, detail)."""
    H = hc.H()
    out = []
    acts = {}
    tan = ob["tv"]
    base = "tv:n=%d:p=%s:v=%s/%d" % (n, tan["p"], tan["v"], tan["d"])
    m = SCALES[idx % len(SCALES)]
    form = idx % 3
    evals = 0

    def bad(clause, detail, sub=""):
        out.append((base + (":" + sub if sub else "") + ":" + clause, clause, dict(n=n, tangent=tan, scale=m, form=form, observed=detail)))

    def count(a, k=1):
        acts[a] = acts.get(a, 0) + k

    origin = np.zeros(n + 1)
    origin[0] = 1.0
    P = np.array(tan["p"], float)
    px, _ = spec_dir(tan)

    # --- Point.origin_to sends the model origin to the point
    for fo in (True, False):
        count("Point.origin_to")
        evals += 1
        try:
            iso = H.Point(P.copy()).origin_to(force_oriented=fo)
            res = hc.form_residual(iso)
            img = np.asarray((iso @ H.Point.get_origin(n)).proj_data, float)
            if not res <= TOL:
                bad("point_origin_to.isometry", "force_oriented=%s: max|RJR^T-J| = %.3e" % (fo, res))
            elif not hc.proj_close(img, P, TOL):
                bad("point_origin_to.image_of_origin", "force_oriented=%s: origin -> %r, point %r" % (fo, img.tolist(), P.tolist()))
            elif fo and not np.linalg.det(np.asarray(iso.matrix, float)) > 0:
                bad("point_origin_to.oriented", "force_oriented=True but det = %r" % float(np.linalg.det(np.asarray(iso.matrix, float))))
        except Exception as e:
            bad("raised:point_origin_to", err_text(e))

    # --- TangentVector.origin_to sends the base tangent vector to a positive multiple of the vector
    for fo in (True, False):
        count("TangentVector.origin_to")
        evals += 1
        try:
            tv = make_tv(H, tan, m, form)
            iso = tv.origin_to(force_oriented=fo)
            res = hc.form_residual(iso)
            img = iso @ H.TangentVector.get_base_tangent(n)
            mis = dir_mismatch(img, tan)
            if not res <= TOL:
                bad("tangent_origin_to.isometry", "force_oriented=%s: max|RJR^T-J| = %.3e" % (fo, res))
            elif mis:
                bad("tangent_origin_to.image_of_base_tangent", "force_oriented=%s: %s" % (fo, mis))
            elif fo and not np.linalg.det(np.asarray(iso.matrix, float)) > 0:
                bad("tangent_origin_to.oriented", "force_oriented=True but det = %r" % float(np.linalg.det(np.asarray(iso.matrix, float))))
        except Exception as e:
            bad("raised:tangent_origin_to", err_text(e))

    # --- isometry_to carries basepoint and direction of the first tangent vector to the second
    for j, sec in enumerate(seconds):
        for fo in ((True, False) if (idx + j) % 3 == 0 else ((idx + j) % 2 == 0,)):
            count("isometry_to")
            evals += 1
            sub = "to=%s/%s" % (sec["p"], sec["v"])
            try:
                tv = make_tv(H, tan, m, form)
                tv2 = make_tv(H, sec, SCALES[(idx + j + 1) % len(SCALES)], (form + j) % 3)
                iso = tv.isometry_to(tv2, force_oriented=fo)
                res = hc.form_residual(iso)
                img = iso @ make_tv(H, tan, m, form)
                mis = dir_mismatch(img, sec)
                if not res <= TOL:
                    bad("isometry_to.isometry", "force_oriented=%s: max|RJR^T-J| = %.3e" % (fo, res), sub)
                elif mis:
                    bad("isometry_to.image", "force_oriented=%s: target %s: %s" % (fo, sec, mis), sub)
                elif fo and not np.linalg.det(np.asarray(iso.matrix, float)) > 0:
                    bad("isometry_to.oriented", "force_oriented=True but det = %r" % float(np.linalg.det(np.asarray(iso.matrix, float))), sub)
            except Exception as e:
                bad("raised:isometry_to", err_text(e), sub)

    # --- point_along / distance / unit_tangent_towards
    for al in ob["along"]:
        t = tanh_arg(al["t"])
        q = np.array(al["q"], float)
        sub = "tanh=%d/%d" % tuple(al["t"])
        count("point_along")
        evals += 1
        try:
            tv = make_tv(H, tan, 1.0, form)            # point_along is specified for unit tangent vectors
            got = tv.point_along(t)
            gq = np.asarray(got.proj_data, float)
            if gq.shape != q.shape:
                bad("point_along.shape", "shape %r" % (gq.shape,), sub)
                continue
            if not hc.proj_close(gq, q, TOL):
                bad("point_along.point", "t = %r: library %r, spec %r" % (t, gq.tolist(), q.tolist()), sub)
                continue
            with np.errstate(all="ignore"):
                dist = float(H.Point(P.copy()).distance(got))
            if not (np.isfinite(dist) and abs(math.cosh(dist) - math.cosh(t)) <= 1e-8 * math.cosh(t)):
                bad("point_along.distance", "t = %r but d(p, point_along(t)) = %r" % (t, dist), sub)
        except Exception as e:
            bad("raised:point_along", err_text(e), sub)
            continue
        count("unit_tangent_towards")
        evals += 1
        try:
            # any representative of the base point and of the target: positive multiples, and (every fourth case each)
            # representatives on the lower sheet -- the geodesic from p towards q does not depend on them
            sp = -1.0 if (idx // 4) % 4 in (1, 3) else 1.0
            sq = -1.0 if (idx // 4) % 4 in (2, 3) else 1.0
            Pp = H.Point(P.copy() * sp)
            Q = H.Point(q.copy() * (1.0 + (idx % 4)) * sq)
            utv = Pp.unit_tangent_towards(Q)
            sgn = 1 if al["t"][0] > 0 else -1
            # the direction is compared in the spec's representative of p (upper sheet); with a lower-sheet base point the
            # stored vector is relative to that representative, so only the contract "following it for d(p,q) arrives at q" is used
            mis = dir_mismatch(utv, tan, sgn) if sp > 0 else None
            vv = np.asarray(utv.vector, float)
            pp = np.asarray(utv.point, float)
            if mis:
                bad("unit_tangent_towards.direction", mis, sub)
                continue
            if not abs(hc.mink(vv, vv) - 1) <= TOL * max(1.0, float(np.abs(px).max())):
                bad("unit_tangent_towards.unit", "<v,v> = %r" % float(hc.mink(vv, vv)), sub)
                continue
            with np.errstate(all="ignore"):
                dist = Pp.distance(Q)
                back = np.asarray(utv.point_along(dist).proj_data, float)
            if not hc.proj_close(back, q, TOL):
                bad("unit_tangent_towards.arrives", "following the unit tangent for d(p,q) = %r arrives at %r, q = %r" % (float(dist), back.tolist(), q.tolist()), sub)
        except Exception as e:
            bad("raised:unit_tangent_towards", err_text(e), sub)

    # --- angles and the law of cosines
    pt = ob["ptaus"]
    for j, tr in enumerate(ob["turns"]):
        c = rat(tr["cos"])
        sub = "turn=%s/%d" % (tr["tv"]["v"], tr["tv"]["d"])
        count("angle")
        evals += 1
        try:
            tv = make_tv(H, tan, m, form)
            tv2 = make_tv(H, tr["tv"], SCALES[(idx + j + 2) % len(SCALES)], (form + j + 1) % 3)
            with np.errstate(all="ignore"):
                ang = float(tv.angle(tv2))
                ang_rev = float(tv2.angle(tv))
            if not (np.isfinite(ang) and -1e-12 <= ang <= math.pi + 1e-12):
                bad("angle.finite_in_range", "angle = %r, spec cos = %r" % (ang, c), sub)
                continue
            if not abs(math.cos(ang) - c) <= TOL * max(1.0, float(np.abs(px).max())):
                bad("angle.value", "cos(angle) = %r, spec cos = %s" % (math.cos(ang), tr["cos"]), sub)
                continue
            if not (np.isfinite(ang_rev) and abs(math.cos(ang_rev) - c) <= TOL * max(1.0, float(np.abs(px).max()))):
                bad("angle.symmetric", "angle(tv2, tv) = %r, angle(tv, tv2) = %r" % (ang_rev, ang), sub)
                continue
        except Exception as e:
            bad("raised:angle", err_text(e), sub)
            continue
        # law of cosines: two pairs of (Pythagorean) distances per turn, rotating through the table
        for s in range(2):
            a = (idx + j + s) % len(pt)
            b = (idx + 2 * j + 3 * s + 1) % len(pt)
            t1, t2 = tanh_arg(pt[a]["t"]), tanh_arg(tr["pts"][b]["t"])
            want = rat(tr["coshd"][a][b])
            count("law_of_cosines")
            evals += 1
            sub2 = sub + ":t1=%d/%d:t2=%d/%d" % (tuple(pt[a]["t"]) + tuple(tr["pts"][b]["t"]))
            try:
                q1 = make_tv(H, tan, 1.0, form).point_along(t1)
                q2 = make_tv(H, tr["tv"], 1.0, 1).point_along(t2)
                if not hc.proj_close(np.asarray(q2.proj_data, float), np.array(tr["pts"][b]["q"], float), TOL):
                    bad("law_of_cosines.point", "second point %r, spec %r" % (np.asarray(q2.proj_data).tolist(), tr["pts"][b]["q"]), sub2)
                    continue
                with np.errstate(all="ignore"):
                    dist = float(q1.distance(q2))
                ch = math.cosh(dist)
                if not (np.isfinite(dist) and abs(ch - want) <= 1e-8 * want):
                    bad("law_of_cosines.distance", "cosh d(q1,q2) = %r, spec %s = %r" % (ch, tr["coshd"][a][b], want), sub2)
                    continue
                law = math.cosh(t1) * math.cosh(t2) - math.sinh(t1) * math.sinh(t2) * math.cos(ang)
                if not abs(ch - law) <= 1e-8 * want:
                    bad("law_of_cosines.library_values", "cosh d = %r but cosh t1 cosh t2 - sinh t1 sinh t2 cos(angle) = %r" % (ch, law), sub2)
            except Exception as e:
                bad("raised:law_of_cosines", err_text(e), sub2)
    # --- a history of queries on the SAME object: every answer is still the exact value (queries are read-only)
    def run_history(tv, label, unit_ok=True):
        nonlocal evals
        other = make_tv(H, ob["turns"][1 + idx % (len(ob["turns"]) - 1)]["tv"], 2.0, 0)
        turn = ob["turns"][1 + idx % (len(ob["turns"]) - 1)]
        k_al = 0
        for step, q in enumerate(history):
            sub = "%s:step%d=%s" % (label, step, q)
            count("history." + q)
            evals += 1
            try:
                if q == "origin_to":
                    fo = step % 2 == 0
                    mis = dir_mismatch(tv.origin_to(force_oriented=fo) @ H.TangentVector.get_base_tangent(n), tan)
                    if mis:
                        bad("history.origin_to", "after %s: %s" % (list(history[:step]), mis), sub)
                        return
                elif q == "point_along":
                    al = ob["along"][(idx + k_al) % len(ob["along"])]
                    k_al += 3
                    got = np.asarray(tv.point_along(tanh_arg(al["t"])).proj_data, float)
                    if not (got.shape == (n + 1,) and hc.proj_close(got, np.array(al["q"], float), TOL)):
                        bad("history.point_along", "after %s: tanh t = %s: library %r, spec %r" % (list(history[:step]), al["t"], got.tolist(), al["q"]), sub)
                        return
                elif q == "isometry_to":
                    sec = seconds[(idx + step) % len(seconds)]
                    mis = dir_mismatch(tv.isometry_to(make_tv(H, sec, 3.0, 0)) @ tv, sec)
                    if mis:
                        bad("history.isometry_to", "after %s: target %s: %s" % (list(history[:step]), {f: sec[f] for f in ("p", "v", "d")}, mis), sub)
                        return
                elif q == "angle":
                    with np.errstate(all="ignore"):
                        ang = float(tv.angle(other)) if step % 2 == 1 else float(other.angle(tv))
                    if not (np.isfinite(ang) and abs(math.cos(ang) - rat(turn["cos"])) <= TOL * max(1.0, float(np.abs(px).max()))):
                        bad("history.angle", "after %s: angle %r, spec cos %s" % (list(history[:step]), ang, turn["cos"]), sub)
                        return
                elif q == "normalized":
                    nv = tv.normalized()
                    mis = dir_mismatch(nv, tan)
                    vv = np.asarray(nv.vector, float)
                    if mis or not abs(hc.mink(vv, vv) - 1) <= TOL * max(1.0, float(np.abs(px).max())):
                        bad("history.normalized", "after %s: %s" % (list(history[:step]), mis or "<v,v> = %r" % float(hc.mink(vv, vv))), sub)
                        return
                else:
                    raise core.MachineryFailure("unknown query %r in HISTORY" % q)
                mis = dir_mismatch(tv, tan)
                if mis:
                    bad("history.object_changed", "the tangent vector itself after %s: %s" % (list(history[:step + 1]), mis), sub)
                    return
            except core.MachineryFailure:
                raise
            except Exception as e:
                bad("raised:history", "after %s: %s" % (list(history[:step]), err_text(e)), sub)
                return

    # --- constructed isometries are values: uses of the SAME isometry object (apply, inv, compose, matrix) are read-only
    def run_iso_uses(make_iso, hits, back, label):
        nonlocal evals
        done = []
        try:
            iso = make_iso()
            for u in isouses:
                count("iso_use." + u)
                evals += 1
                done.append(u)
                mis = None
                if u == "apply":
                    mis = hits(iso)
                elif u == "inv":
                    iso.inv()
                elif u == "inv_apply":
                    mis = back(iso.inv())
                    mis = mis and "the inverse does not send the target back: " + mis
                elif u == "compose_inverse":
                    prod = np.asarray((iso @ iso.inv()).matrix, float)
                    dev = float(np.abs(prod - np.eye(n + 1)).max())
                    if not dev <= TOL * max(1.0, float(np.abs(px).max())) ** 2:
                        mis = "iso @ iso.inv() differs from the identity by %.3e" % dev
                elif u == "matrix":
                    res = hc.form_residual(iso)
                    if not res <= TOL:
                        mis = "max|RJR^T-J| = %.3e" % res
                else:
                    raise core.MachineryFailure("unknown use %r in ISOUSES" % u)
                if mis:
                    bad("iso_use." + label, "after the uses %s of the same isometry object: %s" % (done, mis))
                    return
        except core.MachineryFailure:
            raise
        except Exception as e:
            bad("raised:iso_use." + label, "after %s: %s" % (done, err_text(e)))

    if isouses:
        e0tan = dict(p=origin.astype(int).tolist(), ph=origin.astype(int).tolist(), v=[0, 1] + [0] * (n - 1), d=1)
        fo_pt = idx % 2 == 0
        run_iso_uses(lambda: H.Point(P.copy()).origin_to(force_oriented=fo_pt),
                     lambda iso: None if hc.proj_close(np.asarray((iso @ H.Point.get_origin(n)).proj_data, float), P, TOL)
                     else "origin -> %r, point %r" % (np.asarray((iso @ H.Point.get_origin(n)).proj_data).tolist(), P.tolist()),
                     lambda inv: None if hc.proj_close(np.asarray((inv @ H.Point(P.copy())).proj_data, float), origin, TOL)
                     else "point -> %r" % np.asarray((inv @ H.Point(P.copy())).proj_data).tolist(),
                     "point_origin_to")
        run_iso_uses(lambda: make_tv(H, tan, m, form).origin_to(force_oriented=not fo_pt),
                     lambda iso: dir_mismatch(iso @ H.TangentVector.get_base_tangent(n), tan),
                     lambda inv: dir_mismatch(inv @ make_tv(H, tan, m, form), e0tan),
                     "tangent_origin_to")
        sec = seconds[idx % len(seconds)]
        run_iso_uses(lambda: make_tv(H, tan, m, form).isometry_to(make_tv(H, sec, 2.0, 0), force_oriented=fo_pt),
                     lambda iso: dir_mismatch(iso @ make_tv(H, tan, m, form), sec),
                     lambda inv: dir_mismatch(inv @ make_tv(H, sec, 1.0, 0), tan),
                     "isometry_to")

    if history:
        try:
            run_history(make_tv(H, tan, 1.0, form), "float")
        except core.MachineryFailure:
            raise
        except Exception as e:
            bad("raised:history", err_text(e))
        # integer hyperboloid coordinates handed over as INTEGER arrays
        if ob["guards"]["integral"]:
            try:
                itv = H.TangentVector(np.array([tan["ph"], tan["v"]], dtype=np.int64))
                for al in ob["along"]:
                    count("integer.point_along")
                    evals += 1
                    got = np.asarray(itv.point_along(tanh_arg(al["t"])).proj_data, float)
                    if not (got.shape == (n + 1,) and hc.proj_close(got, np.array(al["q"], float), TOL)):
                        bad("integer_data.point_along", "integer tangent data: tanh t = %s: library %r, spec %r" % (al["t"], got.tolist(), al["q"]),
                            "tanh=%d/%d" % tuple(al["t"]))
                        break
                if idx % 2 == 0:
                    itv = H.TangentVector(H.Point(np.array(tan["ph"], dtype=np.int64)), np.array(tan["v"], dtype=np.int64))
                run_history(itv, "integer")
            except core.MachineryFailure:
                raise
            except Exception as e:
                bad("raised:integer_data", err_text(e))
        # the library's own base tangent vector is the tangent vector of the identity frame
        if ob["len"] == 0:
            try:
                run_history(H.TangentVector.get_base_tangent(n), "base_tangent")
                bt = H.TangentVector.get_base_tangent(n)
                for al in ob["along"]:
                    count("base_tangent.point_along")
                    evals += 1
                    got = np.asarray(bt.point_along(tanh_arg(al["t"])).proj_data, float)
                    if not (got.shape == (n + 1,) and hc.proj_close(got, np.array(al["q"], float), TOL)):
                        bad("base_tangent.point_along", "tanh t = %s: library %r, spec %r" % (al["t"], got.tolist(), al["q"]), "tanh=%d/%d" % tuple(al["t"]))
                        break
            except core.MachineryFailure:
                raise
            except Exception as e:
                bad("raised:base_tangent", err_text(e))
    return out, evals, acts


def _frame_job(args):
    n, ob, seconds, idx, history, isouses = args
    return check_frame(n, ob, seconds, idx, history, isouses)


def parse_table(stdout, tag):
    for line in stdout.splitlines():
        if line.startswith('"' + tag + " "):
            return json.loads(json.loads(line)[len(tag) + 1:])
    raise core.MachineryFailure("no %s table" % tag)


def tangent_tlc(run, n, maxlen, thin):
    c = core.cfg(constants=dict(N=n, MaxLen=maxlen, Thin=thin), init="TInit", next_="TNext", invariants=TAN_INVS, view="TView")
    return run.tlc("hyp/HypTangent.tla", c, name="HypTangent_n%d" % n, workers=min(core.NCPU, 2 if run.tier == "quick" else 4), emit_prefix="OBS ")


def tangent(run, n, r, pool, limit=None, rng=None):
    seconds = parse_table(r.stdout, "SECONDS")
    seen = set()
    obs = []
    for e in r.emits:
        k = json.dumps(e["g"])
        if k not in seen:
            seen.add(k)
            obs.append(e)
    obs.sort(key=lambda e: json.dumps(e["g"]))
    emitted = len(obs)
    obs = [e for e in obs if e["guards"]["indomain"]]
    every = obs
    if limit and len(obs) > limit:
        keep = [e for e in obs if e["len"] <= 1]
        rest = [e for e in obs if e["len"] > 1]
        rng.shuffle(rest)
        obs = keep + rest[:max(0, limit - len(keep))]
    history = parse_table(r.stdout, "HISTORY")
    edits = parse_table(r.stdout, "EDITS")
    isouses = parse_table(r.stdout, "ISOUSES")
    orient = parse_table(r.stdout, "ORIENT")
    jobs = [(n, ob, seconds, i, history, isouses) for i, ob in enumerate(obs)]
    results = pool.map(_frame_job, jobs, chunksize=8) if pool else map(_frame_job, jobs)
    for (viol, evals, acts), ob in zip(results, obs):
        run.evaluations += evals
        run.traces += 1
        for a, k in acts.items():
            run.actions[a] = run.actions.get(a, 0) + k
        for key, clause, detail in viol:
            run.violation(key, clause, detail)
    run.nontrivial_count += len(every)
    run.extra.setdefault("frames", {})["n=%d" % n] = dict(
        emitted=emitted, in_conformance_domain=len(every), replayed_unit=len(obs), replayed_composite=len(every),
        model_laws_evaluated=dict(along=sum(1 for e in every if e["guards"]["along"]), turns_and_cosines=sum(1 for e in every if e["guards"]["turns"])))
    if obs:
        e = obs[len(obs) // 2]
        run.sample(dict(kind="tangent frame", n=n, tangent=e["tv"], along=e["along"][:2],
                        turn=dict(cos=e["turns"][1]["cos"], tv=e["turns"][1]["tv"], coshd=e["turns"][1]["coshd"][0][:2]),
                        isometry_to_target=seconds[1]))
    composite(run, n, every, seconds, edits, isouses, orient)


def composite(run, n, obs, seconds, edits=(), isouses=(), orient=(True,)):
    """the same operations on one composite TangentVector holding every frame of the dimension"""
    H = hc.H()
    if len(obs) < 2:
        return
    k = len(obs)
    key = "tv-composite:n=%d" % n
    P = np.array([o["tv"]["p"] for o in obs], float)
    V = np.array([np.array(o["tv"]["v"], float) / o["tv"]["d"] for o in obs])
    WX = np.array([spec_dir(o["tv"])[0] for o in obs])
    scale = np.maximum(1.0, np.abs(WX).max(-1))
    m = np.array([SCALES[i % len(SCALES)] for i in range(k)])[:, None]

    def fresh():
        return H.TangentVector(H.Point(P.copy()), m * V)

    def first_bad(mask):
        return int(np.nonzero(mask)[0][0])
    try:
        # arrays of constructed isometries, orientation forced or not: targets hit by every unit, det > 0 per unit when
        # forced, and still so after uses (apply / inv / compose) of the same composite isometry object
        o_pt = np.zeros(n + 1)
        o_pt[0] = 1.0
        mix = run.extra.setdefault("unforced_determinant_signs", {})

        def targets(iso, cls):
            """None or (index, text): which unit misses its target"""
            if cls == "point":
                img = np.asarray((iso @ H.Point.get_origin(n)).proj_data, float)
                if img.shape != P.shape:
                    return (0, "image shape %r" % (img.shape,))
                badm = ~proj_close_rows(img, P)
                return (first_bad(badm), "origin -> %r" % img[first_bad(badm)].tolist()) if badm.any() else None
            got = lib_dir(iso @ H.TangentVector.get_base_tangent(n))
            if got is None or got[0].shape != WX.shape:
                return (0, "not tangent vectors / shape")
            badm = (np.abs(got[0] - WX).max(-1) > TOL * scale) | (np.abs(got[1] - V).max(-1) > TOL * scale)
            return (first_bad(badm), "basepoint %r direction %r" % (got[0][first_bad(badm)].tolist(), got[1][first_bad(badm)].tolist())) if badm.any() else None

        for cls in ("point", "tangent"):
            for fo in orient:
                run.case(key=(key, "origin_to", cls, fo), action="composite.origin_to")
                ck = "%s:origin_to:%s:forced=%s" % (key, cls, fo)
                iso = (H.Point(P.copy()) if cls == "point" else fresh()).origin_to(force_oriented=fo)
                M = np.asarray(iso.matrix, float)
                if M.shape != (k, n + 1, n + 1):
                    run.violation(ck + ":shape", "composite.origin_to.shape", dict(n=n, cls=cls, observed=M.shape))
                    continue
                dets = np.linalg.det(M)
                if not fo:
                    mix["n=%d:%s" % (n, cls)] = dict(positive=int((dets > 0).sum()), negative=int((dets < 0).sum()))
                uses = ["construct"]
                miss = targets(iso, cls)
                for u in isouses:
                    if miss:
                        break
                    uses.append(u)
                    if u == "apply":
                        miss = targets(iso, cls)
                    elif u in ("inv", "inv_apply"):
                        inv = iso.inv()
                        if u == "inv_apply":
                            if cls == "point":
                                back = np.asarray((inv @ H.Point(P.copy())).proj_data, float)
                                badm = ~proj_close_rows(back, np.tile(o_pt, (k, 1)))
                            else:
                                got = lib_dir(inv @ fresh())
                                badm = np.ones(k, bool) if got is None else \
                                    (np.abs(got[0] - o_pt).max(-1) > TOL * scale) | (np.abs(got[1] - np.eye(n + 1)[1]).max(-1) > TOL * scale)
                            if badm.any():
                                miss = (first_bad(badm), "the inverse does not send the target back to the origin / base tangent")
                    elif u == "compose_inverse":
                        dev = np.abs(np.asarray((iso @ iso.inv()).matrix, float) - np.eye(n + 1)).max((-1, -2))
                        badm = ~(dev <= TOL * scale ** 2)
                        if badm.any():
                            miss = (first_bad(badm), "iso @ iso.inv() differs from the identity by %.3e" % dev[first_bad(badm)])
                    elif u == "matrix":
                        res = hc.form_residual(iso)
                        if not res <= TOL:
                            miss = (0, "max|RJR^T-J| = %.3e" % res)
                if miss:
                    i, text = miss
                    run.violation("%s:target:%d" % (ck, i), "composite.origin_to.target",
                                  dict(n=n, cls=cls, force_oriented=fo, uses_of_the_isometry_object=uses, tangent=obs[i]["tv"], observed=text))
                    continue
                dets2 = np.linalg.det(np.asarray(iso.matrix, float))
                if fo and not ((dets > 0).all() and (dets2 > 0).all()):
                    i = first_bad(~((dets > 0) & (dets2 > 0)))
                    run.violation("%s:oriented:%d" % (ck, i), "composite.origin_to.oriented",
                                  dict(n=n, cls=cls, tangent=obs[i]["tv"], units=k, orientation_reversing_units=int((~((dets > 0) & (dets2 > 0))).sum()),
                                       observed="force_oriented=True but det = %r for unit %d" % (float(dets[i]), i)))
        for j in range(len(obs[0]["along"])):
            t = np.array([tanh_arg(o["along"][j]["t"]) for o in obs])
            want = np.array([o["along"][j]["q"] for o in obs], float)
            run.case(key=(key, "point_along", j), action="composite.point_along")
            gq = np.asarray(H.TangentVector(H.Point(P.copy()), V.copy()).point_along(t).proj_data, float)      # unit vectors
            ok = gq.shape == want.shape and hc.proj_close(gq, want, TOL)
            if not ok:
                run.violation(key + ":point_along:%d" % j, "composite.point_along",
                              dict(n=n, tanh=obs[0]["along"][j]["t"], observed="shape %r; some point differs from the spec" % (gq.shape,)))
        for j in range(len(obs[0]["turns"])):
            run.case(key=(key, "angle", j), action="composite.angle")
            V2 = np.array([np.array(o["turns"][j]["tv"]["v"], float) / o["turns"][j]["tv"]["d"] for o in obs])
            want = np.array([rat(o["turns"][j]["cos"]) for o in obs])
            with np.errstate(all="ignore"):
                ang = np.asarray(fresh().angle(H.TangentVector(H.Point(P.copy()), 3.0 * V2)), float)
            badm = ~(np.isfinite(ang) & (np.abs(np.cos(ang) - want) <= TOL * scale)) if ang.shape == want.shape else np.ones(k, bool)
            if badm.any():
                i = first_bad(badm)
                run.violation(key + ":angle:%d:%d" % (j, i), "composite.angle",
                              dict(n=n, tangent=obs[i]["tv"], second=obs[i]["turns"][j]["tv"], observed="angle %r, spec cos %s" % (
                                  float(ang[i]) if ang.shape == want.shape else ang.shape, obs[i]["turns"][j]["cos"])))
        for j, sec in enumerate(seconds):
            run.case(key=(key, "isometry_to", j), action="composite.isometry_to")
            sx, sv = spec_dir(sec)
            target = H.TangentVector(H.Point(np.tile(np.array(sec["p"], float), (k, 1))), np.tile(2.0 * sv, (k, 1)))
            fo = bool(orient[j % len(orient)])
            iso_c = fresh().isometry_to(target, force_oriented=fo)
            img = iso_c @ fresh()
            dets = np.linalg.det(np.asarray(iso_c.matrix, float))
            if fo and not (dets.shape == (k,) and (dets > 0).all()):
                i = first_bad(~(dets > 0)) if dets.shape == (k,) else 0
                run.violation(key + ":isometry_to:%d:oriented:%d" % (j, i), "composite.isometry_to.oriented",
                              dict(n=n, tangent=obs[i]["tv"], target={f: sec[f] for f in ("p", "v", "d")}, units=k,
                                   observed="force_oriented=True but %d of %d units have det < 0" % (int((~(dets > 0)).sum()), k)))
                continue
            got = lib_dir(img)
            if got is None or got[0].shape != WX.shape:
                run.violation(key + ":isometry_to:%d" % j, "composite.isometry_to", dict(n=n, observed="not tangent vectors / shape"))
                continue
            sc = np.maximum(scale, np.abs(sx).max())
            badm = (np.abs(got[0] - sx).max(-1) > TOL * sc) | (np.abs(got[1] - sv).max(-1) > TOL * sc)
            if badm.any():
                i = first_bad(badm)
                run.violation(key + ":isometry_to:%d:%d" % (j, i), "composite.isometry_to",
                              dict(n=n, tangent=obs[i]["tv"], target=sec, observed="basepoint %r direction %r" % (got[0][i].tolist(), got[1][i].tolist())))
        # --- item assignment on the composite object, then the same queries on the edited array (use -> edit -> use)
        if edits:
            tvs = H.TangentVector(H.Point(P.copy()), V.copy())          # unit vectors
            cur = [o["tv"] for o in obs]
            cur_al = [o["along"] for o in obs]
            base = H.TangentVector.get_base_tangent(n)
            target = seconds[1 % len(seconds)]

            def query(tag, jt):
                """origin_to, point_along, isometry_to of the whole array against the exact values of its current entries"""
                WXc = np.array([spec_dir(c)[0] for c in cur])
                WVc = np.array([spec_dir(c)[1] for c in cur])
                sc = np.maximum(1.0, np.abs(WXc).max(-1))
                run.case(key=(key, "edit", tag), action="composite.after_edit")
                got = lib_dir(tvs.origin_to() @ base)
                if got is None or got[0].shape != WXc.shape:
                    return ("composite.edit.origin_to", 0, "not tangent vectors / shape")
                badm = (np.abs(got[0] - WXc).max(-1) > TOL * sc) | (np.abs(got[1] - WVc).max(-1) > TOL * sc)
                if badm.any():
                    i = first_bad(badm)
                    return ("composite.edit.origin_to", i, "origin_to @ base tangent: basepoint %r direction %r" % (got[0][i].tolist(), got[1][i].tolist()))
                t = np.array([tanh_arg(a[jt]["t"]) for a in cur_al])
                want = np.array([a[jt]["q"] for a in cur_al], float)
                gq = np.asarray(tvs.point_along(t).proj_data, float)
                if gq.shape != want.shape:
                    return ("composite.edit.point_along", 0, "shape %r" % (gq.shape,))
                badm = ~proj_close_rows(gq, want)
                if badm.any():
                    i = first_bad(badm)
                    return ("composite.edit.point_along", i, "point_along(atanh %s) = %r, spec %r" % (cur_al[i][jt]["t"], gq[i].tolist(), want[i].tolist()))
                sx, sv = spec_dir(target)
                tgt = H.TangentVector(H.Point(np.tile(np.array(target["p"], float), (k, 1))), np.tile(sv, (k, 1)))
                got = lib_dir(tvs.isometry_to(tgt) @ tvs)
                if got is None or got[0].shape != WXc.shape:
                    return ("composite.edit.isometry_to", 0, "not tangent vectors / shape")
                sc2 = np.maximum(sc, np.abs(sx).max())
                badm = (np.abs(got[0] - sx).max(-1) > TOL * sc2) | (np.abs(got[1] - sv).max(-1) > TOL * sc2)
                if badm.any():
                    i = first_bad(badm)
                    return ("composite.edit.isometry_to", i, "image basepoint %r direction %r" % (got[0][i].tolist(), got[1][i].tolist()))
                return None

            res = query("before", 0)
            done = []
            for ne, ed in enumerate(edits):
                if res:
                    break
                pos = (ed["pos"] - 1) % k
                sec = seconds[(ed["sec"] - 1) % len(seconds)]
                if ne % 2 == 0:
                    tvs[pos] = make_tv(H, sec, 1.0, 1)
                else:
                    tvs[pos] = np.array([np.array(sec["p"], float), np.array(sec["v"], float) / sec["d"]])
                cur[pos] = sec
                cur_al[pos] = sec["along"]
                done.append(dict(pos=pos, tangent={f: sec[f] for f in ("p", "v", "d")}))
                res = query("after edit %d" % (ne + 1), (ne + 1) % len(obs[0]["along"]))
            if res:
                clause, i, text = res
                run.violation(key + ":edits=%d:%s:%d" % (len(done), clause, i), clause,
                              dict(n=n, edits_applied=done, entry=i, entry_tangent={f: cur[i][f] for f in ("p", "v", "d")}, observed=text))
    except Exception as e:
        run.violation(key + ":raise", "raised:composite", dict(n=n, error=err_text(e)))


# ------------------------------------------------------------------------------------------
# all pairs of integer points: the unit tangent towards q, followed for d(p,q), arrives at q
# ------------------------------------------------------------------------------------------
def pairs_tlc(run, n, B, square):
    c = core.cfg(constants=dict(N=n, B=B, Triples=False, SquareOnly=square),
                 invariants=["ReversedCauchySchwarz", "Symmetric", "TimeOrientation", "KleinAgrees", "EmitPair"])
    return run.tlc("hyp/HypMetric.tla", c, name="HypMetric_pairs_n%d" % n, workers=2, emit_prefix="PAIR ")


def pairs(run, n, r, rng):
    H = hc.H()
    es = [e for e in r.emits if e["x"] != e["y"]]
    if not es:
        raise core.MachineryFailure("no pairs of distinct points for n=%d B=%d" % (n, B))
    X = np.array([e["x"] for e in es], float)
    Y = np.array([e["y"] for e in es], float)
    want_cosh = np.sqrt(np.array([rat(e["coshsq"]) for e in es]))
    key = "pairs:n=%d" % n
    run.evaluations += len(es)
    run.traces += len(es)
    run.nontrivial_count += len(es)
    run.actions["unit_tangent_towards+point_along (pairs)"] = run.actions.get("unit_tangent_towards+point_along (pairs)", 0) + len(es)

    def one(x, y, ch):
        """returns None or (clause, observed)"""
        P, Q = H.Point(x.copy()), H.Point(y.copy())
        utv = P.unit_tangent_towards(Q)
        got = lib_dir(utv)
        if got is None:
            return ("pairs.tangent_vector", "not a tangent vector")
        gx, gv = got
        sc = np.maximum(1.0, np.abs(gx).max(-1))
        yh = y / np.sqrt(-hc.mink(y, y))[..., None]
        vraw = np.asarray(utv.vector, float)
        badm = (~proj_close_rows(gx, x)) | (np.abs(hc.mink(vraw, vraw) - 1) > TOL * sc) | (np.abs(hc.mink(gx, gv)) > TOL * sc ** 2) \
            | ~(hc.mink(gv, yh) > 0)
        if np.any(badm):
            i = int(np.nonzero(np.atleast_1d(badm))[0][0])
            return ("pairs.unit_tangent", (i, "point %r vector %r" % (np.atleast_2d(gx)[i].tolist(), np.atleast_2d(vraw)[i].tolist())))
        with np.errstate(all="ignore"):
            d = np.asarray(P.distance(Q))
            back = np.asarray(utv.point_along(d).proj_data, float)
        if back.shape != y.shape:
            return ("pairs.shape", "point_along shape %r" % (back.shape,))
        badm = ~proj_close_rows(back, y) | ~(np.abs(np.cosh(d) - ch) <= 1e-9 * ch)
        if np.any(badm):
            i = int(np.nonzero(np.atleast_1d(badm))[0][0])
            return ("pairs.arrives", (i, "d = %r, arrived at %r" % (float(np.atleast_1d(d)[i]), np.atleast_2d(back)[i].tolist())))
        return None
    try:
        res = one(X, Y, want_cosh)
    except Exception as e:
        res = ("raised:pairs", err_text(e))
    if res:
        clause, obs_ = res
        if isinstance(obs_, tuple):
            i, text = obs_
            run.violation("%s:x=%s:y=%s" % (key, es[i]["x"], es[i]["y"]), clause, dict(n=n, x=es[i]["x"], y=es[i]["y"], observed=text, composite=True))
        else:
            run.violation(key + ":composite", clause, dict(n=n, observed=obs_))
    for i in rng.sample(range(len(es)), min(len(es), 60)):
        run.evaluations += 1
        try:
            res = one(X[i], Y[i], want_cosh[i])
        except Exception as e:
            res = ("raised:pairs", err_text(e))
        if res:
            clause, obs_ = res
            run.violation("%s:unit:x=%s:y=%s" % (key, es[i]["x"], es[i]["y"]), clause,
                          dict(n=n, x=es[i]["x"], y=es[i]["y"], observed=obs_[1] if isinstance(obs_, tuple) else obs_))
    e = es[len(es) // 3]
    run.sample(dict(kind="point pair (unit tangent towards, followed for d(p,q))", n=n, x=e["x"], y=e["y"], coshsq=e["coshsq"]))


def proj_close_rows(a, b, tol=TOL):
    """row-wise projective equality"""
    a = np.atleast_2d(np.asarray(a, float))
    b = np.atleast_2d(np.asarray(b, float))
    a = a / np.linalg.norm(a, axis=-1, keepdims=True)
    b = b / np.linalg.norm(b, axis=-1, keepdims=True)
    s = np.sign(np.sum(a * b, axis=-1, keepdims=True))
    out = np.abs(a - s * b).max(axis=-1) <= tol
    return out



# ------------------------------------------------------------------------------------------
# regular polygons
# ------------------------------------------------------------------------------------------
def qval(e, name):
    q = e[name]
    return rat(q["x"]) + rat(q["y"]) * math.sqrt(e["r"])


def sweep_case(e):
    """vertex-count sweep: a regular n-gon has exactly n vertices (composite shape (n,)), all at the same radius, with n equal
    sides of positive length and equal interior angles"""
    H = hc.H()
    k = e["kase"]
    n, dim = k["n"], k["dim"]
    out = []
    if "t" in k:
        R, a = tanh_arg(k["t"]), None
        key = "polygon-sweep:n=%d:tanhR=%d/%d:dim=%d" % (n, k["t"][0], k["t"][1], dim)
        args = dict(radius=R)
    else:
        R, a = None, math.pi * k["a"][0] / k["a"][1]
        key = "polygon-sweep:n=%d:a=%dpi/%d:dim=%d" % (n, k["a"][0], k["a"][1], dim)
        args = dict(angle=a)

    def bad(clause, observed):
        out.append((key + ":" + clause, clause, dict(case=k, expected_vertices=e["count"], observed=observed)))
    try:
        poly = H.Polygon.regular_polygon(n, dimension=dim, **args)
        V = poly.get_vertices()
        data = np.asarray(V.proj_data, float)
        if data.shape != (e["count"], dim + 1) or tuple(V.shape) != (e["count"],) or tuple(poly.shape) != ():
            bad("polygon.vertex_count", "vertex array of shape %r, vertices shape %r, polygon shape %r" % (data.shape, tuple(V.shape), tuple(poly.shape)))
            return out
        edges = np.asarray(poly.get_edges().proj_data)
        if edges.shape[:-2] != (e["count"],):
            bad("polygon.edge_count", "edge array of shape %r" % (edges.shape,))
            return out
        if not (np.isfinite(data).all() and (hc.mink(data, data) < 0).all()):
            bad("polygon.vertices_interior", "some vertex is not an interior point")
            return out
        with np.errstate(all="ignore"):
            rad = np.asarray(V.distance(H.Point.get_origin(dim)), float)
            nxt = H.Point(np.roll(data, -1, axis=0).copy())
            prv = H.Point(np.roll(data, 1, axis=0).copy())
            side = np.asarray(V.distance(nxt), float)
            ang = np.asarray(V.unit_tangent_towards(prv).angle(V.unit_tangent_towards(nxt)), float)
        chr_, chs = np.cosh(rad), np.cosh(side)
        if not (np.isfinite(rad).all() and (np.abs(chr_ - chr_[0]) <= TOL * chr_[0]).all()):
            bad("polygon.equal_radii", "distances from the origin range over [%r, %r]" % (float(rad.min()), float(rad.max())))
        elif "coshsqR" in e and not abs(chr_[0] ** 2 - qval(e, "coshsqR")) <= TOL * qval(e, "coshsqR"):
            bad("polygon.radius", "cosh^2 R = %r, spec %r" % (float(chr_[0] ** 2), qval(e, "coshsqR")))
        elif not (np.isfinite(side).all() and (side > 1e-6).all() and (np.abs(chs - chs[0]) <= TOL * max(1.0, float(chr_[0])) * chs[0]).all()):
            # (tolerance relative to the size of the hyperboloid coordinates, cosh R ~ n/pi for the angle-given polygons)
            bad("polygon.equal_sides", "side lengths range over [%r, %r] (vertex %d)" % (float(np.nanmin(side)), float(np.nanmax(side)), int(np.nanargmin(side))))
        elif not (ang.shape == (n,) and np.isfinite(ang).all() and (np.abs(np.cos(ang) - np.cos(ang[0])) <= 1e-8).all()
                  and (a is None or abs(math.cos(ang[0]) - math.cos(a)) <= 1e-8)):
            bad("polygon.interior_angle", "interior angles range over [%r, %r], requested %r" % (float(np.nanmin(ang)), float(np.nanmax(ang)), a))
    except Exception as ex:
        bad("raised:regular_polygon", err_text(ex))
    return out


def poly_case(e):
    """returns list of (key, clause, detail)"""
    if e["kase"]["kind"] == "sweep":
        return sweep_case(e)
    H = hc.H()
    k = e["kase"]
    n, dim, kind = k["n"], k["dim"], k["kind"]
    out = []
    if kind == "radius":
        R = tanh_arg(k["t"])
        key = "polygon:n=%d:tanhR=%d/%d:dim=%d" % (n, k["t"][0], k["t"][1], dim)
        args = dict(radius=R)
        a = None
    else:
        a = math.pi * k["a"][0] / k["a"][1]
        key = "polygon:%sn=%d:a=%dpi/%d:dim=%d" % ("genus=%d:" % k["genus"] if kind == "surface" else "", n, k["a"][0], k["a"][1], dim)
        args = dict(angle=a)
        R = None
    exact = kind != "generic"

    def bad(clause, observed):
        out.append((key + ":" + clause, clause, dict(case=k, spec={f: e[f] for f in ("r", "cosa", "coshsqR", "coshside") if f in e}, observed=observed)))

    # the closed forms
    try:
        with np.errstate(all="ignore"):
            if a is not None:
                Rf = float(H.regular_polygon_radius(n, a))
                a_back = float(H.polygon_interior_angle(n, Rf))
                if not (np.isfinite(Rf) and Rf > 0):
                    bad("radius_formula.positive", "regular_polygon_radius(%d, %r) = %r" % (n, a, Rf))
                elif exact and not abs(math.cosh(Rf) ** 2 - qval(e, "coshsqR")) <= TOL * qval(e, "coshsqR"):
                    bad("radius_formula.value", "cosh^2 of regular_polygon_radius = %r, spec %r" % (math.cosh(Rf) ** 2, qval(e, "coshsqR")))
                elif not abs(a_back - a) <= 1e-9:
                    bad("formulas_inverse", "polygon_interior_angle(n, regular_polygon_radius(n, a)) = %r, a = %r" % (a_back, a))
            else:
                af = float(H.polygon_interior_angle(n, R))
                R_back = float(H.regular_polygon_radius(n, af))
                if not (np.isfinite(af) and abs(math.cos(af) - qval(e, "cosa")) <= TOL and 0 < af < math.pi):
                    bad("angle_formula.value", "cos of polygon_interior_angle = %r, spec %r" % (math.cos(af), qval(e, "cosa")))
                elif not abs(math.cosh(R_back) - math.cosh(R)) <= 1e-9 * math.cosh(R):
                    bad("formulas_inverse", "regular_polygon_radius(n, polygon_interior_angle(n, R)) = %r, R = %r" % (R_back, R))
    except Exception as ex:
        bad("raised:formulas", err_text(ex))
    if kind == "surface":
        try:
            Rg = float(H.genus_g_surface_radius(k["genus"]))
            if not abs(math.cosh(Rg) ** 2 - qval(e, "coshsqR")) <= TOL * qval(e, "coshsqR"):
                bad("surface_radius.value", "cosh^2 of genus_g_surface_radius(%d) = %r, spec %r" % (k["genus"], math.cosh(Rg) ** 2, qval(e, "coshsqR")))
        except Exception as ex:
            bad("raised:genus_g_surface_radius", err_text(ex))
    # the polygon
    try:
        if kind == "surface":
            poly = H.Polygon.regular_surface_polygon(k["genus"])
        else:
            poly = H.Polygon.regular_polygon(n, dimension=dim, **args)
        V = poly.get_vertices()
        data = np.asarray(V.proj_data, float)
        if data.shape != (n, dim + 1) or tuple(poly.shape) != ():
            bad("polygon.vertex_count", "vertex array of shape %r, polygon shape %r" % (data.shape, tuple(poly.shape)))
            return out
        if not (np.isfinite(data).all() and (hc.mink(data, data) < 0).all()):
            bad("polygon.vertices_interior", "vertices %r" % data.tolist())
            return out
        with np.errstate(all="ignore"):
            rad = np.asarray(V.distance(H.Point.get_origin(dim)), float)
            nxt = H.Point(np.roll(data, -1, axis=0).copy())
            prv = H.Point(np.roll(data, 1, axis=0).copy())
            side = np.asarray(V.distance(nxt), float)
            ang = np.array([float(H.Point(data[i].copy()).unit_tangent_towards(H.Point(np.roll(data, 1, axis=0)[i].copy())).angle(
                H.Point(data[i].copy()).unit_tangent_towards(H.Point(np.roll(data, -1, axis=0)[i].copy())))) for i in range(n)])
            ang_c = np.asarray(V.unit_tangent_towards(prv).angle(V.unit_tangent_towards(nxt)), float)
        chr_, chs = np.cosh(rad), np.cosh(side)
        if not (np.isfinite(rad).all() and (np.abs(chr_ - chr_[0]) <= TOL * chr_[0]).all()):
            bad("polygon.equal_radii", "distances from the origin %r" % rad.tolist())
        elif exact and not abs(chr_[0] ** 2 - qval(e, "coshsqR")) <= TOL * qval(e, "coshsqR"):
            bad("polygon.radius", "cosh^2 R = %r, spec %r" % (float(chr_[0] ** 2), qval(e, "coshsqR")))
        elif R is not None and not abs(chr_[0] - math.cosh(R)) <= TOL * math.cosh(R):
            bad("polygon.radius", "requested radius %r, vertices at %r" % (R, float(rad[0])))
        elif not (np.isfinite(side).all() and (np.abs(chs - chs[0]) <= TOL * chs[0]).all() and (side > 1e-6).all()):
            bad("polygon.equal_sides", "side lengths %r" % side.tolist())
        elif exact and not abs(chs[0] - qval(e, "coshside")) <= TOL * qval(e, "coshside"):
            bad("polygon.side", "cosh s = %r, spec %r" % (float(chs[0]), qval(e, "coshside")))
        else:
            want_cos = qval(e, "cosa") if exact else math.cos(a)
            if not (np.isfinite(ang).all() and (np.abs(np.cos(ang) - want_cos) <= 1e-8).all()):
                bad("polygon.interior_angle", "interior angles %r, requested %r (cos %r)" % (ang.tolist(), a, want_cos))
            elif not (ang_c.shape == (n,) and np.isfinite(ang_c).all() and (np.abs(np.cos(ang_c) - want_cos) <= 1e-8).all()):
                bad("polygon.interior_angle_composite", "interior angles (vectorised) %r, cos %r" % (ang_c.tolist(), want_cos))
    except Exception as ex:
        bad("raised:regular_surface_polygon" if kind == "surface" else "raised:regular_polygon", err_text(ex))
    return out


def polygons_tlc(run, quick):
    c = core.cfg(constants=dict(Dims={2, 3} if quick else {2, 3, 4, 5}, MaxN=12 if quick else 16, MaxSweep=200 if quick else 400), invariants=POLY_INVS)
    return run.tlc("hyp/HypPolygon.tla", c, name="HypPolygon", workers=1, emit_prefix="CASE ")


def polygons(run, r, pool):
    cases = sorted(r.emits, key=lambda e: json.dumps(e["kase"], sort_keys=True))
    results = pool.map(poly_case, cases, chunksize=4) if pool else map(poly_case, cases)
    for e, viol in zip(cases, results):
        run.case(key=("polygon", json.dumps(e["kase"], sort_keys=True)), action="regular_polygon:" + e["kase"]["kind"])
        run.traces += 1
        for key, clause, detail in viol:
            run.violation(key, clause, detail)
    for kind in ("angle", "radius", "sweep"):
        ex = [e for e in cases if e["kase"]["kind"] == kind]
        if ex:
            run.sample(dict(kind="regular polygon (%s given)" % kind, **ex[len(ex) // 2]))


def run(run, replay=None):
    import multiprocessing
    quick = run.tier == "quick"
    rng = random.Random(run.seed)
    run.rule = ("one case per frame emitted by HypTangent.tla (every operation of the property evaluated on the tangent vector it "
                "carries, ~80 library calls compared with exact values), per ordered pair of distinct integer points of "
                "HypMetric.tla, and per polygon case of HypPolygon.tla; distinct_nontrivial = frames + pairs + polygon cases")
    run.assumptions += [
        "tangent vectors g.(o, e1) for exact frames g (words of length <= MaxLen in reflections, Pythagorean rotations, rational "
        "loxodromics, signed permutations, boosts); distances t = atanh(a/b) for 8 rationals a/b of both signs; angles with rational "
        "cosine; inputs handed over as non-unit representatives with x0 > 0 (negative representatives: C12)",
        "regular polygons: exact values for n in {3,4,5,6,8,10,12} with a = k pi/m, m <= 6 (quadratic fields) and tanh R rational; "
        "other (n, j pi/12): measured with the library's own distance/angle only",
        "tolerance 1e-9 relative to the size of the hyperboloid coordinates (1e-8 on cosh of distances between far points)",
    ]
    # all TLC runs first, a few at a time (threads only wait for the JVMs), then the replay in forked workers
    from concurrent.futures import ThreadPoolExecutor
    tplan = {2: (2, False, 170), 3: (2, True, 110), 4: (1, False, None), 5: (1, False, None)} if quick else \
            {2: (3, True, 1500), 3: (2, False, None), 4: (2, False, 500), 5: (2, False, 400)}
    pplan = {2: (3, False), 3: (2, False), 4: (2, True), 5: (2, True)} if quick else {2: (5, False), 3: (3, False), 4: (2, False), 5: (2, False)}
    with ThreadPoolExecutor(max_workers=min(core.NCPU, 3 if quick else 4)) as ex:
        ft = {n: ex.submit(tangent_tlc, run, n, L, thin) for n, (L, thin, _) in tplan.items()}
        fq = ex.submit(polygons_tlc, run, quick)
        fp = {n: ex.submit(pairs_tlc, run, n, B, sq) for n, (B, sq) in pplan.items()}
        rt = {n: f.result() for n, f in ft.items()}
        rq = fq.result()
        rp = {n: f.result() for n, f in fp.items()}
    pool = multiprocessing.get_context("fork").Pool(min(core.NCPU, 4 if quick else 8))
    try:
        for n, (L, thin, limit) in tplan.items():
            tangent(run, n, rt[n], pool, limit, rng)
        for n in pplan:
            pairs(run, n, rp[n], rng)
        polygons(run, rq, pool)
    finally:
        pool.close()
        pool.join()
