"""C07 — Coxeter automata accept exactly the geodesic / shortlex normal forms.

spec/cox/CoxeterWalk.tla: the Cayley graph of a Coxeter group explored by TLC, a state being
the braid class (set of all reduced expressions) of a group element: Tits' solution of the
word problem, independent of roots, forms and floating point.  TLC checks on every explored
transition the exchange condition, Matsumoto's theorem and completeness of the class, on
every matrix that the defining relations hold with the exact orders, and on constants the
growth series of A2, B2, A3, D_oo, Z2*Z2*Z2, A~2.  It emits, per element, all its reduced
expressions, its shortlex normal form and its descent set, and every edge of the ball.

Conformance (spec -> code): for every matrix of the batch the library's CoxeterGroup is built
(matrix route with both naming styles and both encodings of infinity, diagram route) and its
four automata (geodesic / shortlex, plain / even length) must
  * enumerate, up to length L, exactly the reduced words / exactly the shortlex normal forms
    (each once) / exactly those of even length,
  * accept every reduced word (resp. only the normal form of each element) and reject every
    one-letter non-reduced extension u.g (g a descent of the element of u),
  * have as many accepted words of each length as TLC found elements (growth series),
  * and distinct shortlex words must have distinct canonical_representation() images.
"""
import json
import multiprocessing as mp
import random
import signal
import time

import numpy as np

from .. import core
from .. import cox_common as cc

SPEC = {}      # matrix index -> prepared tables (inherited by forked workers)
MATS = []
RADS = []


def prepare(M, L, obs):
    reduced = set()
    shortlex = set()
    nonred = set()
    growth = [0] * (L + 1)
    for o in obs:
        sid = tuple(o["id"])
        shortlex.add(sid)
        growth[len(sid)] += 1
        for w in o["cls"]:
            w = tuple(w)
            reduced.add(w)
            for g in o["desc"]:
                nonred.add(w + (g,))
    return dict(M=M, L=L, reduced=reduced, shortlex=shortlex, nonred=nonred, growth=growth)


VARIANTS = [
    dict(route="matrix", style="alpha", inf="zero", full=True),
    dict(route="diagram", style="alphanum", inf="neg", full=False),
    dict(route="matrix", style="alphanum", inf="neg", full=False),
    dict(route="diagram", style="alpha", inf="zero", full=False),
]
# generators named by small integers (diagram route: "any hashable object"); words of integers cannot be spelled as
# strings by enumerate_words / automaton_multiple, so this variant is observed through accepts() on lists only
INT_VARIANT = dict(route="diagram", style="int", inf="zero", full=True, accepts_only=True, accepts_upto=5)
UNIVERSE = dict(orders=list(cc.NAME_ORDERS), histories=["query", "edit_input_then_query"])


class CpuLimit(Exception):
    pass


def cpu_limited(seconds, fn):
    """run fn() with a bound on the CPU time of this process (independent of the load of the machine)"""
    def handler(sig, frm):
        raise CpuLimit()
    old = signal.signal(signal.SIGVTALRM, handler)
    signal.setitimer(signal.ITIMER_VIRTUAL, seconds)
    try:
        return fn()
    finally:
        signal.setitimer(signal.ITIMER_VIRTUAL, 0)
        signal.signal(signal.SIGVTALRM, old)


BASE_CPU_S = 60     # CoxeterGroup.automaton(): H4 (14400 states) needs about 5 s
EVEN_CPU_S = 20     # even-length variant: allowed 3 x the measured time of the base automaton + this


def pairs_of(ws):
    """a word of even length as the list of two-letter labels the even automaton reads"""
    return ["".join(ws[i:i + 2]) for i in range(0, len(ws), 2)]


def check_variant(sp, v, do_even, do_faithful, container="list", labels="int", order="sorted", history="query"):
    """Returns (evaluations, [(clause, detail)], sample)."""
    M, L = sp["M"], sp["L"]
    n = 0
    bad = []
    sample = None
    try:
        G, names, input_unchanged, consistent = cc.build_group_full(M, v["route"], v["style"], v["inf"], container, labels, order, history)
    except Exception as e:
        return 1, [("raised:CoxeterGroup", "%s: %s" % (type(e).__name__, e))], None
    d = consistent()
    if d:
        return 1, [("constructor", "%s route%s: %s" % (v["route"], (" (diagram handed over as a %s)" % container) if v["route"] == "diagram" else "", d))], None
    if list(G.ordered_gens) != names:
        return 1, [("generator_names", "ordered_gens %r, expected %r (order of first appearance)" % (list(G.ordered_gens), names))], None
    accepts_only = v.get("accepts_only", False)
    J = lambda w: "".join(str(names[g - 1]) for g in w)
    for sl in (False, True):
        kind = "shortlex" if sl else "geodesic"
        exp = sp["shortlex"] if sl else sp["reduced"]
        try:
            t0 = time.process_time()
            A = cpu_limited(BASE_CPU_S, lambda: G.automaton(shortlex=sl))
            t_base = time.process_time() - t0
            got = sorted(A.enumerate_words(L)) if not accepts_only else None
            want = sorted(J(w) for w in exp)
            n += len(want)
            if got is not None and got != want:
                gs, ws = set(got), set(want)
                extra = sorted(gs - ws, key=lambda x: (len(x), x))[:5]
                missing = sorted(ws - gs, key=lambda x: (len(x), x))[:5]
                dup = len(got) - len(gs)
                bad.append((kind + ".language", "up to length %d: accepted but not %s: %r; %s but not accepted: %r; duplicates: %d"
                            % (L, "normal forms" if sl else "reduced", extra, "normal forms" if sl else "reduced", missing, dup)))
            if sl and not accepts_only:
                cnt = [0] * (L + 1)
                for k in range(L + 1):
                    cnt[k] = sum(1 for _ in A.enumerate_fixed_length_paths(k))
                if cnt != sp["growth"]:
                    bad.append(("growth_series", "accepted words per length %r, elements per length %r" % (cnt, sp["growth"])))
                if sample is None and len(want) > 5 and not any(0 in row for row in M) and max(max(row) for row in M) > 3:
                    sample = dict(kind="automaton", matrix=M, route=v["route"], names=names, L=L,
                                  growth=sp["growth"], some_normal_forms=want[len(want) // 2: len(want) // 2 + 6])
            if v["full"]:
                cap = v.get("accepts_upto", L + 1)
                for w in sp["reduced"]:
                    if len(w) > cap:
                        continue
                    n += 1
                    a = bool(A.accepts(cc.word_names(w, names)))
                    if a != (w in exp):
                        bad.append((kind + ".accepts", "accepts(%r) = %r, spec: reduced%s" % (J(w), a, (", normal form %r" % (w in exp)) if sl else "")))
                        break
                for w in sp["nonred"]:
                    if len(w) > cap:
                        continue
                    n += 1
                    if A.accepts(cc.word_names(w, names)):
                        bad.append((kind + ".accepts_nonreduced", "accepts(%r) = True, but %r already ends in %r" % (J(w), J(w[:-1]), names[w[-1] - 1])))
                        break
            if do_even and not accepts_only:
                try:
                    E = cpu_limited(3 * t_base + EVEN_CPU_S, lambda: G.automaton(shortlex=sl, even_length=True))
                except CpuLimit:
                    bad.append((kind + ".even.not_produced", "automaton(shortlex=%r, even_length=True) did not return within %.0f s of CPU time; "
                                "automaton(shortlex=%r) has %d states and took %.1f s" % (sl, 3 * t_base + EVEN_CPU_S, sl, len(list(A.vertices())), t_base)))
                    continue
                Le = L // 2
                got = sorted(E.enumerate_words(Le))
                want = sorted(J(w) for w in exp if len(w) % 2 == 0 and len(w) <= 2 * Le)
                n += len(want)
                if got != want:
                    gs, ws = set(got), set(want)
                    bad.append((kind + ".even.language", "even-length automaton up to %d letters: extra %r, missing %r, duplicates %d"
                                % (2 * Le, sorted(gs - ws, key=lambda x: (len(x), x))[:5], sorted(ws - gs, key=lambda x: (len(x), x))[:5], len(got) - len(gs))))
                if v["full"]:
                    for w in list(sp["reduced"]) + list(sp["nonred"]):
                        if len(w) % 2:
                            continue
                        n += 1
                        a = bool(E.accepts(pairs_of(cc.word_names(w, names))))
                        if a != (w in exp):
                            bad.append((kind + ".even.accepts", "even automaton accepts(%r) = %r, spec %r" % (J(w), a, w in exp)))
                            break
        except CpuLimit:
            bad.append((kind + ".not_produced", "automaton(shortlex=%r) did not return within %d s of CPU time" % (sl, BASE_CPU_S)))
        except Exception as e:
            bad.append(("raised:" + kind, "%s: %s" % (type(e).__name__, e)))
    if do_faithful and not accepts_only:
        try:
            rep = G.canonical_representation()
            ws = sorted(sp["shortlex"], key=lambda w: (len(w), w))
            mats = np.array([np.asarray(rep[cc.word_names(w, names)], dtype=float) for w in ws])
            n += len(ws)
            flat = mats.reshape(len(ws), -1)
            # "equal" = equal up to rounding: distinct elements of a discrete group can be close relative to
            # the size of the entries, so the threshold is per pair and only just above float noise
            rs = 1.0 + np.abs(flat).max(axis=1)
            for i0 in range(0, len(ws), 256):
                d = np.abs(flat[i0:i0 + 256, None, :] - flat[None, :, :]).max(axis=2)
                idx = np.arange(i0, min(i0 + 256, len(ws)))
                d[np.arange(len(idx)), idx] = np.inf
                thr = 1e-10 * np.maximum.outer(rs[i0:i0 + 256], rs)
                if (d < thr).any():
                    a, b = np.argwhere(d < thr)[0]
                    bad.append(("canonical_images_distinct", "normal forms %r and %r have equal images" % (J(ws[i0 + a]), J(ws[b]))))
                    break
        except Exception as e:
            bad.append(("raised:canonical_representation", "%s: %s" % (type(e).__name__, e)))
    # the queries above must not have changed the group object nor the caller's input
    try:
        if not do_faithful and not accepts_only:
            G.canonical_representation()
        cm = np.asarray(G.coxeter_matrix)
        if not np.array_equal(cm, np.array(cc.lib_matrix(M, v["inf"]))):
            bad.append(("object_unchanged", "coxeter_matrix is now %r, was %r" % (np.round(cm.astype(float), 9).tolist(), cc.lib_matrix(M, v["inf"]))))
        d = input_unchanged()
        if d:
            bad.append(("input_unchanged", d))
    except Exception as e:
        bad.append(("raised:object_unchanged", "%s: %s" % (type(e).__name__, e)))
    return n, bad, sample


def check_matrix(args):
    m, n_variants, do_even = args
    sp = SPEC[m]
    tot = 0
    out = []
    sample = None
    variants = list(VARIANTS[:n_variants]) + [INT_VARIANT]
    orders, hists = UNIVERSE["orders"], UNIVERSE["histories"]
    for vi, v in enumerate(variants):
        container = cc.DIAGRAM_CONTAINERS[(m + vi) % len(cc.DIAGRAM_CONTAINERS)]
        labels = cc.LABEL_TYPES[(m + vi + 1) % 2] if vi > 0 else "int"
        order = orders[(m + vi) % len(orders)]
        history = hists[(m + vi) % len(hists)]
        if v.get("accepts_only"):
            container = "list"
        if v["route"] == "diagram" and container != "list":
            history = "query"        # a one-shot iterable leaves the caller nothing to edit
        n, bad, s = check_variant(sp, v, do_even, do_faithful=(vi == 0), container=container, labels=labels, order=order, history=history)
        if any(c.endswith("not_produced") for c, _ in bad):
            do_even = False     # do not wait for the same construction again under the next variant
        tot += n
        sample = sample or s
        for clause, detail in bad[:3]:
            out.append((dict(matrix=sp["M"], route=v["route"] + ("(%s)" % container if v["route"] == "diagram" else "") + ("[float]" if labels == "float" else ""),
                             style=v["style"] + ("/" + order if v["route"] == "diagram" else ""), inf=v["inf"], history=history), clause, detail))
    return m, tot, out, sample


def builtin_files(run, obs_by_triple):
    """the shipped word-acceptor files of triangle groups against the same oracle"""
    from geometry_tools.automata import fsa
    have = set(fsa.list_builtins())
    for (name, sl), (m, L) in obs_by_triple.items():
        if name not in have:
            continue
        sp = SPEC[m]
        run.case(key=("builtin", name), action="builtin_file")
        try:
            A = fsa.load_builtin(name)
            got = sorted(A.enumerate_words(L))
        except Exception as e:
            run.violation("builtin:" + name, "raised:builtin", dict(file=name, error="%s: %s" % (type(e).__name__, e)))
            continue
        exp = sp["shortlex"] if sl else sp["reduced"]
        want = sorted("".join("abcd"[g - 1] for g in w) for w in exp)
        if got != want:
            gs, ws = set(got), set(want)
            run.violation("builtin:" + name, "builtin." + ("shortlex" if sl else "geodesic") + ".language",
                          dict(file=name, matrix=sp["M"], L=L, extra=sorted(gs - ws, key=lambda x: (len(x), x))[:5],
                               missing=sorted(ws - gs, key=lambda x: (len(x), x))[:5]))


def run(run, replay=None):
    global SPEC, MATS, RADS
    quick = run.tier == "quick"
    rng = random.Random(run.seed)
    run.rule = ("a case is one (Coxeter matrix, construction variant) pair whose four automata were compared with the "
                "TLC-emitted ball of the Cayley graph; evaluations counts words compared (enumerated languages, accepts "
                "calls, images); distinct_nontrivial counts distinct (matrix, variant) pairs")
    batches = []          # (tag, matrices, radii, variants, even)
    r2 = [cc.sym(2, [m]) for m in list(range(2, 13)) + [0]]
    batches.append(("rank2", r2, [min(M[0][1] + 2, 14) if M[0][1] else 10 for M in r2], 4, True))
    r3 = cc.all_mats(3, cc.LABELS7)
    batches.append(("rank3", r3, [8 if quick else 10] * len(r3), 4 if not quick else 2, True))
    # rank 4 groups with a name: A4, B4, D4, F4, H4, affine A~3, B~3, C~3, compact hyperbolic [5,3,5], [4,3,5], [3,5,3]
    named4 = [cc.sym(4, v) for v in ([3, 2, 2, 3, 2, 3], [4, 2, 2, 3, 2, 3], [3, 2, 2, 3, 3, 2], [3, 2, 2, 4, 2, 3], [5, 2, 2, 3, 2, 3],
                                     [3, 2, 3, 3, 2, 3], [2, 3, 2, 3, 2, 4], [4, 2, 2, 3, 2, 4], [5, 2, 2, 3, 2, 5], [4, 2, 2, 3, 2, 5],
                                     [3, 2, 2, 5, 2, 3])]
    batches.append(("rank4named", named4, [5 if quick else 7] * len(named4), 2, True))
    if quick:
        r4 = cc.random_mats(rng, 4, cc.LABELS7, 120)
        batches.append(("rank4", r4, [5] * len(r4), 2, True))
        r5 = cc.random_mats(rng, 5, cc.LABELS7, 30, weights=[4, 3, 2, 1, 1, 1, 2])
        batches.append(("rank5", r5, [4] * len(r5), 1, False))
    else:
        r4 = cc.up_to_relabelling(4, cc.LABELS7)
        batches.append(("rank4", r4, [5] * len(r4), 2, True))
        r4b = cc.random_mats(rng, 4, cc.LABELS7, 100)
        batches.append(("rank4deep", r4b, [7] * len(r4b), 2, True))
        r5 = cc.random_mats(rng, 5, cc.LABELS7, 150, weights=[4, 3, 2, 1, 1, 1, 2])
        batches.append(("rank5", r5, [5] * len(r5), 1, False))
    # the Coxeter groups shipped as word-acceptor files (labels read off the file names; which pair of
    # letters carries which label is the one relabelling under which the file is a Coxeter automaton)
    builtin = {"cox237": cc.sym(3, [2, 7, 3]), "cox334": cc.sym(3, [3, 4, 3]),
               "cox3334": cc.sym(4, [3, 2, 4, 3, 2, 3]), "cox535": cc.sym(4, [5, 2, 2, 3, 2, 5])}
    bl = list(builtin.items())
    batches.append(("builtin", [M for _, M in bl], [(9 if quick else 12) if len(M) == 3 else (6 if quick else 8) for _, M in bl], 1, True))
    if replay:
        # re-execute the failing matrix of a replay file under every construction variant
        first = json.load(open(replay))["first"]
        M = first["detail"].get("matrix") or first["detail"]["case"]["matrix"]
        rad = {2: 14, 3: 8 if quick else 10, 4: 5 if quick else 6}.get(len(M), 4 if quick else 5)
        batches = [("replay", [M], [rad], 4, len(M) < 5)] + batches[-1:]
    run.assumptions += [
        "entries 2..7 and infinity (rank 2: 2..12); words up to the radius of each batch: " +
        ", ".join("%s: %d matrices, L=%d" % (t, len(ms), max(rs)) for (t, ms, rs, _, _) in batches),
        "rank 3: all 343 labelled matrices; rank 4: 11 named groups (A4 B4 D4 F4 H4, affine, compact hyperbolic) + %s; "
        "rank 5: seeded random sample (labels weighted towards small ones)"
        % ("seeded random sample" if quick else "all matrices up to relabelling + a deeper random sample"),
        "every pair of generators is listed in a diagram (label 2 included): the constructor requires it; the diagram is handed over as "
        "list / tuple / generator / zip / iterator / map in rotation (documented as 'an iterable of tuples')",
        "even-length variant observed through enumerate_words / accepts on two-letter labels; not built for rank 5 (cost)",
        "an automaton must be returned within 60 s of CPU time, its even-length variant within 3 x the measured time of the base automaton + 20 s",
        "shipped files cox237/334/3334/535: the assignment of labels to pairs of letters is read off the file (relabelling freedom)",
        "lexicographic order: order of the generators in ordered_gens (matrix index order; diagram: order of first appearance)",
        "diagram names first appear in alphabetical / reverse / mixed order (rotation); one extra variant per matrix names the generators "
        "1..n / n-1..0 / 1..n-1,0 and is observed through accepts() on lists only (words of integers cannot be spelled as strings)",
        "half of the constructions are followed by the caller overwriting its own array / edge list with another matrix before any query",
        "labels handed over as int64 or float64 with integral values (alternating on the non-primary variants); coxeter_matrix and the "
        "caller's input must be unchanged after the automata and the canonical representation were built",
    ]
    workers = min(8, core.NCPU)
    run.extra["matrices"] = 0
    run.extra["elements"] = 0
    run.extra["reduced_words"] = 0
    CH = 1500       # matrices per TLC run (bounds the size of TLC's output held in memory)
    jobs = []
    if quick or replay:
        # one TLC run for everything
        jobs.append(("all", [(tag, M, L, nv, even) for (tag, ms, rs, nv, even) in batches for M, L in zip(ms, rs)]))
    else:
        for (tag, ms, rs, nv, even) in batches:
            rows = [(tag, M, L, nv, even) for M, L in zip(ms, rs)]
            for c0 in range(0, len(rows), CH):
                jobs.append(("%s_%d" % (tag, c0 // CH), rows[c0:c0 + CH]))
    seen_variant = set()
    for (jname, rows) in jobs:
        MATS = [row[1] for row in rows]
        RADS = [row[2] for row in rows]
        plan = [(k, row[3], row[4]) for k, row in enumerate(rows)]
        r, obs, edges, _, tables = cc.run_batch(run, "CoxeterWalk", MATS, RADS, "CoxeterWalk_" + jname,
                                           invariants=["TypeOK", "Closed", "DescentsSane", "RelationsHold", "EmitObs"],
                                           action_constraints=[], workers=workers if quick else min(12, core.NCPU))
        r.stdout = ""
        var = tables.get("VAR")
        if not var or not set(var["orders"]) <= set(cc.NAME_ORDERS) or "int" not in var["namings"]:
            raise core.MachineryFailure("CoxeterWalk.tla did not print the table of construction variants")
        UNIVERSE["orders"] = sorted(var["orders"], reverse=True)
        UNIVERSE["histories"] = sorted(var["histories"], reverse=True)
        SPEC = {m: prepare(MATS[m], RADS[m], obs[m]) for m in range(len(MATS))}
        run.extra["matrices"] += len(MATS)
        run.extra["elements"] += sum(len(o) for o in obs)
        run.extra["reduced_words"] += sum(len(sp["reduced"]) for sp in SPEC.values())
        del obs, edges
        # heavy matrices first
        named = {k for k, row in enumerate(rows) if row[0] == "rank4named"}      # large finite groups first
        plan.sort(key=lambda a: (a[0] not in named, -len(SPEC[a[0]]["reduced"]) * a[1]))
        with mp.get_context("fork").Pool(workers if quick else min(12, core.NCPU)) as pool:
            outs = pool.map(check_matrix, plan, chunksize=4)
        for (m, tot, bad, sample) in outs:
            run.evaluations += tot
            run.traces += 1
            for ctx, clause, detail in bad:
                key = "cox:%s:%s/%s/%s%s" % (cc.short(ctx["matrix"]), ctx["route"], ctx["style"], ctx["inf"], "/edited" if ctx.get("history", "query") != "query" else "")
                run.violation(key, clause, dict(case=ctx, observed=detail))
            if sample:
                run.sample(sample)
        for (m, nv, even) in plan:
            for vi in range(nv + 1):
                run.case(key=("cox", jname, m, vi), action="automata(%s)" % (VARIANTS[vi]["route"] if vi < nv else "diagram,int names"))
            run.evaluations -= nv + 1       # case() counted them; evaluations are the words compared
        if rows[-1][0] == "builtin":
            # shipped automata (the last rows of this job)
            base = len(MATS) - len(bl)
            files = {}
            for k, (name, M) in enumerate(bl):
                files[(name + ".wa", True)] = (base + k, RADS[base + k])
                files[(name + ".geowa", False)] = (base + k, RADS[base + k])
            builtin_files(run, files)
