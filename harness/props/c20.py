"""C20 — CP^1 points, disks and Moebius maps are consistent on the Riemann sphere.

spec/cp1/CP1.tla (+ spec/lib/Gauss.tla) is an exact integer model: points are rows of Gaussian
integers, points of S^2 are integer quadruples (x, y, h, n), an open disk is a Hermitian integer
matrix H of negative determinant (D_H = {z H z* < 0}, uniform for bounded disks, disks containing
infinity and half planes), a Moebius map acts by H -> adj(M) H adj(M)*, the complement is -H.
TLC explores three models and checks their theorems (see the module header):

  points : every rational point of S^2 / every small homogeneous point: the two conversions are
           inverse, agree with stereographic projection, are scale invariant, antipodes;
  disks  : the state machine Build / Apply(g) / Complement to depth MaxDepth; on every state:
           the action on matrices is the pointwise image (side to side), complement is an
           involution exchanging sides, the disk is the spherical cap it reports, ...;
           the labelled transition system is emitted;
  pairs  : every ordered pair of a universe of disks (bounded, containing infinity with the
           interior point at / away from infinity, Moebius images) in general position:
           containment / intersection, validated against probe points, duality, the Euclidean
           criterion, Moebius invariance.

Conformance (spec -> code): every emitted value is compared with what the library reports:
CP1Point conversions; CP1Disk(c, r) / CP1Disk(centre, rho, "fs") for every build case and
coordinate system, then every history of T @ disk / disk.complement() of the LTS, comparing after
each step boundary points (on the circle, distinct), interior point (inside), circle_parameters,
center_inside, fs_center, fs_diameter; contains / intersects elementwise (whole table, each
bounded/unbounded combination alone, random sub-batches, single pairs, 0-d objects, 2-d shapes)
and pairwise, for disks given by data and for disks obtained through the constructors.
"""
import json
import math
import multiprocessing as mp
import random

import numpy as np

from .. import core

MODULE = "cp1/CP1.tla"

# tolerances (dimensionless: every residual below is normalised before it is compared)
TOL_ON = 1e-9        # |z H z*| / (|H| |z|^2) for a boundary point
TOL_IN = 1e-10       # interior point: z H z* / (|H| |z|^2) < -TOL_IN
TOL_SEP = 1e-6       # chordal separation of two boundary points
TOL_AFF = 1e-8       # centre / radius, relative to 1 + |c| + r
TOL_SPH = 1e-8       # unit vectors, cos / sin of the Fubini-Study diameter
TOL_PT = 1e-11       # points: normalised cross product, spherical coordinates


# ----------------------------------------------------------------------------------------
# constants per tier
# ----------------------------------------------------------------------------------------
def constants(tier, what):
    quick = tier == "quick"
    c = dict(SphN={1, 3, 5}, PBox=2, CBox=2, RadiiHalf={1, 2, 5}, CosNums={0, 39}, CosDen=65,
             Gens={"tr1", "tri", "inv", "rotq", "gen", "gen2"}, Bound=3000, MaxDepth=2,
             GridN=3, GridDen=1, PairRe=1, PairIm=1, PairRadiiHalf={1, 2, 5},
             PairGens={"tr1", "inv", "rotq"})
    if what == "points":
        c.update(SphN={1, 3, 5, 7, 9} if quick else {1, 3, 5, 7, 9, 11, 13}, PBox=2 if quick else 3)
    elif what == "disks":
        if not quick:
            c.update(SphN={1, 3, 5, 7}, CosNums={0, 25, 39, 60}, RadiiHalf={1, 2, 4, 7}, MaxDepth=3,
                     Gens={"tr1", "tri", "inv", "rotq", "gen", "dil"}, Bound=5000)
    elif what == "pairs":
        c.update(GridN=6)
        if not quick:
            c.update(PairRe=2, PairIm=2, PairRadiiHalf={1, 2, 4, 7}, PairGens={"tr1", "tri", "inv", "rotq"}, GridN=7)
    return c


# ----------------------------------------------------------------------------------------
# rendering of exact values (no mathematics: integers -> floats)
# ----------------------------------------------------------------------------------------
def G(z):
    return complex(z[0], z[1])


def PT(p):
    return np.array([G(p[0]), G(p[1])], dtype=complex)


def hkey(H):
    return (H[0], H[1][0], H[1][1], H[2])


def table(stdout, name):
    q = '"' + name + " "
    for line in stdout.splitlines():
        if line.startswith(q):
            return json.loads(json.loads(line)[len(name) + 1:])
    raise core.MachineryFailure("CP1.tla did not print the %s table" % name)


def lines(stdout, name):
    q = '"' + name + " "
    out = []
    for line in stdout.splitlines():
        if line.startswith(q):
            out.append(json.loads(json.loads(line)[len(name) + 1:]))
    return out


def lib():
    from geometry_tools import complex_projective as cp
    from geometry_tools import projective
    return cp, projective


def err(e):
    return "%s: %s" % (type(e).__name__, str(e)[:200])


# ----------------------------------------------------------------------------------------
# residuals of a library value against the emitted exact value
# ----------------------------------------------------------------------------------------
def herm(obs):
    """arrays A, B, C and |H| for a list of emitted disks"""
    A = np.array([o["H"][0] for o in obs], dtype=float)
    B = np.array([G(o["H"][1]) for o in obs], dtype=complex)
    C = np.array([o["H"][2] for o in obs], dtype=float)
    nrm = np.sqrt(A * A + 2 * np.abs(B) ** 2 + C * C)
    return A, B, C, nrm


def qform(A, B, C, nrm, Z):
    """normalised value of the Hermitian form on library points Z (N, ..., 2)"""
    z0, z1 = Z[..., 0], Z[..., 1]
    ex = (slice(None),) + (None,) * (Z.ndim - 2)
    val = A[ex] * np.abs(z0) ** 2 + 2 * np.real(B[ex] * z0 * np.conj(z1)) + C[ex] * np.abs(z1) ** 2
    return val / (nrm[ex] * (np.abs(z0) ** 2 + np.abs(z1) ** 2))


def chordal(P, R):
    cr = np.abs(P[..., 0] * R[..., 1] - P[..., 1] * R[..., 0])
    return cr / (np.linalg.norm(P, axis=-1) * np.linalg.norm(R, axis=-1))


def check_state(D, obs, unit=False, stats=None):
    """Compare a library disk object (1-d batch, or a single 0-d object when `unit`) with the
    emitted disks `obs`. Returns a list of (index, clause, observed). `stats` collects the
    largest residual seen per observable (evidence of the margins of the tolerances)."""
    n = len(obs)
    bad = []
    A, B, C, nrm = herm(obs)

    def note(name, arr, worst=np.nanmax):
        if stats is not None:
            arr = np.asarray(arr, dtype=float)
            if arr.size and not np.all(np.isnan(arr)):
                v = float(worst(arr))
                stats[name] = worst([stats[name], v]) if name in stats else v

    def fail(i, clause, observed):
        bad.append((int(i), clause, observed))

    # -- projective level: three distinct boundary points on the circle, interior point inside
    try:
        bp = np.asarray(D.boundary_points().proj_data).reshape(n, 3, 2)
        ip = np.asarray(D.interior_point().proj_data).reshape(n, 2)
    except Exception as e:
        return [(0, "raised:boundary_points/interior_point", err(e))]
    with np.errstate(all="ignore"):
        qb = np.abs(qform(A, B, C, nrm, bp))
        qi = qform(A, B, C, nrm, ip)
        sep = np.stack([chordal(bp[:, 0], bp[:, 1]), chordal(bp[:, 0], bp[:, 2]), chordal(bp[:, 1], bp[:, 2])], axis=-1)
    note("on_circle", qb)
    note("separation_min", sep, np.nanmin)
    note("interior_max", qi)
    for i in np.nonzero(~(qb.max(axis=1) <= TOL_ON))[0]:
        fail(i, "boundary_points:on_circle", dict(points=str(bp[i].tolist()), residual=float(qb[i].max())))
    for i in np.nonzero(~(sep.min(axis=1) >= TOL_SEP))[0]:
        fail(i, "boundary_points:distinct", dict(points=str(bp[i].tolist())))
    for i in np.nonzero(~(qi < -TOL_IN))[0]:
        fail(i, "interior_point:inside", dict(point=str(ip[i].tolist()), value=float(qi[i])))

    # -- affine level, where the circle does not pass through infinity
    aff = np.array([o["affine"] for o in obs], dtype=bool)
    idx = np.nonzero(aff)[0]
    if len(idx) == 0:
        return bad
    if unit:
        Da = D
    else:
        try:
            Da = D[aff]
        except Exception as e:
            return bad + [(int(idx[0]), "raised:__getitem__", err(e))]
    sub = [obs[i] for i in idx]
    m = len(sub)
    cden = np.array([o["centre"][2] for o in sub], dtype=float)
    cexp = np.array([[o["centre"][0], o["centre"][1]] for o in sub], dtype=float) / cden[:, None]
    rexp = np.sqrt(np.array([o["r2"][0] / o["r2"][1] for o in sub], dtype=float))
    scale = 1 + np.linalg.norm(cexp, axis=1) + rexp
    bnd = np.array([o["bounded"] for o in sub], dtype=bool)
    cosd = np.array([o["cosnum"] / math.sqrt(o["cosden2"]) for o in sub])
    sind = np.array([math.sqrt((o["cosden2"] - o["cosnum"] ** 2) / o["cosden2"]) for o in sub])
    fdir = np.array([o["fsdir"] for o in sub], dtype=float)
    fdir = fdir / np.linalg.norm(fdir, axis=1)[:, None]

    def batch(name, fn, shape):
        """call fn on the sub-batch; if it raises, localise the failing elements one by one"""
        try:
            with np.errstate(all="ignore"):
                return np.asarray(fn(Da), dtype=float).reshape((m,) + shape)
        except Exception as e:
            if unit or m == 1:
                fail(idx[0], "raised:" + name, err(e))
                return None
            out = np.full((m,) + shape, np.nan)
            nfail = 0
            for k in range(m):
                try:
                    with np.errstate(all="ignore"):
                        out[k] = np.asarray(fn(Da[k:k + 1]), dtype=float).reshape(shape)
                except Exception as e1:
                    nfail += 1
                    if nfail <= 3:
                        fail(idx[k], "raised:" + name, err(e1))
            if nfail == 0:
                fail(idx[0], "raised:%s(batch only)" % name, err(e))
            return out

    ctr = batch("circle_parameters", lambda d: d.circle_parameters()[0], (2,))
    rad = batch("circle_parameters", lambda d: d.circle_parameters()[1], ())
    if ctr is not None and rad is not None:
        with np.errstate(all="ignore"):
            ec = np.linalg.norm(ctr - cexp, axis=1) / scale
            er = np.abs(rad - rexp) / scale
        note("centre", ec)
        note("radius", er)
        for k in np.nonzero(~(ec <= TOL_AFF) & ~np.isnan(ctr[:, 0]))[0]:
            fail(idx[k], "circle_parameters:centre", dict(got=ctr[k].tolist(), spec=cexp[k].tolist()))
        for k in np.nonzero(~(er <= TOL_AFF) & ~np.isnan(rad))[0]:
            fail(idx[k], "circle_parameters:radius", dict(got=float(rad[k]), spec=float(rexp[k])))
    ins = batch("center_inside", lambda d: d.center_inside(), ())
    if ins is not None:
        for k in np.nonzero((ins != bnd) & ~np.isnan(ins))[0]:
            fail(idx[k], "center_inside", dict(got=bool(ins[k]), spec_bounded=bool(bnd[k])))
    dia = batch("fs_diameter", lambda d: d.fs_diameter(), ())
    if dia is not None:
        with np.errstate(all="ignore"):
            ok = (np.abs(np.cos(dia) - cosd) <= TOL_SPH) & (np.abs(np.sin(dia) - sind) <= TOL_SPH) & (dia > 0) & (dia < np.pi)
            note("fs_diameter", np.maximum(np.abs(np.cos(dia) - cosd), np.abs(np.sin(dia) - sind)))
        for k in np.nonzero(~ok & ~np.isnan(dia))[0]:
            fail(idx[k], "fs_diameter", dict(got=float(dia[k]), spec_cos=float(cosd[k]), spec_sin=float(sind[k])))
    fsc = batch("fs_center", lambda d: d.fs_center().spherical_coords(), (3,))
    if fsc is not None:
        with np.errstate(all="ignore"):
            ef = np.linalg.norm(fsc - fdir, axis=1)
        note("fs_center", ef)
        for k in np.nonzero(~(ef <= TOL_SPH) & ~np.isnan(fsc[:, 0]))[0]:
            fail(idx[k], "fs_center", dict(got=fsc[k].tolist(), spec=fdir[k].tolist()))
    return bad


# ----------------------------------------------------------------------------------------
# (P) points
# ----------------------------------------------------------------------------------------
def proj_mismatch(P, Z):
    """normalised cross product of library points P and exact points Z, both (N, 2)"""
    with np.errstate(all="ignore"):
        return chordal(np.asarray(P, dtype=complex), Z)


def points(run):
    cp, projective = lib()
    c = constants(run.tier, "points")
    r = run.tlc(MODULE, core.cfg(constants=c, init="InitSph", next_="Stutter",
                                 invariants=["SphRoundTrip", "SphTwoCharts", "SphStereo", "ObsSph"]),
                name="CP1_sphere", workers=4, emit_prefix="OBS ")
    sph = r.emits
    r = run.tlc(MODULE, core.cfg(constants=c, init="InitHom", next_="Stutter",
                                 invariants=["HomOnSphere", "HomRoundTrip", "HomScale", "HomStereo", "HomAntipode", "ObsHom"]),
                name="CP1_homogeneous", workers=4, emit_prefix="OBS ")
    hom = r.emits
    if not sph or not hom:
        raise core.MachineryFailure("no point cases emitted")
    run.sample(dict(kind="sphere point", u=sph[len(sph) // 3]["u"], point=sph[len(sph) // 3]["pt"]))
    run.sample(dict(kind="homogeneous point", z=hom[len(hom) // 3]["z"], sphere=hom[len(hom) // 3]["sph"]))

    def viol(tag, o, clause, observed):
        run.violation("point:%s:%s" % (tag, json.dumps(o, sort_keys=True)), "points:" + clause,
                      dict(kind="point", case=o, observed=observed))

    # ---- spherical -> projective -> spherical, batch / units / 2-d shape
    S = np.array([[o["u"][0], o["u"][1], o["u"][2]] for o in sph], dtype=float) / np.array([o["u"][3] for o in sph], dtype=float)[:, None]
    Z = np.array([PT(o["pt"]) for o in sph])

    def sph_case(name, make, sel):
        try:
            P = make()
            pd = np.asarray(P.proj_data).reshape(-1, 2)
            sc = np.asarray(P.spherical_coords(), dtype=float).reshape(-1, 3)
        except Exception as e:
            viol(name, sph[sel[0]], "raised:spherical", err(e))
            return
        if len(pd) != len(sel):
            viol(name, sph[sel[0]], "shape", "%d points for %d inputs" % (len(pd), len(sel)))
            return
        mis = proj_mismatch(pd, Z[sel])
        with np.errstate(all="ignore"):
            dev = np.linalg.norm(sc - S[sel], axis=1)
        for i in np.nonzero(~(mis <= TOL_PT))[0][:5]:
            viol(name, sph[sel[i]], "spherical_to_projective", dict(got=str(pd[i].tolist()), spec=sph[sel[i]]["pt"]))
        for i in np.nonzero(~(dev <= TOL_PT))[0][:5]:
            viol(name, sph[sel[i]], "spherical_roundtrip", dict(got=sc[i].tolist(), spec=S[sel[i]].tolist()))
        run.evaluations += 2 * len(sel)

    everything = list(range(len(sph)))
    sph_case("batch", lambda: cp.CP1Point(S, coords="spherical"), everything)
    k = len(sph) // 2 * 2
    sph_case("2d", lambda: cp.CP1Point(S[:k].reshape(2, k // 2, 3), coords="spherical"), everything[:k])

    def setter():
        P = cp.CP1Point(np.tile(np.array([1.0, 0.0]), (len(sph), 1)))
        P.spherical_coords(S)
        return P
    sph_case("setter", setter, everything)
    for i, o in enumerate(sph):
        run.case(key=("sph", tuple(o["u"])), action="CP1Point(spherical)")
        try:
            P = cp.CP1Point(S[i], coords="spherical")
            pd = np.asarray(P.proj_data).reshape(1, 2)
            sc = np.asarray(P.spherical_coords(), dtype=float).reshape(3)
            if not proj_mismatch(pd, Z[i:i + 1])[0] <= TOL_PT:
                viol("unit", o, "spherical_to_projective", dict(got=str(pd[0].tolist()), spec=o["pt"]))
            elif not np.linalg.norm(sc - S[i]) <= TOL_PT:
                viol("unit", o, "spherical_roundtrip", dict(got=sc.tolist(), spec=S[i].tolist()))
        except Exception as e:
            viol("unit", o, "raised:spherical", err(e))

    # ---- projective -> spherical, affine coordinates, back
    Zh = np.array([PT(o["z"]) for o in hom])
    Sh = np.array([o["sph"][:3] for o in hom], dtype=float) / np.array([o["sph"][3] for o in hom], dtype=float)[:, None]
    inaff = np.array([o["aff"][2] != 0 for o in hom], dtype=bool)
    W = np.array([complex(o["aff"][0], o["aff"][1]) / o["aff"][2] if o["aff"][2] else 0j for o in hom])

    def hom_case(name, idxs, unit=False):
        o0 = hom[idxs[0]]
        z = Zh[idxs[0]] if unit else Zh[idxs]
        try:
            P = cp.CP1Point(z)
            sc = np.asarray(P.spherical_coords(), dtype=float).reshape(-1, 3)
        except Exception as e:
            viol(name, o0, "raised:spherical_coords", err(e))
            return
        if sc.shape != np.asarray(Sh[idxs]).reshape(-1, 3).shape:
            viol(name, o0, "projective_to_spherical.shape", dict(got=list(sc.shape), spec=list(np.asarray(Sh[idxs]).reshape(-1, 3).shape)))
            return
        dev = np.linalg.norm(sc - Sh[idxs], axis=1)
        for j in np.nonzero(~(dev <= TOL_PT))[0][:5]:
            viol(name, hom[idxs[j]], "projective_to_spherical", dict(got=sc[j].tolist(), spec=Sh[idxs[j]].tolist()))
        try:
            back = np.asarray(cp.CP1Point(sc[0] if unit else sc, coords="spherical").proj_data).reshape(-1, 2)
            mis = proj_mismatch(back, Zh[idxs])
            for j in np.nonzero(~(mis <= 1e-9))[0][:5]:
                viol(name, hom[idxs[j]], "projective_roundtrip", dict(got=str(back[j].tolist())))
        except Exception as e:
            viol(name, o0, "raised:spherical_to_projective", err(e))
        run.evaluations += 2 * len(idxs)
        # affine coordinates of the points with z0 # 0
        sel = [i for i in idxs if inaff[i]]
        if not sel:
            return
        za = Zh[sel[0]] if unit else Zh[sel]
        try:
            ra = np.asarray(cp.CP1Point(za).real_affine_coords(), dtype=float).reshape(-1, 2)
            want = np.stack([W[sel].real, W[sel].imag], axis=-1)
            for j in np.nonzero(~(np.linalg.norm(ra - want, axis=1) <= 1e-11 * (1 + np.abs(W[sel]))))[0][:5]:
                viol(name, hom[sel[j]], "real_affine_coords", dict(got=ra[j].tolist(), spec=want[j].tolist()))
        except Exception as e:
            if unit or len(sel) == 1:
                viol(name, hom[sel[0]], "raised:real_affine_coords", err(e))
            else:
                nf = 0
                for i in sel:
                    try:
                        cp.CP1Point(Zh[i]).real_affine_coords()
                    except Exception as e1:
                        nf += 1
                        if nf <= 3:
                            viol(name, hom[i], "raised:real_affine_coords", err(e1))
                if nf == 0:
                    viol(name, hom[sel[0]], "raised:real_affine_coords(batch only)", err(e))
        for coords, data in (("cx_affine", W[sel]), ("real_affine", np.stack([W[sel].real, W[sel].imag], axis=-1))):
            try:
                P = cp.CP1Point(data[0] if unit else data, coords=coords)
                mis = proj_mismatch(np.asarray(P.proj_data).reshape(-1, 2), Zh[sel])
                for j in np.nonzero(~(mis <= TOL_PT))[0][:5]:
                    viol(name, hom[sel[j]], "CP1Point(%s)" % coords, dict(got=str(np.asarray(P.proj_data).reshape(-1, 2)[j].tolist())))
            except Exception as e:
                viol(name, hom[sel[0]], "raised:CP1Point(%s)" % coords, err(e))
        run.evaluations += 3 * len(sel)

    hom_case("batch", list(range(len(hom))))
    rng = random.Random(run.seed)
    units = list(range(len(hom))) if run.tier != "quick" else rng.sample(range(len(hom)), min(len(hom), 250))
    # always keep representatives whose z0 is purely imaginary / zero / real
    units = sorted(set(units) | {i for i, o in enumerate(hom) if o["z"][0][0] == 0 and abs(o["z"][0][1]) + abs(o["z"][1][0]) + abs(o["z"][1][1]) <= 2})
    for i in units:
        run.case(key=("hom", json.dumps(hom[i]["z"])), action="CP1Point(projective)")
        hom_case("unit", [i], unit=True)
    run.actions["points.batch"] = 4
    run.traces += len(sph) + len(units)


# ----------------------------------------------------------------------------------------
# (D) disks: constructions and histories
# ----------------------------------------------------------------------------------------
GENS = None      # name -> complex row matrix
LTS = None       # (hkey, depth) -> {action: (hkey, depth)}
OBS = None       # hkey -> emitted disk
CASES = None     # list of build cases
MAXDEPTH = 0


def rho_of(cs):
    return 0.5 * math.acos(cs["r"][0] / cs["r"][1])


def build(cases, variant, unit=False):
    """construct the library disks of `cases` (all of one kind) in one call"""
    cp, _ = lib()
    kind = cases[0]["kind"]
    one = (lambda a: a[0]) if unit else (lambda a: a)
    pts = np.array([PT(cs["pt"]) for cs in cases])
    if kind == "aff":
        rad = np.array([cs["r"][0] / cs["r"][1] for cs in cases], dtype=float)
        ctr = np.array([complex(cs["p"][0], cs["p"][1]) for cs in cases])
        if variant == "cx_affine":
            return cp.CP1Disk(one(ctr), one(rad))
        if variant == "real_affine":
            return cp.CP1Disk(one(np.stack([ctr.real, ctr.imag], axis=-1)), one(rad), center_coords="real_affine")
        if variant == "projective":
            return cp.CP1Disk(one(pts * (2.0 - 1.0j)), one(rad), center_coords="projective")
    else:
        rad = np.array([rho_of(cs) for cs in cases], dtype=float)
        if variant == "spherical":
            S = np.array([cs["p"][:3] for cs in cases], dtype=float) / np.array([cs["p"][3] for cs in cases], dtype=float)[:, None]
            return cp.CP1Disk(one(S), one(rad), radius_metric="fs", center_coords="spherical")
        if variant == "projective":
            return cp.CP1Disk(one(pts * (1.0 + 2.0j)), one(rad), radius_metric="fs", center_coords="projective")
        if variant == "cx_affine":
            return cp.CP1Disk(one(pts[:, 1] / pts[:, 0]), one(rad), radius_metric="fs")
    raise core.MachineryFailure("unknown build variant %r" % (variant,))


VARIANTS = {"aff": ["cx_affine", "real_affine", "projective"], "fs": ["spherical", "projective", "cx_affine"]}


def applicable(cs, variant):
    return not (cs["kind"] == "fs" and variant == "cx_affine" and cs["pt"][0] == [0, 0])


def act_name(a):
    return a["a"] if a["a"] != "apply" else "apply:" + a["g"]


def do_action(D, name):
    _, projective = lib()
    if name == "complement":
        return D.complement()
    return projective.Transformation(GENS[name.split(":", 1)[1]]) @ D


def walk(D, cases, keys, word, depth, out, unit=False):
    """check the batch against the states `keys`, then follow every action of the LTS"""
    alive = [i for i, k in enumerate(keys) if k is not None]
    if not alive:
        return
    if unit:
        bad = check_state(D, [OBS[keys[0][0]]], unit=True, stats=out["stats"])
    else:
        try:
            Dl = D if len(alive) == len(keys) else D[np.array([k is not None for k in keys])]
        except Exception as e:
            out["viol"].append((cases[alive[0]], list(word), "raised:__getitem__", err(e), None))
            return
        bad = check_state(Dl, [OBS[keys[i][0]] for i in alive], stats=out["stats"])
    out["n"] += len(alive)
    out["nodes"] += 1
    for (j, clause, observed) in bad[:40]:
        i = alive[j]
        out["viol"].append((cases[i], list(word), clause, observed, OBS[keys[i][0]]))
    if out["sample"] is None and len(word) == 2 and word[0] != word[1]:
        i = alive[len(alive) // 2]
        out["sample"] = dict(kind="disk history", build=cases[i], actions=list(word), spec_disk=OBS[keys[i][0]])
    if depth >= MAXDEPTH:
        return
    acts = sorted({a for i in alive for a in LTS.get(keys[i], {})})
    before = np.array(D.proj_data)
    for a in acts:
        nk = [LTS.get(k, {}).get(a) if k is not None else None for k in keys]
        try:
            with np.errstate(all="ignore"):
                D2 = do_action(D, a)
        except Exception as e:
            i = next(i for i, k in enumerate(nk) if k is not None)
            out["viol"].append((cases[i], list(word) + [a], "raised:" + a.split(":")[0], err(e), None))
            continue
        if not np.array_equal(before, D.proj_data, equal_nan=True):
            # T @ d and d.complement() return new disks; the operand is still the disk it was
            out["viol"].append((cases[alive[0]], list(word) + [a], "operand_changed_by:" + a.split(":")[0],
                                "the disk the operation was applied to no longer holds the same data", None))
            return
        walk(D2, cases, nk, word + (a,), depth + 1, out, unit)


def new_out():
    return dict(n=0, nodes=0, viol=[], sample=None, stats={})


def subtree(args):
    """one worker: build the batch, perform the first action, walk the subtree below it"""
    kind, variant, first = args
    cases = [cs for cs in CASES if cs["kind"] == kind and applicable(cs, variant)]
    out = new_out()
    try:
        with np.errstate(all="ignore"):
            D = build(cases, variant)
    except Exception as e:
        out["viol"].append((cases[0], [], "raised:CP1Disk(%s,%s)" % (kind, variant), err(e), None))
        return out
    keys = [(hkey(cs["H"]), 0) for cs in cases]
    if first is None:
        # root only: the constructed disks themselves
        saved = MAXDEPTH
        globals()["MAXDEPTH"] = 0
        walk(D, cases, keys, (), 0, out)
        globals()["MAXDEPTH"] = saved
        return out
    nk = [LTS.get(k, {}).get(first) for k in keys]
    try:
        with np.errstate(all="ignore"):
            D2 = do_action(D, first)
    except Exception as e:
        i = next((i for i, k in enumerate(nk) if k is not None), 0)
        out["viol"].append((cases[i], [first], "raised:" + first.split(":")[0], err(e), None))
        return out
    walk(D2, cases, nk, (first,), 1, out)
    return out


def unit_histories(args):
    """single (0-d) disks: construct, then follow a given word, checking after every step"""
    jobs, = args
    out = new_out()
    for (ci, variant, word) in jobs:
        cs = CASES[ci]
        try:
            with np.errstate(all="ignore"):
                D = build([cs], variant, unit=True)
            if D.proj_data.shape != (4, 2):
                out["viol"].append((cs, [], "unit:shape", "proj_data shape %r" % (D.proj_data.shape,), None))
                continue
        except Exception as e:
            out["viol"].append((cs, [], "raised:CP1Disk(%s,%s)" % (cs["kind"], variant), err(e), None))
            continue
        key = (hkey(cs["H"]), 0)
        done = ()
        ok = True
        for step in [None] + list(word):
            if step is not None:
                key = LTS.get(key, {}).get(step)
                if key is None:
                    break
                try:
                    with np.errstate(all="ignore"):
                        D = do_action(D, step)
                except Exception as e:
                    out["viol"].append((cs, list(done) + [step], "raised:" + step.split(":")[0], err(e), None))
                    ok = False
                    break
                done = done + (step,)
            bad = check_state(D, [OBS[key[0]]], unit=True, stats=out["stats"])
            out["n"] += 1
            for (_, clause, observed) in bad[:5]:
                out["viol"].append((cs, list(done), "unit:" + clause, observed, OBS[key[0]]))
        out["nodes"] += 1 if ok else 0
    return out


def cp1_helpers(run):
    """utils.cp1: the two conversions between (Fubini-Study centre, radius) and (Euclidean centre,
    radius) of a circle, against the emitted disks of the fs build cases"""
    from geometry_tools.utils import cp1 as ucp1
    sel = [cs for cs in CASES if cs["kind"] == "fs" and cs["pt"][0] != [0, 0] and cs["pt"][1] != [0, 0]
           and OBS[hkey(cs["H"])]["affine"]]
    if not sel:
        return
    w = np.array([G(cs["pt"][1]) / G(cs["pt"][0]) for cs in sel])
    rho = np.array([rho_of(cs) for cs in sel])
    ob = [OBS[hkey(cs["H"])] for cs in sel]
    cexp = np.array([complex(o["centre"][0], o["centre"][1]) / o["centre"][2] for o in ob])
    rexp = np.sqrt(np.array([o["r2"][0] / o["r2"][1] for o in ob], dtype=float))
    bnd = np.array([o["bounded"] for o in ob], dtype=bool)
    scale = 1 + np.abs(cexp) + rexp

    def viol(cs, clause, observed):
        run.violation("cp1util:%s:%s:%s" % (clause, json.dumps(cs["p"]), json.dumps(cs["r"])), "utils.cp1:" + clause,
                      dict(kind="cp1util", build=cs, spec_disk=OBS[hkey(cs["H"])], observed=observed))
    for label, call in (("batch", lambda f, a, b: np.asarray(f(a, b))),
                        ("scalars", lambda f, a, b: np.array([f(x, y) for x, y in zip(a, b)]))):
        try:
            with np.errstate(all="ignore"):
                got = call(ucp1.fs_ctr_to_aff_ctr, w, rho)
            for k in np.nonzero(~(np.abs(got - cexp) <= TOL_AFF * scale))[0][:5]:
                viol(sel[k], "fs_ctr_to_aff_ctr(%s)" % label, dict(got=str(got[k]), spec=str(cexp[k])))
        except Exception as e:
            viol(sel[0], "raised:fs_ctr_to_aff_ctr(%s)" % label, err(e))
        try:
            with np.errstate(all="ignore"):
                got = call(ucp1.aff_ctr_to_fs_ctr, cexp[bnd], rexp[bnd])
            want = np.abs(w[bnd])
            for k in np.nonzero(~(np.abs(got - want) <= TOL_AFF * (1 + want)))[0][:5]:
                viol([c_ for c_, b_ in zip(sel, bnd) if b_][k], "aff_ctr_to_fs_ctr(%s)" % label,
                     dict(got=float(np.real(got[k])), spec=float(want[k])))
        except Exception as e:
            viol(sel[0], "raised:aff_ctr_to_fs_ctr(%s)" % label, err(e))
        run.evaluations += len(sel) + int(bnd.sum())
    run.actions["utils.cp1"] = 2 * (len(sel) + int(bnd.sum()))


def disks(run):
    global GENS, LTS, OBS, CASES, MAXDEPTH
    c = constants(run.tier, "disks")
    MAXDEPTH = c["MaxDepth"]
    r = run.tlc(MODULE, core.cfg(constants=c, init="InitDisk", next_="NextDisk", view="ViewDisk",
                                 action_constraints=["EmitDisk"],
                                 invariants=["WellFormed", "CompInvolution", "ActionPointwise", "ActionCompose",
                                             "Sides", "FSCap", "ObsDisk"]),
                name="CP1_disks", workers=min(8, core.NCPU), emit_prefix="EMIT ")
    GENS = {g: np.array([[G(x) for x in row] for row in m], dtype=complex) for g, m in table(r.stdout, "GENS").items()}
    CASES = sorted(table(r.stdout, "CASES"), key=lambda cs: json.dumps(cs, sort_keys=True))
    OBS = {hkey(o["H"]): o for o in lines(r.stdout, "OBS")}
    LTS = {}
    for e in r.emits:
        fk = (hkey(e["from"][0]), e["from"][1])
        LTS.setdefault(fk, {})[act_name(e["act"])] = (hkey(e["to"][0]), e["to"][1])
    if not LTS or not CASES:
        raise core.MachineryFailure("empty disk LTS")
    for cs in CASES:
        if hkey(cs["H"]) not in OBS:
            raise core.MachineryFailure("build case without an emitted state: %r" % (cs,))
    actions = sorted({a for d in LTS.values() for a in d})
    run.extra["disk_actions"] = actions
    run.extra["build_cases"] = len(CASES)
    run.sample(dict(kind="disk build", case=CASES[len(CASES) // 2], spec_disk=OBS[hkey(CASES[len(CASES) // 2]["H"])]))

    worst = run.extra.setdefault("largest_residuals", {})

    def record(out, label):
        for k, v in out["stats"].items():
            if k not in worst:
                worst[k] = v
            else:
                worst[k] = min(worst[k], v) if k.endswith("_min") else max(worst[k], v)
        run.evaluations += out["n"]
        run.nontrivial_count += out["n"]
        run.traces += out["n"]
        run.actions[label] = run.actions.get(label, 0) + out["n"]
        if out["sample"]:
            run.sample(out["sample"])
        for (cs, word, clause, observed, spec) in out["viol"]:
            key = "disk:%s:%s:%s:%s" % (cs["kind"], json.dumps(cs["p"]), json.dumps(cs["r"]), "/".join(word))
            run.violation(key, "disks:" + clause,
                          dict(kind="disk", build=cs, actions=word, spec_disk=spec, observed=observed))

    # batch histories: main variant of each kind through the whole LTS; the other coordinate
    # systems of the centre are checked as constructed
    jobs = []
    for kind in ("aff", "fs"):
        for vi, variant in enumerate(VARIANTS[kind]):
            jobs.append((kind, variant, None))
            if vi == 0:
                jobs += [(kind, variant, a) for a in actions]
    with mp.get_context("fork").Pool(min(8, core.NCPU)) as pool:
        outs = pool.map(subtree, jobs, chunksize=1)
    for job, out in zip(jobs, outs):
        record(out, "history(batch)" if job[2] else "build(batch,%s,%s)" % (job[0], job[1]))
    # unit objects
    rng = random.Random(run.seed)
    ujobs = []
    nwords = 2 if run.tier == "quick" else 4
    for ci, cs in enumerate(CASES):
        for variant in VARIANTS[cs["kind"]]:
            if not applicable(cs, variant):
                continue
            words = [()]
            if variant == VARIANTS[cs["kind"]][0]:
                words = [tuple(rng.choice(actions) for _ in range(MAXDEPTH)) for _ in range(nwords)] + [("complement", "complement")]
            for w in words:
                ujobs.append((ci, variant, w))
    if run.tier == "quick" and len(ujobs) > 1500:
        ujobs = rng.sample(ujobs, 1500)
    n = min(8, core.NCPU)
    with mp.get_context("fork").Pool(n) as pool:
        outs = pool.map(unit_histories, [(ujobs[i::n],) for i in range(n)])
    for out in outs:
        record(out, "history(unit)")
    cp1_helpers(run)


# ----------------------------------------------------------------------------------------
# (C) pairs: contains / intersects
# ----------------------------------------------------------------------------------------
def pairs(run):
    cp, projective = lib()
    c = constants(run.tier, "pairs")
    r = run.tlc(MODULE, core.cfg(constants=c, init="InitPair", next_="NextPair",
                                 invariants=["PairWellFormed", "ContainsSound", "DisjointSound", "ContainsComplete",
                                             "IntersectsComplete", "PairDuality", "PairEuclid", "PairInvariant", "ObsPair"]),
                name="CP1_pairs", workers=min(8, core.NCPU), emit_prefix="OBS ")
    U = table(r.stdout, "DISKS")
    gens = {g: np.array([[G(x) for x in row] for row in m], dtype=complex) for g, m in table(r.stdout, "GENS").items()}
    N = len(U)
    obs = r.emits
    if not obs:
        raise core.MachineryFailure("no pairs emitted")
    I = np.array([o["i"] - 1 for o in obs])
    J = np.array([o["j"] - 1 for o in obs])
    WC = np.array([o["contains"] for o in obs], dtype=bool)
    WI = np.array([o["intersects"] for o in obs], dtype=bool)
    general = np.zeros((N, N), dtype=bool)
    general[I, J] = True
    TC = np.zeros((N, N), dtype=bool)
    TI = np.zeros((N, N), dtype=bool)
    TC[I, J] = WC
    TI[I, J] = WI
    bounded = np.array([d["bounded"] for d in U], dtype=bool)
    comb = np.where(bounded[I], 0, 2) + np.where(bounded[J], 0, 1)    # 0 bb, 1 bu, 2 ub, 3 uu
    combname = ["bounded/bounded", "bounded/unbounded", "unbounded/bounded", "unbounded/unbounded"]
    run.extra["pair_universe"] = dict(disks=N, pairs=len(obs),
                                      per_combination={combname[k]: int((comb == k).sum()) for k in range(4)},
                                      contains_true=int(WC.sum()), intersects_true=int(WI.sum()))
    for k in range(4):
        # every bounded/unbounded combination must occur with both verdicts of intersects, and the
        # three combinations in which containment is possible with both verdicts of contains
        if len(set(WI[comb == k])) < 2 or (k != 1 and len(set(WC[comb == k])) < 2):
            if not (k == 3 and len(set(WI[comb == k])) == 1):      # two disks containing infinity always meet
                raise core.MachineryFailure("pair universe is vacuous for combination %s" % combname[k])
    data = np.array([[PT(d["b"][0]), PT(d["b"][1]), PT(d["b"][2]), PT(d["p"])] for d in U], dtype=complex)

    def describe(k):
        d = U[k]
        return dict(H=d["H"], boundary=d["b"], interior=d["p"], tag=d["tag"], bounded=d["bounded"])

    s0 = int(np.nonzero(WC & (comb == 2))[0][0]) if (WC & (comb == 2)).any() else 0
    run.sample(dict(kind="disk pair", d1=describe(int(I[s0])), d2=describe(int(J[s0])),
                    contains=bool(WC[s0]), intersects=bool(WI[s0])))

    def viol(route, mode, method, i, j, got, want, extra=None):
        key = "pair:%s:%s:%s:%s|%s" % (route, mode, method, json.dumps(U[i]["H"]), json.dumps(U[j]["H"]))
        if U[i]["tag"] != "bounded" or U[j]["tag"] != "bounded":
            key += ":%s,%s" % (U[i]["tag"], U[j]["tag"])
        d = dict(kind="pair", route=route, mode=mode, method=method, d1=describe(i), d2=describe(j), got=got, spec=want)
        if extra:
            d.update(extra)
        run.violation(key, "pairs:%s:%s:%s" % (method, mode, combname[(0 if bounded[i] else 2) + (0 if bounded[j] else 1)]), d)

    # ---- library objects for the universe, two routes
    routes = {}
    try:
        routes["data"] = cp.CP1Disk(data)
    except Exception as e:
        run.violation("pair:ctor:data", "pairs:raised:CP1Disk(data)", dict(error=err(e)))
        return
    # through the constructors where the emitted disk is CP1Disk(c, r), its complement, or a
    # Moebius image of those; the other disks keep their data
    try:
        rows = []
        for k, d in enumerate(U):
            c0 = complex(d["c"][0], d["c"][1])
            r0 = d["r"][0] / d["r"][1]
            if d["pre"] == "bounded":
                x = cp.CP1Disk(c0, r0)
            elif d["pre"] == "unbounded_inf":
                x = cp.CP1Disk(c0, r0).complement()
            else:
                rows.append(data[k])
                continue
            if d["tag"] == "image":
                x = projective.Transformation(gens[d["g"]]) @ x
            rows.append(np.asarray(x.proj_data))
        routes["ctor"] = cp.CP1Disk(np.array(rows))
    except Exception as e:
        run.violation("pair:ctor:route", "pairs:raised:constructors", dict(kind="pair-ctor", error=err(e)))

    rng = random.Random(run.seed)
    for route, D in routes.items():
        if tuple(D.shape) != (N,):
            run.violation("pair:shape:" + route, "pairs:shape", dict(shape=list(D.shape)))
            continue
        for method, want_t, want_v in (("contains", TC, WC), ("intersects", TI, WI)):
            fn = lambda a, b, **kw: np.asarray(getattr(a, method)(b, **kw))
            # -- pairwise: every disk against every disk in one call
            run.case(key=("pairwise", route, method), action="pairwise")
            try:
                with np.errstate(all="ignore"):
                    got = fn(D, D, broadcast="pairwise")
                if got.shape != (N, N):
                    viol(route, "pairwise", method, 0, 0, "shape %r" % (got.shape,), "(%d, %d)" % (N, N))
                else:
                    wrong = np.argwhere((got != want_t) & general)
                    for (i, j) in wrong[:5]:
                        viol(route, "pairwise", method, int(i), int(j), bool(got[i, j]), bool(want_t[i, j]), dict(n_wrong=len(wrong)))
                    run.evaluations += int(general.sum())
            except Exception as e:
                viol(route, "pairwise", method, 0, 0, "raised " + err(e), None)
            # pairwise on a rectangular block (different numbers of disks on the two sides)
            a = sorted(rng.sample(range(N), min(N, 7)))
            b = sorted(rng.sample(range(N), min(N, 12)))
            try:
                with np.errstate(all="ignore"):
                    got = fn(D[a], D[b], broadcast="pairwise")
                if got.shape != (len(a), len(b)):
                    viol(route, "pairwise-block", method, a[0], b[0], "shape %r" % (got.shape,), None)
                else:
                    for x, i in enumerate(a):
                        for y, j in enumerate(b):
                            if general[i, j] and got[x, y] != want_t[i, j]:
                                viol(route, "pairwise-block", method, i, j, bool(got[x, y]), bool(want_t[i, j]), dict(rows=a, cols=b))
            except Exception as e:
                viol(route, "pairwise-block", method, a[0], b[0], "raised " + err(e), None, dict(rows=a, cols=b))

            # -- elementwise batches
            def elementwise(sel, label, shape=None):
                if len(sel) == 0:
                    return
                i0, j0 = int(I[sel[0]]), int(J[sel[0]])
                try:
                    A_, B_ = D[I[sel]], D[J[sel]]
                    if shape is not None:
                        A_, B_ = A_.reshape(shape), B_.reshape(shape)
                    with np.errstate(all="ignore"):
                        got = fn(A_, B_)
                    if got.shape != (shape if shape is not None else (len(sel),)):
                        viol(route, label, method, i0, j0, "shape %r" % (got.shape,), None)
                        return
                    got = got.reshape(-1)
                    wrong = np.nonzero(got != want_v[sel])[0]
                    for w in wrong[:3]:
                        viol(route, label, method, int(I[sel[w]]), int(J[sel[w]]), bool(got[w]), bool(want_v[sel[w]]),
                             dict(batch=len(sel), n_wrong=len(wrong)))
                    run.evaluations += len(sel)
                except Exception as e:
                    viol(route, label, method, i0, j0, "raised " + err(e), None,
                         dict(batch=len(sel), first_pairs=[[int(I[s]), int(J[s])] for s in sel[:6]]))

            allsel = np.arange(len(obs))
            elementwise(allsel, "elementwise(all)")
            for k in range(4):
                elementwise(allsel[comb == k], "elementwise(%s only)" % combname[k])
            for t in range(6 if run.tier == "quick" else 30):
                size = rng.choice([2, 3, 5, 8, 13])
                elementwise(np.array(sorted(rng.sample(range(len(obs)), size))), "elementwise(random batch)")
            m = (len(obs) // 6) * 6
            elementwise(allsel[:m], "elementwise(2-d)", shape=(6, m // 6))
            # -- single pairs: arrays of length one and 0-d objects
            per = 25 if run.tier == "quick" else 120
            singles = []
            for k in range(4):
                pool = list(allsel[comb == k])
                singles += rng.sample(pool, min(per, len(pool)))
            for s in singles:
                i, j = int(I[s]), int(J[s])
                run.case(key=("single", route, method, i, j), action="single pair")
                elementwise(np.array([s]), "elementwise(one pair)")
                try:
                    with np.errstate(all="ignore"):
                        got = fn(D[i], D[j])
                    if got.shape != () or bool(got) != bool(want_v[s]):
                        viol(route, "unit objects", method, i, j, str(got), bool(want_v[s]))
                except Exception as e:
                    viol(route, "unit objects", method, i, j, "raised " + err(e), None)
    run.traces += len(obs)
    run.nontrivial_count += len(obs)
    run.actions["pairs"] = len(obs)


# ----------------------------------------------------------------------------------------
def replay_case(run, d):
    """re-execute one recorded failing behaviour"""
    if d.get("kind") == "disk" and d.get("spec_disk"):
        cs = d["build"]
        variant = VARIANTS[cs["kind"]][0]
        print("replay: build %r, actions %r" % (cs, d["actions"]))
        try:
            D = build([cs], variant, unit=True)
            for a in d["actions"]:
                D = do_action(D, a)
            bad = check_state(D, [d["spec_disk"]], unit=True)
        except Exception as e:
            bad = [(0, "raised", err(e))]
        for (_, clause, observed) in bad:
            run.violation("replay", "disks:" + clause, dict(observed=observed, case=d))
        return True
    if d.get("kind") == "pair":
        cp, _ = lib()
        print("replay: %s(%s) on\n  d1 = %r\n  d2 = %r" % (d["method"], d["mode"], d["d1"], d["d2"]))
        mk = lambda x: cp.CP1Disk(np.array([[PT(x["boundary"][0]), PT(x["boundary"][1]), PT(x["boundary"][2]), PT(x["interior"])]]))
        try:
            got = bool(np.asarray(getattr(mk(d["d1"]), d["method"])(mk(d["d2"]))).reshape(-1)[0])
        except Exception as e:
            got = "raised " + err(e)
        if got != d["spec"]:
            run.violation("replay", "pairs:" + d["method"], dict(got=got, case=d))
        return True
    return False


def run(run, replay=None):
    run.rule = ("a case is one emitted exact value compared with the library: a point conversion, a constructed disk, "
                "a disk after one more step of a history (T @ disk or complement), or a pair of disks under "
                "contains/intersects; distinct_nontrivial counts (build case, action word) nodes of the replayed "
                "histories plus distinct pairs and points")
    run.assumptions += [
        "inputs are Gaussian-rational: centres in a box of Gaussian integers, radii k/2, rational points of S^2 "
        "(x,y,h)/n, cos(2 rho) = k/65, Moebius maps from a fixed set of 7 Gaussian-integer matrices and their products",
        "general position for contains/intersects: circles not tangent (exact discriminant # 0) and not through infinity",
        "circle_parameters, center_inside, fs_center, fs_diameter are compared only when the circle avoids infinity "
        "(the library reports Euclidean centre and radius); boundary/interior points are compared always",
        "tolerances: 1e-9 on normalised Hermitian residuals, 1e-8 relative on centre/radius and on unit vectors",
    ]
    if replay:
        global GENS
        with open(replay) as f:
            rec = json.load(f)
        first = rec.get("first", {}).get("detail", {})
        # the generators' matrices are needed to re-execute a history
        r = run.tlc(MODULE, core.cfg(constants=constants("quick", "points"), init="InitSph", next_="Stutter",
                                     invariants=["SphRoundTrip"]), name="CP1_tables", workers=1, emit_prefix="OBS ")
        GENS = {g: np.array([[G(x) for x in row] for row in m], dtype=complex) for g, m in table(r.stdout, "GENS").items()}
        if replay_case(run, first):
            return
        print("replay: behaviour is not self-contained, running the whole check")
    points(run)
    disks(run)
    pairs(run)
