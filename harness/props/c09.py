"""C09 — an automaton's three views stay coherent however it was built or edited.

spec/fsa/FSA.tla is explored exhaustively by TLC (invariants Deterministic, NoDangling,
ViewsAgree, RecurrentIsGreatest) and emits its labelled transition system.  The harness
explores the *product* of that LTS with the real FSA object: every history of spec actions
up to depth k from every constructor route is executed on the implementation (deduplicated
on the concrete representation: dictionary kinds, insertion order, list aliasing), and
after every step every redundant view and every read-only query must equal the spec state.
Then (code -> spec) long random histories and kbmag records are validated (see c09 parts
`trace` and `gap`), and spec/fsa/FSAPair.tla (two automata and the input the first one was
built from: the automata a caller holds are independent of each other, of the caller's
dictionary, and a route taken again yields what the route says) is replayed (part `pair`).
"""
import copy
import json
import multiprocessing as mp
import os
import random

from .. import core
from .. import fsa_common as fc

LTS = None       # state key -> list of (act, to_key)
BUILDS = None
OPS = None       # (vs, E) -> prepared FSAOps table; when set, the C10 battery runs on every new concrete state
OPS_LABELS = None


def act_str(a):
    d = {k: v for k, v in a.items() if k != "a"}
    return a["a"] + "(" + ",".join("%s=%s" % (k, json.dumps(d[k], sort_keys=True, separators=(",", ":")))
                                   for k in sorted(d)) + ")"


def step(obj, act, to_key):
    """apply one spec action and compare; returns (obj, None) or (None, (clause, detail))"""
    try:
        obj = fc.apply_action(obj, act)
    except Exception as e:  # the spec says the action is enabled and succeeds
        return None, ("raised:" + act["a"], "%s: %s" % (type(e).__name__, e))
    vs, E, _ = to_key
    try:
        bad = fc.project_check(obj, vs, E)
        if bad is None and act["a"] in ("query", "copy") or bad is None and act["a"].startswith("build"):
            bad = fc.query_battery(obj, vs, E)
            if bad is None:
                bad = fc.project_check(obj, vs, E)
                if bad is not None:
                    bad = ("after_queries:" + bad[0], bad[1])
    except Exception as e:
        return None, ("raised:projection", "%s: %s" % (type(e).__name__, e))
    if bad:
        return None, bad
    return obj, None


def ops_check(obj, key):
    if OPS is None:
        return None
    from .. import fsa_ops
    t = OPS.get((key[0], key[1]))
    if t is None:
        raise core.MachineryFailure("no FSAOps table for state %r" % (key,))
    try:
        return fsa_ops.ops_battery(obj, t, OPS_LABELS)
    except Exception as e:
        import traceback
        return ("raised:ops", "%s: %s @ %s" % (type(e).__name__, e, traceback.format_exc().splitlines()[-3].strip()))


def explore_chunk(args):
    chunk, depth, max_viol = args
    visited = set()
    n_steps = 0
    n_hist = 0
    viol = []
    per_action = {}
    samples = []
    for (bi, act0, to0) in chunk:
        # the labels of this constructor's histories are rendered through one of the alphabets (letters, multi-character
        # names, integers); histories are named by the specification's actions plus the alphabet
        al = fc.ALPHABETS[bi % len(fc.ALPHABETS)] if OPS is None else None
        tag = fc.alphabet_tag(al)
        obj, bad = step(None, fc.tr_act(al, act0), fc.tr_key(al, to0))
        n_steps += 1
        per_action[act0["a"]] = per_action.get(act0["a"], 0) + 1
        if bad:
            viol.append(([tag + act_str(act0)], bad))
            continue
        fp0 = (to0, tag, fc.fingerprint(obj))
        if fp0 not in visited:
            bad = ops_check(obj, to0)
            if bad:
                viol.append(([act_str(act0), "ops"], bad))
                continue
        frontier = [(to0, obj, (tag + act_str(act0),))]
        visited.add(fp0)
        for d in range(depth):
            nxt = []
            for (sk, o, hist) in frontier:
                for (act, tk) in LTS[sk]:
                    o2 = fc.clone(o) if act["a"] != "copy" else o
                    o2, bad = step(o2, fc.tr_act(al, act), fc.tr_key(al, tk))
                    n_steps += 1
                    per_action[act["a"]] = per_action.get(act["a"], 0) + 1
                    h2 = hist + (act_str(act),)
                    if bad:
                        if len(viol) < max_viol:
                            viol.append((list(h2), bad))
                        continue
                    n_hist += 1
                    fp = (tk, tag, fc.fingerprint(o2))
                    if fp in visited:
                        continue
                    visited.add(fp)
                    bad = ops_check(o2, tk)
                    if bad:
                        if len(viol) < max_viol:
                            viol.append((list(h2) + ["ops"], bad))
                        continue
                    if len(samples) < 2 and d == depth - 1:
                        samples.append(list(h2))
                    nxt.append((tk, o2, h2))
            frontier = nxt
    return dict(steps=n_steps, hist=n_hist, concrete=len(visited), viol=viol,
                per_action=per_action, samples=samples)


def run_lts(run, verts, labels, max_build, workers):
    c = core.cfg(constants=dict(Verts=set(verts), Labels=set(labels), MaxBuildEdges=max_build),
                 invariants=["TypeOK", "Deterministic", "NoDangling", "ViewsAgree", "RecurrentIsGreatest"],
                 view="View", action_constraints=["Emit"])
    r = run.tlc("fsa/FSA.tla", c, name="FSA_%dv%dl" % (len(verts), len(labels)), workers=workers,
                coverage=False)
    lts = {}
    builds = []
    for e in r.emits:
        fk, tk = fc.key_of(e["from"]), fc.key_of(e["to"])
        if not fk[2]:
            builds.append((e["act"], tk))
        else:
            lts.setdefault(fk, []).append((e["act"], tk))
        lts.setdefault(tk, [])
    return r, lts, builds


def product(run, verts, labels, max_build, depth, build_sample=None, tag="", ops=None):
    global LTS, BUILDS, OPS, OPS_LABELS
    OPS, OPS_LABELS = ops, list(labels)
    r, lts, builds = run_lts(run, verts, labels, max_build, workers=min(8, core.NCPU))
    LTS = lts
    rng = random.Random(run.seed)
    builds.sort(key=lambda b: act_str(b[0]))
    if build_sample is not None and len(builds) > build_sample:
        builds = rng.sample(builds, build_sample)
    n = min(core.NCPU, max(1, len(builds)))
    builds = [(i, a, k) for i, (a, k) in enumerate(builds)]
    chunks = [builds[i::n] for i in range(n)]
    with mp.get_context("fork").Pool(n) as pool:
        outs = pool.map(explore_chunk, [(c, depth, 20) for c in chunks])
    tot = dict(steps=0, hist=0, concrete=0)
    for o in outs:
        for k in tot:
            tot[k] += o[k]
        for a, nact in o["per_action"].items():
            run.actions[a] = run.actions.get(a, 0) + nact
        for h, bad in o["viol"]:
            run.violation(key=";".join(h), clause=bad[0], detail=dict(history=h, observed=bad[1]))
        for s in o["samples"]:
            run.sample(dict(kind="history" + tag, actions=s))
    run.evaluations += tot["steps"]
    run.nontrivial_count += tot["concrete"]
    run.traces += tot["hist"]
    run.extra.setdefault("product", []).append(dict(
        verts=len(verts), labels=len(labels), depth_after_build=depth, builds=len(builds),
        abstract_states=len(lts), steps=tot["steps"], histories_ok=tot["hist"],
        concrete_states=tot["concrete"]))
    return lts


def run(run, replay=None):
    quick = run.tier == "quick"
    run.rule = ("every history of FSA.tla actions of length <= k after each constructor route is executed on the "
                "real FSA; a case is one executed step; distinct_nontrivial counts distinct (abstract state, "
                "concrete representation fingerprint) pairs reached")
    run.assumptions += [
        "universe: 3 vertices x 2 labels (and 2 x 3 in thorough); single start vertex",
        "two-automata histories (FSAPair.tla): 2 vertices x 2 labels for the dictionary routes, letters a A b B for the "
        "free-group constructor (every generating sequence without a letter and its inverse), f2.wa and two kbmag "
        "records for the named routes; one edit per history in the quick tier",
        "inserting a second head for an existing (tail,label) and out-dict constructors with heads "
        "that are not keys are outside the property's domain",
        "harness projection/fingerprint code is trusted (exercised by selftest mutants)",
    ]
    if quick:
        product(run, [0, 1, 2], ["a", "b"], max_build=2, depth=2, build_sample=None)
    else:
        product(run, [0, 1, 2], ["a", "b"], max_build=3, depth=4)
        product(run, [0, 1], ["a", "b", "c"], max_build=3, depth=4, tag="_3labels")
    from . import c09_trace, c09_gap, c09_suite, c09_pair
    import time
    walls = {"product": round(time.time() - run.t0, 1)}
    for name, part in (("trace", c09_trace), ("suite", c09_suite), ("gap", c09_gap), ("pair", c09_pair)):
        t = time.time()
        part.run(run)
        walls[name] = round(time.time() - t, 1)
    run.extra["part_wall_s"] = walls
