"""C16 — affine charts, affine maps and subspace operations in projective space are exact.

spec/proj/Affine.tla     points of P^N as Gaussian-integer vectors; charts, affine coordinates as
                         Gaussian rationals; the machine FromAffine / Rescale / Lin(L, i) /
                         Trans(t, i); TLC checks that rescaling moves nothing, that the two block
                         embeddings act in their chart as the linear map / the translation and
                         compose, the chart round trip; table of hyperplane normals.
spec/proj/Subspaces.tla  families of pairwise transverse subspaces moved by unimodular changes of
                         frame and changes of spanning sets; the intersection by fraction-free
                         elimination; TLC checks dimension formula, containment in both,
                         independence, transversality, agreement with the transported intersection.
spec/proj/ProjEigen.tla  T = F D F^-1 with F walking through SL(M,Z): exact eigenvectors and
                         diagonalising frames; TLC checks T f_k = d_k f_k, F^-1 T F = D.

Conformance (spec -> code).  The Affine LTS is walked with library objects: initial points are
built by Point(a, chart_index=i) (1 in the chart slot), Rescale rebuilds the point from the
rescaled homogeneous coordinates, Lin / Trans apply affine_linear_map / affine_translation with
`@`; after every step and for EVERY chart the library must report the spec's verdict
(in_affine_chart; affine_coords raises GeometryError exactly when the chart coordinate is zero)
and the spec's affine coordinates, for unit objects, composite objects, row and column layouts and
the round trip through Point(.., chart_index=k), stacks of column matrices of several batch shapes; real and complex mode (complex mode reaches
purely imaginary chart coordinates).  hyperplane_coordinate_transform (generic and axis-aligned normals of both signs, rational
multiples): orthogonal, and the chart coordinate of the image has the exact cos^2 (zero exactly on
the hyperplane).  Every state of
Subspaces.tla is replayed through Subspace.intersect (single pairs, elementwise composites,
pairwise with 1-d and 2-d composite shapes, ndarray argument): dimension, independence, in both,
same span as the exact intersection.  Every state of ProjEigen.tla through
Transformation.eigenvector (each eigenvalue, None, composite arrays, both layouts: parallel to the
exact eigenvector and mapped to eigenvalue times itself) and diagonalize (M^-1 T M diagonal with
the exact spectrum); composites mixing members with different spectra: every reported vector is mapped to the requested
eigenvalue times itself (the zero point for members lacking it).
"""
import json
import random
import warnings
from concurrent.futures import ThreadPoolExecutor

import numpy as np

from .. import core

TOL = 1e-9
AFF_INVS = ["NonZero", "RescaleInvariant", "LinActs", "TransActs", "EmitObs"]
SUB_INVS = ["ElimExact", "SpanningSets", "Transverse", "MeetLaws"]
EIG_INVS = ["InverseKept", "EigenEquation", "Diagonalised", "TraceLaw", "AbsentHasNoEigenvector", "EmitObs"]
SYM_INVS = ["Conformal", "SelfAdjoint", "EigenEquation", "Kinds", "EmitObs"]


def proj():
    from geometry_tools import projective
    return projective


def gerr():
    from geometry_tools.base import GeometryError
    return GeometryError


def G(z):
    return complex(z[0], z[1])


def gvec(v, cplx):
    a = np.array([G(z) for z in v])
    return a if cplx else a.real.copy()


def gmat(m, cplx):
    a = np.array([[G(z) for z in row] for row in m])
    return a if cplx else a.real.copy()


def skey(x):
    return json.dumps(x, separators=(",", ":"))


def err(ex):
    return "%s: %s" % (type(ex).__name__, ex)


def lst(a):
    a = np.asarray(a)
    if np.iscomplexobj(a):
        return [str(complex(np.round(z, 9))) for z in a.ravel()]
    return np.round(a, 9).tolist()


def over(x, bound):
    """x > bound, and True for NaN (a non-finite residual is never within tolerance)"""
    with np.errstate(all="ignore"):
        return ~(np.asarray(x) <= bound)


def parallel(u, v, tol=TOL):
    """rows of u and v projectively equal (complex scalars allowed)"""
    u = np.atleast_2d(np.asarray(u, complex))
    v = np.atleast_2d(np.asarray(v, complex))
    if u.shape != v.shape:
        return np.zeros(len(v), bool)
    nu = np.linalg.norm(u, axis=-1)
    nv = np.linalg.norm(v, axis=-1)
    ok = (nu > 0) & (nv > 0) & np.isfinite(nu)
    ip = np.abs((u.conj() * v).sum(-1))
    with np.errstate(all="ignore"):
        # |<u,v>| = |u||v| iff parallel; use the sine of the angle
        s2 = 1.0 - (ip / (nu * nv)) ** 2
    return ok & (np.abs(s2) <= tol)


# ========================================================================================
# Affine.tla
# ========================================================================================
def parse_affine(r):
    obs, maps, hyp = {}, None, None
    for line in r.stdout.splitlines():
        if line.startswith('"OBS '):
            o = json.loads(json.loads(line)[4:])
            k = skey(o["x"])
            if k not in obs or o["len"] < obs[k]["len"]:
                obs[k] = o
        elif line.startswith('"MAPS '):
            maps = json.loads(json.loads(line)[5:])
        elif line.startswith('"HYP '):
            hyp = json.loads(json.loads(line)[4:])
    if not obs or maps is None:
        raise core.MachineryFailure("Affine: no OBS/MAPS output")
    return obs, maps, hyp


def check_extreme(run, n, cplx, rows, obss, tag, extreme):
    """the library's representatives multiplied by the spec's extreme scalars: same verdicts, same coordinates"""
    if len(rows) > 300:                      # large batches: an evenly spaced sample of the states
        step = len(rows) // 300 + 1
        rows, obss = rows[::step], obss[::step]
    for sc in extreme:
        c = G(sc["m"]) * 10.0 ** sc["e"]
        if not cplx:
            c = c.real
        check_charts(run, n, cplx, [np.asarray(r_) * c for r_ in rows], obss, "%s, rescaled by %s" % (tag, c), light=True)


def check_charts(run, n, cplx, rows, obss, tag, light=False):
    """all chart observations of a batch of library points (rows of homogeneous coordinates)"""
    P = proj()
    GE = gerr()
    rows = np.array(rows)
    cnt = len(rows)
    mode = "complex" if cplx else "real"

    def viol(i, clause, detail):
        run.violation("affine:%s:n=%d:x=%s:%s" % (mode, n, skey(obss[i]["x"]), clause.split(":")[0]), clause,
                      dict(mode=mode, n=n, reached_by=tag, spec_x=obss[i]["x"], library_coordinates=lst(rows[i]), **detail))

    try:
        pts = P.Point(rows.copy())
    except Exception as ex:
        viol(0, "raised:Point", dict(error=err(ex)))
        return
    for k in range(n + 1):
        inside = np.array([o["charts"][k]["inside"] for o in obss])
        # membership
        try:
            got = np.asarray(pts.in_affine_chart(k))
            if got.shape != (cnt,):
                viol(0, "in_affine_chart.shape", dict(chart=k, got=list(got.shape)))
            else:
                for i in np.nonzero(got != inside)[0][:3]:
                    viol(int(i), "in_affine_chart", dict(chart=k, library=bool(got[i]), spec=bool(inside[i])))
        except Exception as ex:
            viol(0, "raised:in_affine_chart", dict(chart=k, error=err(ex)))
        run.evaluations += cnt
        idx = np.nonzero(inside)[0]
        if len(idx):
            want = np.array([[G(q[0]) / G(q[1]) for q in obss[i]["charts"][k]["aff"]] for i in idx])
            if not cplx:
                want = want.real
            scale = np.maximum(1.0, np.abs(want).max(-1, initial=0))
            got = None
            try:
                with warnings.catch_warnings():
                    warnings.simplefilter("ignore")
                    got = np.asarray(P.Point(rows[idx].copy()).affine_coords(chart_index=k))
            except Exception:
                pass
            if got is None or got.shape != want.shape:
                # find the culprit one by one
                for a, i in enumerate(idx):
                    try:
                        with warnings.catch_warnings():
                            warnings.simplefilter("ignore")
                            g1 = np.asarray(P.Point(rows[i].copy()).affine_coords(chart_index=k))
                        if g1.shape != want[a].shape or over(np.abs(g1 - want[a]).max(initial=0), TOL * scale[a]):
                            viol(int(i), "affine_coords.value", dict(chart=k, library=lst(g1), spec=lst(want[a])))
                    except Exception as ex:
                        viol(int(i), "raised:affine_coords", dict(chart=k, chart_coordinate=str(rows[i][k]), error=err(ex)))
            else:
                bad = over(np.abs(got - want).max(-1, initial=0), TOL * scale)
                for a in np.nonzero(bad)[0][:3]:
                    viol(int(idx[a]), "affine_coords.value", dict(chart=k, library=lst(got[a]), spec=lst(want[a])))
                if not light:
                    # column layout of the module-level function
                    try:
                        with warnings.catch_warnings():
                            warnings.simplefilter("ignore")
                            gc = np.asarray(P.affine_coords(rows[idx].T.copy(), chart_index=k, column_vectors=True))
                        if gc.shape != want.T.shape or over(np.abs(gc.T - want).max(-1, initial=0), TOL * scale).any():
                            viol(int(idx[0]), "affine_coords.column_layout", dict(chart=k, library=lst(gc.T[0]) if gc.ndim == 2 else list(gc.shape), spec=lst(want[0])))
                    except Exception as ex:
                        viol(int(idx[0]), "raised:affine_coords.column_layout", dict(chart=k, error=err(ex)))
                    # round trip: affine -> projective (1 in the chart slot) -> affine
                    try:
                        with warnings.catch_warnings():
                            warnings.simplefilter("ignore")
                            back = P.Point(want.copy(), chart_index=k)
                            hom = np.asarray(back.proj_data)
                            again = np.asarray(back.affine_coords(chart_index=k))
                            homc = np.asarray(P.projective_coords(want.T.copy(), chart_index=k, column_vectors=True))
                        if hom.shape != rows[idx].shape or not (hom[..., k] == 1).all():
                            viol(int(idx[0]), "projective_coords.one_in_chart_slot", dict(chart=k, library=lst(hom[0])))
                        elif not parallel(hom, rows[idx]).all():
                            a = int(np.nonzero(~parallel(hom, rows[idx]))[0][0])
                            viol(int(idx[a]), "projective_coords.same_point", dict(chart=k, library=lst(hom[a]), affine=lst(want[a])))
                        elif over(np.abs(again - want).max(-1, initial=0), TOL * scale).any():
                            viol(int(idx[0]), "chart_round_trip", dict(chart=k))
                        elif homc.shape != hom.T.shape or over(np.abs(homc.T - hom).max(initial=0), 0):
                            viol(int(idx[0]), "projective_coords.column_layout", dict(chart=k))
                    except Exception as ex:
                        viol(int(idx[0]), "raised:projective_coords", dict(chart=k, error=err(ex)))
                    # stacks of column matrices, shape batch + (d, N): the layout of a composite in column convention
                    for bshape in ((2,), (3,), (2, 2), (1, 2)):
                        B = int(np.prod(bshape))
                        N_ = len(idx) // B
                        if N_ < 1 or B * N_ < 2 or got is None or got.shape != want.shape:
                            continue
                        try:
                            with warnings.catch_warnings():
                                warnings.simplefilter("ignore")
                                sub = rows[idx][:B * N_]
                                w = want[:B * N_]
                                stack = sub.reshape(bshape + (N_, n + 1)).swapaxes(-1, -2).copy()
                                wst = w.reshape(bshape + (N_, n)).swapaxes(-1, -2).copy()
                                gs = np.asarray(P.affine_coords(stack, chart_index=k, column_vectors=True))
                                hs = np.asarray(P.projective_coords(wst.copy(), chart_index=k, column_vectors=True))
                            sc = scale[:B * N_].reshape(bshape + (1, N_))
                            if gs.shape != wst.shape or over(np.abs(gs - wst), TOL * sc).any():
                                viol(int(idx[0]), "affine_coords.column_stack", dict(chart=k, batch_shape=list(bshape), points_per_matrix=N_,
                                                                                      got_shape=list(gs.shape), expected_shape=list(wst.shape)))
                            hrow = np.asarray(P.projective_coords(w.copy(), chart_index=k))        # row layout of the same points
                            hexp = hrow.reshape(bshape + (N_, n + 1)).swapaxes(-1, -2)
                            if hs.shape != hexp.shape or not (hs[..., k, :] == 1).all() or over(np.abs(hs - hexp), 0).any():
                                viol(int(idx[0]), "projective_coords.column_stack", dict(chart=k, batch_shape=list(bshape), points_per_matrix=N_,
                                                                                          got_shape=list(hs.shape), expected_shape=list(hexp.shape)))
                        except Exception as ex:
                            viol(int(idx[0]), "raised:column_stack", dict(chart=k, batch_shape=list(bshape), points_per_matrix=N_, error=err(ex)))
                        run.evaluations += 2 * B * N_
            run.evaluations += 3 * len(idx)
        # outside the chart: the conversion must refuse, point by point
        for i in (np.nonzero(~inside)[0][:3] if light else np.nonzero(~inside)[0]):
            try:
                with warnings.catch_warnings():
                    warnings.simplefilter("ignore")
                    g1 = P.Point(rows[i].copy()).affine_coords(chart_index=k)
                viol(int(i), "not_in_chart_must_raise", dict(chart=k, returned=lst(g1)))
            except GE:
                pass
            except Exception as ex:
                viol(int(i), "raised:affine_coords.outside", dict(chart=k, error=err(ex)))
            run.evaluations += 1


def walk_affine(run, n, cplx, r, rng):
    P = proj()
    obs, maps, hyp = parse_affine(r)
    mode = "complex" if cplx else "real"
    by_len = {}
    for e in r.emits:
        by_len.setdefault(e["flen"], []).append(e)
    rows = {}
    # ---- level 0: Point(a, chart_index=i)
    init = [o for o in obs.values() if o["len"] == 0]
    for o in init:
        a = gvec(o["how"]["pt"], cplx)
        i = o["how"]["chart"]
        key = "affine:%s:n=%d:from_affine:%s:%d" % (mode, n, skey(o["how"]["pt"]), i)
        run.case(key=key, action="from_affine")
        try:
            p = P.Point(a.copy(), chart_index=i)
            row = np.asarray(p.proj_data)
            if row.shape != (n + 1,) or row[i] != 1:
                run.violation(key, "from_affine.one_in_chart_slot", dict(mode=mode, n=n, affine=lst(a), chart=i, library=lst(row)))
                continue
            if not parallel(row, gvec(o["x"], True))[0]:
                run.violation(key, "from_affine.point", dict(mode=mode, n=n, affine=lst(a), chart=i, library=lst(row), spec=o["x"]))
                continue
            rows[skey(o["x"])] = row
        except Exception as ex:
            run.violation(key, "raised:from_affine", dict(mode=mode, n=n, affine=lst(a), chart=i, error=err(ex)))
    ks = [k for k in rows]
    if ks:
        check_charts(run, n, cplx, [rows[k] for k in ks], [obs[k] for k in ks], "Point(a, chart_index=i)")
        check_extreme(run, n, cplx, [rows[k] for k in ks], [obs[k] for k in ks], "Point(a, chart_index=i)", maps["extreme"])
    # ---- embedded maps: the matrix itself (projectively) in both layouts
    tf = {}
    for kind, fn in (("lin", "affine_linear_map"), ("trans", "affine_translation")):
        for nm, per_chart in maps[kind].items():
            for i, E in enumerate(per_chart):
                want = gmat(E, cplx)                      # column convention
                idx = [c for c in range(n + 1) if c != i]
                key = "affine:%s:n=%d:%s:%s:%d" % (mode, n, fn, nm, i)
                run.case(key=key, action=fn)
                try:
                    with warnings.catch_warnings():
                        warnings.simplefilter("ignore")
                        if kind == "lin":
                            Lm = want[np.ix_(idx, idx)]
                            T = P.affine_linear_map(Lm.copy(), chart_index=i)
                            T2 = P.affine_linear_map(Lm.T.copy(), chart_index=i, column_vectors=False)
                            same = np.abs(np.asarray(T.matrix) - np.asarray(T2.matrix)).max() == 0
                            if i == 0 and same:
                                T0 = P.affine_linear_map(Lm.copy())
                                same = np.abs(np.asarray(T.matrix) - np.asarray(T0.matrix)).max() == 0
                        else:
                            tv = want[idx, i]
                            T = P.affine_translation(tv.copy(), chart_index=i)
                            same = True
                            if i == 0:
                                # chart 0 is the documented default: omitting the argument must give the same map
                                T0 = P.affine_translation(tv.copy())
                                same = np.abs(np.asarray(T.matrix) - np.asarray(T0.matrix)).max() == 0
                    M = np.asarray(T.matrix).T            # library stores the row matrix
                    if M.shape != want.shape or not parallel(M.reshape(1, -1), want.reshape(1, -1))[0]:
                        run.violation(key, fn + ".matrix", dict(mode=mode, n=n, map=nm, chart=i, library_column_matrix=[lst(x) for x in M],
                                                                spec=[lst(x) for x in want]))
                    elif not same:
                        run.violation(key, fn + ".row_layout", dict(mode=mode, n=n, map=nm, chart=i))
                    tf[(kind, nm, i)] = T
                except Exception as ex:
                    run.violation(key, "raised:" + fn, dict(mode=mode, n=n, map=nm, chart=i, error=err(ex)))
    # ---- the walk, level by level, batched by action
    level = 0
    ntrans = 0
    while level in by_len:
        groups = {}
        for e in by_len[level]:
            if skey(e["from"]) in rows:
                groups.setdefault(json.dumps(e["act"], sort_keys=True), []).append(e)
        new_rows, new_tags = {}, {}
        for ak, es in sorted(groups.items()):
            act = es[0]["act"]
            X = np.array([rows[skey(e["from"])] for e in es])
            label = act["a"] + (":" + act["name"] if "name" in act else "")
            run.actions[label] = run.actions.get(label, 0) + len(es)
            ntrans += len(es)
            key = "affine:%s:n=%d:%s" % (mode, n, ak)
            try:
                with warnings.catch_warnings():
                    warnings.simplefilter("ignore")
                    if act["a"] == "rescale":
                        c = G(act["c"])
                        Y = np.asarray(P.Point((c if cplx else c.real) * X).proj_data)
                    else:
                        T = tf.get((act["a"], act["name"], act["chart"]))
                        if T is None:
                            continue
                        res = T @ P.Point(X.copy())
                        if not isinstance(res, P.Point):
                            run.violation(key, "apply.type", dict(got=type(res).__name__))
                            continue
                        Y = np.asarray(res.proj_data)
                        Y1 = np.asarray((T @ P.Point(X[0].copy())).proj_data)          # unit object
                        if Y1.shape != (n + 1,) or not parallel(Y1, Y[0])[0]:
                            run.violation(key, "apply.unit_vs_composite", dict(mode=mode, n=n, act=act, unit=lst(Y1), composite=lst(Y[0])))
            except Exception as ex:
                run.violation(key, "raised:" + act["a"], dict(mode=mode, n=n, act=act, error=err(ex)))
                continue
            if Y.shape != X.shape:
                run.violation(key, "apply.shape", dict(mode=mode, n=n, act=act, got=list(Y.shape)))
                continue
            want = np.array([gvec(e["to"], True) for e in es])
            ok = parallel(Y, want)
            for j in np.nonzero(~ok)[0][:3]:
                e = es[j]
                run.violation("affine:%s:n=%d:x=%s:%s" % (mode, n, skey(e["from"]), ak), "image_of_point:" + act["a"],
                              dict(mode=mode, n=n, x=e["from"], act=act, library=lst(Y[j]), spec=e["to"]))
            for j, e in enumerate(es):
                tk = skey(e["to"])
                if ok[j] and tk not in new_rows:
                    new_rows[tk] = Y[j]
                    new_tags[tk] = label
            run.evaluations += len(es)
        fresh = [k for k in new_rows if k not in rows]
        if fresh:
            check_charts(run, n, cplx, [new_rows[k] for k in fresh], [obs[k] for k in fresh], "walk step %d" % (level + 1))
            check_extreme(run, n, cplx, [new_rows[k] for k in fresh], [obs[k] for k in fresh], "walk step %d" % (level + 1), maps["extreme"])
        for k in fresh:
            rows[k] = new_rows[k]
        level += 1
    run.traces += ntrans + len(init)
    run.nontrivial_count += len(rows)
    if r.emits:
        e = r.emits[len(r.emits) // 3]
        o = obs[skey(e["to"])]
        run.sample(dict(kind="affine transition (%s)" % mode, n=n, **{"from": e["from"], "act": e["act"], "to": e["to"],
                        "spec_charts_of_target": o["charts"][:2]}))
    if hyp is not None:
        hyperplanes(run, n, hyp)


def hyperplanes(run, n, hyp):
    P = proj()
    for rec in hyp.values():
        V = np.array([p[0] for p in rec["pts"]], dtype=float)
        cos2 = np.array([p[1][0] / p[1][1] for p in rec["pts"]])
        for sc in rec["scales"]:
            nv = np.array(rec["n"], dtype=float) * sc[0] / sc[1]
            key = "hyperplane:n=%d:%s*%d/%d" % (n, rec["n"], sc[0], sc[1])
            run.case(key=key, action="hyperplane_coordinate_transform")
            try:
                with warnings.catch_warnings():
                    warnings.simplefilter("ignore")
                    T = P.hyperplane_coordinate_transform(nv.copy())
                    M = np.asarray(T.matrix, float)
                    if M.shape != (n + 1, n + 1) or over(np.abs(M @ M.T - np.eye(n + 1)).max(), TOL):
                        run.violation(key, "hyperplane_transform.orthogonal", dict(normal=nv.tolist(), matrix=lst(M)))
                        continue
                    img = np.asarray((T @ P.Point(V.copy())).proj_data, float)
                    got = img[:, 0] ** 2 / (img ** 2).sum(-1)
                bad = over(np.abs(got - cos2), TOL)
                for j in np.nonzero(bad)[0][:2]:
                    run.violation(key + ":v=%s" % rec["pts"][j][0], "hyperplane_transform.chart_coordinate",
                                  dict(normal=nv.tolist(), v=rec["pts"][j][0], library_cos2=float(got[j]), spec_cos2=float(cos2[j])))
                off = cos2 > 0
                inside = np.asarray((T @ P.Point(V[off].copy())).in_affine_chart(0))
                if not inside.all():
                    run.violation(key, "hyperplane_transform.chart_to_chart", dict(normal=nv.tolist()))
                run.evaluations += len(V)
            except Exception as ex:
                run.violation(key, "raised:hyperplane_coordinate_transform", dict(normal=nv.tolist(), error=err(ex)))


# ========================================================================================
# Subspaces.tla
# ========================================================================================
def projector(S):
    """orthogonal projector onto the row span; None if the rows are dependent"""
    S = np.asarray(S, float)
    u, s, vt = np.linalg.svd(S, full_matrices=False)
    if not s.min() > 1e-9 * s.max():
        return None
    return vt.T @ vt


def span_check(R, W, A, B):
    """R: library spanning set; W: exact intersection; returns None or (clause, detail)"""
    R = np.asarray(R)
    W = np.asarray(W, float)
    if R.shape != W.shape:
        return ("intersect.dimension", "library spanning set has shape %r, expected %r" % (R.shape, W.shape))
    if not np.isfinite(R).all():
        return ("intersect.finite", "non-finite entries")
    pr = projector(R)
    if pr is None:
        return ("intersect.independent", "returned spanning vectors are dependent: %r" % (np.round(R, 6).tolist(),))
    for nm, S in (("first", A), ("second", B)):
        ps = projector(S)
        if over(np.abs(pr @ ps - pr).max(), 1e-8):
            return ("intersect.contained_in_" + nm, "a returned vector leaves the %s subspace: %r" % (nm, np.round(R, 6).tolist()))
    if over(np.abs(pr - projector(W)).max(), 1e-8):
        return ("intersect.span", "library %r, exact %r" % (np.round(R, 6).tolist(), W.tolist()))
    return None


def replay_subspaces(run, cfgk, r, rng):
    P = proj()
    m, p, q = cfgk
    states = r.emits
    tag = "m=%d:p=%d:q=%d" % cfgk
    stackA, stackB, stackW = [], [], []
    for o in states:
        As = np.array(o["As"], dtype=float)
        Bs = np.array(o["Bs"], dtype=float)
        na, nb = len(As), len(Bs)
        W = [[np.array(o["meet"][i][j], dtype=float) for j in range(nb)] for i in range(na)]
        skey_ = "subspace:%s:%s" % (tag, skey([o["As"], o["Bs"]]))
        run.case(key=skey_, action="intersect")

        def viol(clause, detail, **kw):
            run.violation(skey_ + ":" + clause.split(".")[-1], clause, dict(m=m, p=p, q=q, As=o["As"], Bs=o["Bs"], observed=detail, **kw))

        # single pairs (Subspace and ndarray arguments)
        for i in range(na):
            for j in range(nb):
                for as_array in (False, True):
                    try:
                        other = Bs[j].copy() if as_array else P.Subspace(Bs[j].copy())
                        R = P.Subspace(As[i].copy()).intersect(other)
                        if not isinstance(R, P.Subspace):
                            viol("intersect.type", type(R).__name__, pair=[i, j])
                            continue
                        bad = span_check(R.proj_data, W[i][j], As[i], Bs[j])
                    except Exception as ex:
                        bad = ("raised:intersect", err(ex))
                    if bad:
                        viol(bad[0], bad[1], pair=[i, j], broadcast="elementwise", exact=o["meet"][i][j])
                    run.evaluations += 1
        # pairwise, composite shapes (na,) x (nb,) and (na, 1) x (1, nb)
        for shpA, shpB in (((na,), (nb,)), ((na, 1), (1, nb))):
            try:
                R = P.Subspace(As.reshape(shpA + (p, m)).copy()).intersect(P.Subspace(Bs.reshape(shpB + (q, m)).copy()), broadcast="pairwise")
                D = np.asarray(R.proj_data)
                k = o["k"]
                if D.shape != shpA + shpB + (k, m):
                    viol("intersect.pairwise.shape", "shape %r, expected %r" % (D.shape, shpA + shpB + (k, m)))
                    continue
                D = D.reshape(na, nb, k, m)
                for i in range(na):
                    for j in range(nb):
                        bad = span_check(D[i, j], W[i][j], As[i], Bs[j])
                        if bad:
                            viol("pairwise:" + bad[0], bad[1], pair=[i, j], broadcast="pairwise", shapes=[list(shpA), list(shpB)], exact=o["meet"][i][j])
                            break
                    else:
                        continue
                    break
            except Exception as ex:
                viol("raised:intersect.pairwise", err(ex), shapes=[list(shpA), list(shpB)])
            run.evaluations += na * nb
        jj = min(1, nb - 1)
        stackA.append(As[0])
        stackB.append(Bs[jj])
        stackW.append(W[0][jj])
    # elementwise composites gathered over the states
    S = len(stackA)
    shapes = [(S,)] + ([((S // 2), 2)] if S >= 2 else []) + ([(1, S // 3, 3)] if S >= 3 else [])
    for shp in shapes:
        cnt = int(np.prod(shp))
        key = "subspace:%s:elementwise:%r" % (tag, shp)
        run.case(key=key, action="intersect.elementwise_composite")
        try:
            A = np.array(stackA[:cnt]).reshape(shp + (p, m))
            B = np.array(stackB[:cnt]).reshape(shp + (q, m))
            R = np.asarray(P.Subspace(A.copy()).intersect(P.Subspace(B.copy())).proj_data)
            k = p + q - m
            if R.shape != shp + (k, m):
                run.violation(key, "intersect.elementwise.shape", dict(m=m, p=p, q=q, shape=list(shp), got=list(R.shape)))
                continue
            R = R.reshape(cnt, k, m)
            for i in range(cnt):
                bad = span_check(R[i], stackW[i], stackA[i], stackB[i])
                if bad:
                    run.violation(key + ":%d" % i, "elementwise:" + bad[0],
                                  dict(m=m, p=p, q=q, shape=list(shp), index=i, A=stackA[i].tolist(), B=stackB[i].tolist(), observed=bad[1]))
                    break
        except Exception as ex:
            run.violation(key, "raised:intersect.elementwise", dict(m=m, p=p, q=q, shape=list(shp), error=err(ex)))
        run.evaluations += cnt
    run.traces += len(states)
    run.nontrivial_count += len(states)
    if states:
        o = states[len(states) // 2]
        run.sample(dict(kind="transverse family", m=m, p=p, q=q, As=o["As"], Bs=o["Bs"], exact_intersections=o["meet"]))


# ========================================================================================
# ProjEigen.tla
# ========================================================================================
def in_span(d, basis, tol):
    """d lies in the span of the rows of `basis` (least-squares residual relative to |d|)"""
    Bt = np.asarray(basis, complex).T
    d = np.asarray(d, complex)
    if not np.isfinite(d).all() or not np.abs(d).max() > 0:
        return False
    coef = np.linalg.lstsq(Bt, d, rcond=None)[0]
    return bool(np.abs(Bt @ coef - d).max() <= tol * np.abs(d).max())


def replay_eigen(run, m, r, rng, gauss=False):
    """states of ProjEigen.tla (integer T, possibly repeated eigenvalues) or ProjEigenSym.tla (gauss=True:
    Gaussian-integer symmetric / Hermitian T, distinct eigenvalues)"""
    P = proj()
    by_spec = {}
    unit_results = {}
    for si, o in enumerate(r.emits):
        if gauss:
            T = gmat(o["T"], True)
            F = gmat(o["evecs"], True)
            if not o["complex"]:
                T, F = T.real.copy(), F.real.copy()
        else:
            T = np.array(o["T"], dtype=float)
            F = np.array(o["evecs"], dtype=float)          # F[k] = eigenvector of ev[k]
        ev = np.array(o["evals"], dtype=float)
        repeated = len(set(o["evals"])) < m
        cplx = np.iscomplexobj(T)
        by_spec.setdefault((tuple(o["evals"]), cplx), []).append((T, F, si))
        key = "eigen:m=%d:T=%s" % (m, skey(o["T"]))
        run.case(key=key, action="eigenvector")

        def viol(clause, **kw):
            run.violation(key + ":" + clause, clause, dict(m=m, T=o["T"], eigenvalues=o["evals"], **kw))

        scale = np.abs(T).max()
        for layout in ("column", "row"):
            try:
                with warnings.catch_warnings():
                    warnings.simplefilter("ignore")
                    tr = P.Transformation(T.copy(), column_vectors=True) if layout == "column" else P.Transformation(T.T.copy())
                    for k in range(m):
                        v = tr.eigenvector(ev[k])
                        if not isinstance(v, P.Point):
                            viol("eigenvector.type", got=type(v).__name__)
                            break
                        d = np.asarray(v.proj_data)
                        space = F[ev == ev[k]]                 # exact basis of the eigenspace
                        if d.shape != (m,) or not (parallel(d, F[k], 1e-8)[0] if len(space) == 1 else in_span(d, space, 1e-7)):
                            viol("eigenvector.in_exact_eigenspace", layout=layout, eigenvalue=float(ev[k]), library=lst(d),
                                 exact_eigenspace=[o["evecs"][j] for j in range(m) if ev[j] == ev[k]])
                            break
                        img = np.asarray((tr @ v).proj_data)
                        if over(np.abs(img - ev[k] * d).max(), 1e-8 * scale * np.abs(d).max()):
                            viol("eigenvector.mapped_to_multiple", layout=layout, eigenvalue=float(ev[k]), vector=lst(d), image=lst(img))
                            break
                        if layout == "column":
                            unit_results[(si, k)] = d
                    v = tr.eigenvector()
                    d = np.asarray(v.proj_data)
                    img = np.asarray((tr @ v).proj_data)
                    if not (np.abs(d).max() > 0 and parallel(img, d, 1e-8)[0]
                            and any(in_span(d, F[ev == lam], 1e-7) for lam in set(ev.tolist()))):
                        viol("eigenvector.arbitrary", layout=layout, library=lst(d), image=lst(img))
                    # diagonalising frame.  With a repeated eigenvalue the frame returned by a numerical eigen-solver
                    # for a non-normal matrix may be arbitrarily ill-conditioned, so the check is made where the
                    # spec's spectrum is simple
                    for with_inv in (() if repeated else (False, True)):
                        if with_inv:
                            Mx, Mi = tr.diagonalize(return_inv=True)
                        else:
                            Mx = tr.diagonalize()
                            Mi = Mx.inv()
                        Dm = np.asarray((Mi @ tr @ Mx).proj_data)
                        off = Dm - np.diag(np.diag(Dm))
                        if over(np.abs(off).max(), 1e-8 * scale):
                            viol("diagonalize.diagonal", layout=layout, return_inv=with_inv, conjugated=[lst(x) for x in Dm])
                            break
                        if over(np.abs(np.sort(np.diag(Dm).real) - np.sort(ev)).max(), 1e-8 * scale) or over(np.abs(np.diag(Dm).imag).max(initial=0), 1e-8 * scale):
                            viol("diagonalize.spectrum", layout=layout, return_inv=with_inv, diagonal=lst(np.diag(Dm)))
                            break
            except Exception as ex:
                viol("raised:eigen", layout=layout, error=err(ex))
            run.evaluations += m + 3
    # composite transformations sharing a spectrum
    for (evs, cplx), items in by_spec.items():
        Ts = np.array([t for t, _, _ in items])
        S = len(items)
        repeated = len(set(evs)) < m
        eva = np.array(evs, dtype=float)
        for shp in [(S,)] + ([(S // 2, 2)] if S >= 2 else []):
            cnt = int(np.prod(shp))
            key = "eigen:m=%d:composite:%s:%s:%r" % (m, evs, "c" if cplx else "r", shp)
            run.case(key=key, action="eigenvector.composite")
            try:
                with warnings.catch_warnings():
                    warnings.simplefilter("ignore")
                    tr = P.Transformation(Ts[:cnt].reshape(shp + (m, m)).copy(), column_vectors=True)
                    # (the composite branch of eigenvector stores its result in a real array: exercised on real data)
                    for k in (range(m) if not cplx else ()):
                        d = np.asarray(tr.eigenvector(float(evs[k])).proj_data)
                        if d.shape != shp + (m,):
                            run.violation(key, "eigenvector.composite.shape", dict(m=m, shape=list(shp), got=list(d.shape)))
                            break
                        d = d.reshape(cnt, m)
                        bad = None
                        for i in range(cnt):
                            Ti, Fi, si = items[i]
                            space = Fi[eva == eva[k]]
                            if not (parallel(d[i], Fi[k], 1e-8)[0] if len(space) == 1 else in_span(d[i], space, 1e-7)):
                                bad = (i, "eigenvector.composite.in_exact_eigenspace", space.tolist())
                            elif over(np.abs(Ti @ d[i] - eva[k] * d[i]).max(), 1e-8 * np.abs(Ti).max() * np.abs(d[i]).max()):
                                bad = (i, "eigenvector.composite.mapped_to_multiple", space.tolist())
                            elif (si, k) in unit_results and not over(np.abs(np.imag(unit_results[(si, k)])).max(), 1e-12) \
                                    and not parallel(d[i], unit_results[(si, k)], 1e-8)[0]:
                                # a composite is an array of units: its i-th vector is the one the i-th unit reports (compared
                                # where the unit's vector is real; a numerically split repeated eigenvalue makes it complex and
                                # the composite, which stores real arrays, then reports its real part)
                                bad = (i, "eigenvector.composite.equals_unit", lst(unit_results[(si, k)]))
                            if bad:
                                run.violation(key + ":%d" % i, bad[1], dict(m=m, shape=list(shp), index=i, T=Ti.tolist(), eigenvalue=evs[k],
                                                                            library=lst(d[i]), expected=bad[2]))
                                break
                        if bad:
                            break
                    if not repeated:
                        Mx = tr.diagonalize()
                        Dm = np.asarray((Mx.inv() @ tr @ Mx).proj_data).reshape(cnt, m, m)
                        off = Dm - Dm * np.eye(m)
                        if over(np.abs(off).max(), 1e-8 * np.abs(Ts).max()):
                            run.violation(key, "diagonalize.composite.diagonal", dict(m=m, shape=list(shp)))
            except Exception as ex:
                run.violation(key, "raised:eigen.composite", dict(m=m, shape=list(shp), error=err(ex)))
            run.evaluations += cnt * (m + 1)
    # composites MIXING spectra: asked for an eigenvalue, every member reports a vector v with T v = lam v -- an element of
    # the exact eigenspace where the member has the eigenvalue, and (since then no non-zero such vector exists, spec:
    # AbsentHasNoEigenvector) the degenerate zero point where it has not
    real = [(T, F, tuple(evs)) for (evs, cplx), items in by_spec.items() if not cplx for T, F, _ in items]
    if len({e for _, _, e in real}) >= 2:
        real.sort(key=lambda x: x[0].tobytes())
        step = max(1, len(real) // 90)
        mix = real[::step]
        # interleave the spectra
        mix = sorted(mix, key=lambda x: hash(x[0].tobytes()) % 997)
        S = len(mix)
        values = sorted({v for _, _, e in mix for v in e})
        for shp in [(S,), (S // 2, 2)]:
            cnt = int(np.prod(shp))
            key = "eigen:m=%d:mixed_composite:%r" % (m, shp)
            run.case(key=key, action="eigenvector.mixed_composite")
            try:
                with warnings.catch_warnings():
                    warnings.simplefilter("ignore")
                    tr = P.Transformation(np.array([t for t, _, _ in mix[:cnt]]).reshape(shp + (m, m)).copy(), column_vectors=True)
                    for lam in values:
                        if not any(lam in e for _, _, e in mix[:cnt]):
                            continue
                        d = np.asarray(tr.eigenvector(float(lam)).proj_data)
                        if d.shape != shp + (m,):
                            run.violation(key, "eigenvector.composite.shape", dict(m=m, shape=list(shp), got=list(d.shape)))
                            break
                        d = d.reshape(cnt, m)
                        bad = None
                        for i in range(cnt):
                            Ti, Fi, ei = mix[i]
                            ea = np.array(ei, dtype=float)
                            if over(np.abs(Ti @ d[i] - lam * d[i]).max(), 1e-8 * np.abs(Ti).max() * max(np.abs(d[i]).max(), 1e-300)) \
                                    or not np.isfinite(d[i]).all():
                                bad = (i, "eigenvector.composite.mapped_to_multiple")
                            elif lam in ei and not in_span(d[i], Fi[ea == lam], 1e-7):
                                bad = (i, "eigenvector.composite.in_exact_eigenspace")
                            if bad:
                                run.violation(key + ":lam=%s:%d" % (lam, i), bad[1],
                                              dict(m=m, shape=list(shp), index=i, T=Ti.tolist(), spectrum=list(ei), requested_eigenvalue=lam,
                                                   member_has_eigenvalue=lam in ei, library=lst(d[i])))
                                break
                        if bad:
                            break
            except Exception as ex:
                run.violation(key, "raised:eigen.mixed_composite", dict(m=m, shape=list(shp), error=err(ex)))
            run.evaluations += cnt * len(values)
    run.traces += len(r.emits)
    run.nontrivial_count += len(r.emits)
    if r.emits:
        run.sample(dict(kind="symmetric / Hermitian transformation with exact eigen-data" if gauss else "transformation with exact eigen-data",
                        **r.emits[len(r.emits) // 2]))


# ========================================================================================
def run(run, replay=None):
    quick = run.tier == "quick"
    rng = random.Random(run.seed)
    core.import_repo()
    run.rule = ("one case per transition of Affine.tla's machine (all chart observations of the target state), per state of "
                "Subspaces.tla (every pair, every broadcast mode) and per state of ProjEigen.tla (every eigenvalue, both "
                "layouts, diagonalisation); distinct_nontrivial = distinct spec states replayed")
    run.assumptions += [
        "coordinates are small Gaussian integers / integers; linear maps, translations, normals, frames and spectra come from "
        "fixed pools; dimensions 1..5; walks of bounded length",
        "hyperplane_coordinate_transform and eigenvector scale are compared through what the contract determines "
        "(orthogonality and cos^2 of the angle to the normal; direction of the eigenvector)",
        "eigen-data: diagonalisable integer matrices with distinct integer eigenvalues only",
    ]
    if quick:
        aff = [(n, False, 2, 2) for n in (1, 2, 3, 4, 5)] + [(1, True, 2, 2), (2, True, 2, 2), (3, True, 2, 2), (4, True, 1, 2), (5, True, 1, 1)]
        sub = [(2, 2, 1, 3), (3, 2, 2, 3), (4, 3, 3, 2), (4, 3, 2, 2), (4, 2, 3, 2), (5, 4, 3, 2), (5, 3, 3, 1), (6, 5, 4, 1), (6, 4, 3, 1)]
        eig = [(m, 2) for m in (2, 3, 4, 5, 6)]
        sym = [(2, 2, "orth"), (3, 2, "orth"), (4, 1, "orth"), (5, 1, "orth"), (2, 2, "unit"), (3, 2, "unit"), (6, 1, "unit")]
    else:
        aff = [(n, False, 4, 3 if n <= 3 else 2) for n in (1, 2, 3, 4, 5)] + [(n, True, 3 if n <= 3 else 2, 3 if n <= 2 else 2) for n in (1, 2, 3, 4, 5)]
        sub = [(2, 2, 1, 4), (3, 2, 2, 4), (3, 3, 2, 3), (4, 3, 3, 3), (4, 3, 2, 3), (4, 2, 3, 3), (4, 4, 2, 2), (5, 4, 3, 3), (5, 3, 3, 3),
               (5, 4, 4, 2), (6, 5, 4, 2), (6, 4, 3, 2), (6, 5, 5, 2), (6, 3, 4, 2)]
        eig = [(m, 3 if m <= 4 else 2) for m in (2, 3, 4, 5, 6)]
        sym = [(m, 3 if m <= 3 else 2, mode) for m in (2, 3, 4, 5, 6) for mode in ("orth", "unit")]
    jobs = [("aff", a) for a in aff] + [("sub", s) for s in sub] + [("eig", e) for e in eig] + [("sym", e) for e in sym]
    w = 2 if quick else 3

    def tlc(job):
        kind, a = job
        if kind == "aff":
            n, cx, k, ml = a
            c = core.cfg(constants=dict(N=n, Cplx=cx, K=k, MaxLen=ml), invariants=AFF_INVS, view="View", action_constraints=["Emit"])
            return run.tlc("proj/Affine.tla", c, name="Affine_n%d_%s" % (n, "c" if cx else "r"), workers=w)
        if kind == "sub":
            m, p, q, ml = a
            c = core.cfg(constants=dict(M=m, P=p, Q=q, MaxLen=ml), invariants=SUB_INVS, view="View")
            return run.tlc("proj/Subspaces.tla", c, name="Subspaces_%d_%d_%d" % (m, p, q), workers=w, emit_prefix="OBS ")
        if kind == "sym":
            m, ml, mode = a
            c = core.cfg(constants=dict(M=m, MaxLen=ml, Mode=mode), invariants=SYM_INVS, view="View")
            return run.tlc("proj/ProjEigenSym.tla", c, name="ProjEigenSym_%d_%s" % (m, mode), workers=w, emit_prefix="OBS ")
        m, ml = a
        c = core.cfg(constants=dict(M=m, MaxLen=ml), invariants=EIG_INVS, view="View")
        return run.tlc("proj/ProjEigen.tla", c, name="ProjEigen_%d" % m, workers=w, emit_prefix="OBS ")

    # heaviest first
    order = sorted(range(len(jobs)), key=lambda i: -(jobs[i][1][0] * 10 + (5 if jobs[i][0] == "aff" and jobs[i][1][1] else 0)))
    with ThreadPoolExecutor(6 if quick else 5) as ex:
        res = dict(zip(order, ex.map(lambda i: tlc(jobs[i]), order)))
    for i, (kind, a) in enumerate(jobs):
        r = res[i]
        if kind == "aff":
            walk_affine(run, a[0], a[1], r, rng)
        elif kind == "sub":
            replay_subspaces(run, a[:3], r, rng)
        elif kind == "sym":
            replay_eigen(run, a[0], r, rng, gauss=True)
        else:
            replay_eigen(run, a[0], r, rng)
