"""C18 — the indefinite linear-algebra helpers meet their stated contracts.

Specifications (spec/num): FormOps.tla (exact integer linear algebra: fraction-free
Gauss-Jordan, the fraction-free Gram-Schmidt recurrence, Jacobi signatures, sphere centres),
Forms.tla (state machine: congruence walk through non-degenerate symmetric forms, then rows
fed one at a time to Gram-Schmidt), Kernels.tla (matrices built row by row with exact rank
and integer kernel basis), Spheres.tla (points in general position with the exact rational
centre), Arcs.tla (angles on the grid pi/Half, the three ordering rules declaratively and as
the library's arithmetic).  TLC checks the theorems of each module on every reachable state
(exhaustively on the small universes, by seeded simulation on dimensions 4..6) and prints one
OBS record per state with the exact expected values.

Conformance (spec -> code): every OBS record is replayed through the public helpers
  indefinite_orthogonalize, find_isometry (free and oriented), orthogonal_complement,
  diagonalize_form (signed / minkowski, reversed, with and without inverse), kernel,
  sphere_through / circle_through, short_arc / right_to_left / arc_include
in several batch shapes (stacked (B,..), grid (a,b,..), one unit, a bare vector) and compared
with the exact values (rows, signs, dimensions, centres, radii, ordered angle pairs); outputs
that depend on the SVD / eigen-solver are bound by the laws the specification names (Gram
matrix = diag of the exact sign sequence, annihilation, orthonormality, span of the exact
kernel basis).  Scale covariance: every record also names exact rational factors (powers of
ten); point sets are replayed as c (P + shift) for c = 1e-6, 1e-3, 1e3, -1e-3 (whole batch and
mixed within one batch), rows / forms multiplied by positive factors 1e-3, 1e3 (same
normalised rows, same kernel, same signs) -- all comparisons are relative to the scale, and
the covariance laws themselves are TLC theorems (Similar, RowScaleInvariant,
FormScaleInvariant) for small integer factors.  Frame conditions (spec/num/Frames.tla): the
helpers are queries on the caller's arrays -- every history of up to 2 (3 thorough) calls of
the helpers of one family on shared argument buffers, in five memory layouts (contiguous,
strided view, transposed view, slice of a larger batch, read-only), must leave every buffer
and the memory around it bit-identical, give the same answer when asked again, and the first
and last answers must be the exact ones for the points / rows the caller holds.
"""
import concurrent.futures
import json
import math
import os
import re
import warnings

import numpy as np

from .. import core

TOL = 1e-9
NUM = "num"
MAXV = 12          # violations reported per clause family


# ----------------------------------------------------------------------------------------
# TLC jobs (run concurrently; bookkeeping in the main thread)
# ----------------------------------------------------------------------------------------
FORMS_INV = ["TypeOK", "Orth", "NormRatio", "GramMinor", "FlagSpan", "Inertia", "SigInvariant",
             "StdBasisIsJacobi", "RowScaleInvariant", "FormScaleInvariant", "EmitObs"]
KERNEL_INV = ["ElimExact", "RankNullity", "Annihilated", "Independent", "RankSteps", "GramRank",
              "TransposeRank", "RowScaleInvariant", "EmitObs"]
SPHERE_INV = ["GeneralPosition", "SystemRegular", "Equidistant", "ShellCentre", "SolveAgrees", "OrderFree", "Similar",
              "EmitObs"]
ARCS_INV = ["CosOrderTable", "ShortIsLib", "IncludeIsLib", "ArePermutations", "SwapFree", "ShortIsShort",
            "R2LDescends", "IncludeContains", "IncludeVsShort", "Equivariant", "R2LReflect", "EmitObs"]


def forms_job(name, n, rng, rows, supp=None, mincong=0, maxcong=0, formrng=1, condk=50, rat=False,
              workers=4, simulate=None, depth=None, init="Init", scale_thm=True):
    inv = [i for i in FORMS_INV if scale_thm or i != "RowScaleInvariant"]
    if rat:
        inv.insert(-1, "RatAgrees")
    return dict(name=name, module="num/Forms.tla", workers=workers, simulate=simulate, depth=depth,
                cfg=core.cfg(constants=dict(N=n, Rng=rng, MaxSupp=supp or n, MaxRows=rows, MinCong=mincong,
                                            MaxCong=maxcong, FormRng=formrng, CondK=condk),
                             invariants=inv, view="View", init=init))


def kernel_job(name, n, rng, rows, supp=None, workers=4, simulate=None, depth=None):
    return dict(name=name, module="num/Kernels.tla", workers=workers, simulate=simulate, depth=depth,
                cfg=core.cfg(constants=dict(N=n, Rng=rng, MaxSupp=supp or n, MaxRows=rows), invariants=KERNEL_INV))


def sphere_job(name, n, rng, shell, r2=25, box=5, workers=4, simulate=None, depth=None, order_free=True):
    inv = [i for i in SPHERE_INV if order_free or i != "OrderFree"]
    return dict(name=name, module="num/Spheres.tla", workers=workers, simulate=simulate, depth=depth,
                cfg=core.cfg(constants=dict(N=n, Rng=rng, Shell=shell, R2=r2, ShellBox=box), invariants=inv))


def frames_job(name, maxcalls, workers=2):
    return dict(name=name, module="num/Frames.tla", workers=workers, simulate=None, depth=None,
                cfg=core.cfg(constants=dict(MaxCalls=maxcalls), invariants=["Frame", "Repeatable", "FromOriginal", "EmitObs"]))


def arcs_job(name, half, workers=4):
    return dict(name=name, module="num/Arcs.tla", workers=workers, simulate=None, depth=None,
                cfg=core.cfg(constants=dict(Half=half), invariants=ARCS_INV))


_SIMGEN = re.compile(r"The number of states generated: (\d+)")


def run_jobs(run, jobs, parallel):
    def one(j):
        wd = os.path.join(run.work, j["name"])
        return core.run_tlc(os.path.join(core.SPEC, j["module"]), j["cfg"], wd, workers=j["workers"],
                            simulate=j["simulate"], depth=j["depth"], seed=run.seed, emit_prefix="OBS ")
    out = {}
    with concurrent.futures.ThreadPoolExecutor(max_workers=parallel) as ex:
        futs = {ex.submit(one, j): j for j in jobs}
        for f in concurrent.futures.as_completed(futs):
            j = futs[f]
            r = f.result()          # MachineryFailure propagates
            seen, recs = set(), []
            for o in r.emits:
                k = json.dumps(o, sort_keys=True)
                if k not in seen:
                    seen.add(k)
                    recs.append(o)
            if j["simulate"] is not None:
                m = _SIMGEN.search(r.stdout)
                r.generated = int(m.group(1)) if m else len(r.emits)
                r.distinct = len(recs)
            if not recs:
                raise core.MachineryFailure("TLC run %s printed no OBS record" % j["name"])
            out[j["name"]] = (r, recs)
    for j in jobs:                      # deterministic bookkeeping order
        r, recs = out[j["name"]]
        run.states += r.distinct
        run.transitions += r.generated
        d = r.as_dict()
        d.update(module="spec/" + j["module"], run=j["name"], simulate=j["simulate"])
        run.tlc_runs.append(d)
    return {k: v[1] for k, v in out.items()}


# ----------------------------------------------------------------------------------------
# small helpers
# ----------------------------------------------------------------------------------------
class Viol:
    """collects violations, a bounded number per clause"""

    def __init__(self, run):
        self.run = run
        self.count = {}

    def add(self, key, clause, detail):
        fam = clause.split(":")[0]
        self.count[fam] = self.count.get(fam, 0) + 1
        if self.count[fam] <= MAXV:
            self.run.violation(key, clause, detail)


def utils_mod():
    from geometry_tools import utils
    return utils


def shapes_of(B):
    """batch shapes exercised for a stack of B units: the stack (B,..), a batch of one (1,..), a 2-d grid (2,B/2,..);
    single units (no batch axis) are added by the callers"""
    out = [("stack", None), ("one", (1,))]
    if B >= 4:
        a = 2
        b = B // 2
        out.append(("grid", (a, b)))
    return out


def jkey(x):
    return json.dumps(x, separators=(",", ":"))


def call(f, *a, **k):
    """the spec says the call is in the domain and succeeds: an exception is a violation, not a crash"""
    try:
        with warnings.catch_warnings(), np.errstate(all="ignore"):
            warnings.simplefilter("ignore")
            return f(*a, **k), None
    except Exception as e:
        return None, "%s: %s" % (type(e).__name__, e)


# ----------------------------------------------------------------------------------------
# Gram-Schmidt, frame completion, complements
# ----------------------------------------------------------------------------------------
def expected_rows(c):
    """r_i = w_i / sqrt|<w_i, w_i>| with w_i = wn_i / wd_i and <w_i, w_i> = nn_i / wd_i (spec values)"""
    wn = np.array(c["wn"], dtype=float)
    wd = np.array(c["wd"], dtype=float)
    nn = np.array(c["nn"], dtype=float)
    return (wn / wd[:, None]) / np.sqrt(np.abs(nn / wd))[:, None]


def gs_groups(recs):
    g = {}
    for c in recs:
        k = len(c["rows"])
        if k:
            g.setdefault((c["n"], k, jkey(c["F"])), []).append(c)
    return g


def rows_err(out, R):
    """distance between two row sets, row by row and up to the sign of each row (orthogonal, norm +-1
    and 'same flag' determine every row up to its sign, which the property leaves free)"""
    with np.errstate(all="ignore"):
        e = np.minimum(np.abs(out - R).max(axis=-1), np.abs(out + R).max(axis=-1))
        e = np.where(np.isfinite(e), e, np.inf)
    return e.max(axis=-1)


def check_orth(V, F, X, R, out, cases, tag, idx=None):
    """out: library result for the stacked input X (B,k,n); R exact rows"""
    n_bad = 0
    if out.shape != X.shape:
        V.add("gs:%s:%s" % (jkey(F.tolist()), tag), "orthogonalize.shape",
              dict(form=F.tolist(), got=list(out.shape), want=list(X.shape), shape=tag))
        return 1
    scale = np.maximum(1.0, np.abs(R).max(axis=(-1, -2))) ** 2
    err = rows_err(out, R)
    bad = ~(err <= TOL * scale)
    for i in np.nonzero(bad)[0][:3]:
        c = cases[i if idx is None else idx[i]]
        G = out[i] @ F @ out[i].T
        V.add("gs:%s:%s" % (jkey(c["F"]), jkey(c["rows"])), "orthogonalize.rows",
              dict(form=c["F"], rows=c["rows"], shape=tag, got=out[i].tolist(), want=R[i].tolist(),
                   gram_of_result=np.round(G, 9).tolist(), want_signs=c["eps"]))
        n_bad += 1
    return n_bad


def signs_of_gram(G, tol):
    """G (B,n,n) -> (ok mask, integer sign diagonal) : G must be diag(+-1) within tol (per unit)"""
    n = G.shape[-1]
    d = np.diagonal(G, axis1=-2, axis2=-1)
    off = np.abs(G * (1 - np.eye(n))).max(axis=(-1, -2)) if n else np.zeros(G.shape[:-2])
    dg = np.abs(np.abs(d) - 1).max(axis=-1) if n else np.zeros(G.shape[:-2])
    with np.errstate(invalid="ignore"):
        ok = (off <= tol) & (dg <= tol)
    return ok, np.sign(d).astype(int)


def check_isometry(V, F, X, R, cases, fo, out, tag):
    B, k, n = X.shape
    fj = jkey(F.tolist())
    if out.shape != (B, n, n):
        V.add("iso:%s:k=%d:%s" % (fj, k, tag), "find_isometry.shape",
              dict(form=F.tolist(), k=k, n=n, force_oriented=fo, got=list(out.shape), want=[B, n, n], shape=tag,
                   example_rows=cases[0]["rows"]))
        return
    eps = np.array([c["eps"] for c in cases], dtype=int)
    neg = cases[0]["neg"]
    with np.errstate(all="ignore"):
        mx = np.abs(out).max(axis=(-1, -2))
        finite = np.isfinite(mx)
        G = out @ F @ out.swapaxes(-1, -2)
        # SVD-dependent rows: tolerance relative to the size of the entries the library chose
        scale = np.where(finite, np.maximum(1.0, mx) ** 2, 1.0)
        ok, sg = signs_of_gram(G, TOL * scale)
        ok &= finite & (mx <= 20 * cases[0]["condk"])       # a bounded-condition completion exists
        lead_ok = ok & (sg[:, :k] == eps).all(axis=-1)
        count_ok = ok & ((sg < 0).sum(axis=-1) == neg)
        # leading rows are determined up to sign: the exact rows of the specification
        lead = out[:, :k, :]
        rs = np.maximum(1.0, np.abs(R).max(axis=(-1, -2))) ** 2
        rows_ok = rows_err(lead, R) <= TOL * rs
        det_ok = np.ones(B, dtype=bool)
        if fo:
            det_ok = np.linalg.det(np.where(finite[:, None, None], out, 0.0)) > 0
        # a genuine isometry of a diagonal form: when the signs of all rows are forced to be the diagonal
        Fd = np.diag(F)
        pres_ok = np.ones(B, dtype=bool)
        if np.array_equal(F, np.diag(Fd)) and (np.abs(Fd) == 1).all() and len(set(Fd[k:].tolist())) <= 1:
            forced = (eps == Fd[:k].astype(int)).all(axis=-1)
            Gt = out.swapaxes(-1, -2) @ F @ out
            pres = (np.abs(G - F).max(axis=(-1, -2)) <= TOL * scale) & (np.abs(Gt - F).max(axis=(-1, -2)) <= TOL * scale)
            pres_ok = ~forced | pres
    for mask, clause in ((ok, "find_isometry.gram_is_diag_pm1"), (lead_ok, "find_isometry.leading_signs"),
                         (count_ok, "find_isometry.signature"), (rows_ok, "find_isometry.leading_rows"),
                         (det_ok, "find_isometry.det_positive"), (pres_ok, "find_isometry.preserves_form")):
        for i in np.nonzero(~mask)[0][:2]:
            c = cases[i]
            V.add("iso:%s:%s:fo=%s" % (jkey(c["F"]), jkey(c["rows"]), fo), clause,
                  dict(form=c["F"], rows=c["rows"], force_oriented=fo, shape=tag, want_leading_signs=c["eps"],
                       want_negative=neg, result=np.round(out[i], 6).tolist(),
                       gram=np.round(G[i], 6).tolist()))
        if (~mask).any():
            break


def check_complement(V, F, X, cases, out, tag):
    B, k, n = X.shape
    fj = jkey(F.tolist())
    if out.shape != (B, n - k, n):
        V.add("compl:%s:k=%d:%s" % (fj, k, tag), "orthogonal_complement.shape",
              dict(form=F.tolist(), k=k, n=n, got=list(out.shape), want=[B, n - k, n], shape=tag,
                   example_rows=cases[0]["rows"]))
        return
    if n - k == 0:
        return
    negc = cases[0]["neg"] - np.array([sum(1 for e in c["eps"] if e < 0) for c in cases])
    # documented caveat of orthogonal_complement(normalize='form'): Gram-Schmidt on the SVD basis may
    # meet null vectors when the form is indefinite on the complement -> domain = definite complement
    definite = (negc == 0) | (negc == n - k)
    with np.errstate(all="ignore"):
        mx = np.abs(out).max(axis=(-1, -2))
        finite = np.isfinite(mx)
        scale = np.where(finite, np.maximum(1.0, mx) ** 2, 1.0)
        cross = np.abs(X @ F @ out.swapaxes(-1, -2)).max(axis=(-1, -2))
        xs = np.abs(X).max(axis=(-1, -2)) * np.maximum(1.0, mx)
        orth_ok = finite & (cross <= TOL * xs * n) & (mx <= 20 * cases[0]["condk"])
        G = out @ F @ out.swapaxes(-1, -2)
        ok, sg = signs_of_gram(G, TOL * scale)
        sig_ok = ok & ((sg < 0).sum(axis=-1) == negc)
        orth_ok |= ~definite
        sig_ok |= ~definite
    for mask, clause in ((orth_ok, "orthogonal_complement.orthogonal_to_rows"),
                         (sig_ok, "orthogonal_complement.orthonormal_with_signature")):
        for i in np.nonzero(~mask)[0][:2]:
            c = cases[i]
            V.add("compl:%s:%s" % (jkey(c["F"]), jkey(c["rows"])), clause,
                  dict(form=c["F"], rows=c["rows"], shape=tag, want_negative=int(negc[i]),
                       result=np.round(out[i], 6).tolist(), gram=np.round(G[i], 6).tolist()))
        if (~mask).any():
            break


def check_definite(run, V, U, x, R, c):
    """find_definite_isometry (Euclidean form, QR based; not among the property's observation points, so only
    what holds under either reading of its docstring is required): the result is orthogonal, has positive
    determinant on request, and -- without the reflection -- its leading rows or its leading columns are the
    exact orthonormalised rows up to sign"""
    k, n = x.shape
    for fo in (False, True):
        out, err = call(U.find_definite_isometry, x.copy(), fo)
        run.evaluations += 1
        run.actions["find_definite_isometry"] = run.actions.get("find_definite_isometry", 0) + 1
        key = "definite:%s:fo=%s" % (jkey(c["rows"]), fo)
        if err:
            V.add(key, "find_definite_isometry.raised", dict(rows=c["rows"], force_oriented=fo, error=err))
            continue
        Q = np.asarray(out, dtype=float)
        if Q.shape != (n, n):
            V.add(key, "find_definite_isometry.shape", dict(rows=c["rows"], got=list(Q.shape), want=[n, n]))
            continue
        if not np.abs(Q @ Q.T - np.eye(n)).max() <= TOL:
            V.add(key, "find_definite_isometry.orthogonal", dict(rows=c["rows"], force_oriented=fo, result=np.round(Q, 6).tolist()))
        elif fo and not np.linalg.det(Q) > 0:
            V.add(key, "find_definite_isometry.det_positive", dict(rows=c["rows"], result=np.round(Q, 6).tolist()))
        elif not fo and not (rows_err(Q[None, :k, :], R[None])[0] <= TOL or rows_err(Q.T[None, :k, :], R[None])[0] <= TOL):
            V.add(key, "find_definite_isometry.flag", dict(rows=c["rows"], want_rows_up_to_sign=np.round(R, 6).tolist(),
                                                           result=np.round(Q, 6).tolist()))


def replay_gs(run, V, recs, single_every):
    U = utils_mod()
    groups = gs_groups(recs)
    n_cases = 0
    for (n, k, fj), cases in sorted(groups.items()):
        F = np.array(json.loads(fj), dtype=float)
        X = np.array([c["rows"] for c in cases], dtype=float)
        R = np.array([expected_rows(c) for c in cases])
        B = len(cases)
        n_cases += B
        for c in cases:
            run.case(key=("gs", fj, jkey(c["rows"])), action="gram_schmidt_state")
        # rows multiplied by the exact positive factors the specification names: same normalised rows
        Xsc = X * np.array([[rat(x) for x in c["rowscale"]] for c in cases])[:, :, None]
        plans = [(tag, grid, X) for tag, grid in shapes_of(B)] + [("stack/rows scaled", None, Xsc)]
        for tag, grid, Xsrc in plans:
            if grid is None:
                Xs, Rs, cs = Xsrc, R, cases
            else:
                m = int(np.prod(grid))
                Xs, Rs, cs = Xsrc[:m], R[:m], cases[:m]
            shp = (len(cs),) if grid is None else grid
            # indefinite_orthogonalize
            out, err = call(U.indefinite_orthogonalize, F.copy(), Xs.reshape(shp + (k, n)).copy())
            run.evaluations += 1
            run.actions["indefinite_orthogonalize"] = run.actions.get("indefinite_orthogonalize", 0) + len(cs)
            if err:
                V.add("gs:%s:k=%d:%s" % (fj, k, tag), "orthogonalize.raised", dict(form=F.tolist(), k=k, shape=tag, error=err))
            else:
                out = np.asarray(out)
                if out.shape != shp + (k, n):
                    V.add("gs:%s:k=%d:%s" % (fj, k, tag), "orthogonalize.shape",
                          dict(form=F.tolist(), got=list(out.shape), want=list(shp + (k, n)), shape=tag))
                else:
                    check_orth(V, F, Xs, Rs, out.reshape((len(cs), k, n)), cs, tag)
            # find_isometry, free and oriented
            for fo in (False, True):
                out, err = call(U.find_isometry, F.copy(), Xs.reshape(shp + (k, n)).copy(), fo)
                run.evaluations += 1
                run.actions["find_isometry"] = run.actions.get("find_isometry", 0) + len(cs)
                if err:
                    V.add("iso:%s:k=%d:%s:fo=%s" % (fj, k, tag, fo), "find_isometry.raised",
                          dict(form=F.tolist(), k=k, shape=tag, force_oriented=fo, error=err, example_rows=cs[0]["rows"]))
                    continue
                out = np.asarray(out)
                if out.shape[:len(shp)] != shp or out.ndim != len(shp) + 2:
                    V.add("iso:%s:k=%d:%s" % (fj, k, tag), "find_isometry.shape",
                          dict(form=F.tolist(), k=k, got=list(out.shape), want=list(shp + (n, n)), shape=tag,
                               force_oriented=fo, example_rows=cs[0]["rows"]))
                    continue
                check_isometry(V, F, Xs, Rs, cs, fo, out.reshape((len(cs),) + out.shape[len(shp):]), tag)
            # orthogonal_complement
            out, err = call(U.orthogonal_complement, Xs.reshape(shp + (k, n)).copy(), F.copy())
            run.evaluations += 1
            run.actions["orthogonal_complement"] = run.actions.get("orthogonal_complement", 0) + len(cs)
            if err:
                V.add("compl:%s:k=%d:%s" % (fj, k, tag), "orthogonal_complement.raised",
                      dict(form=F.tolist(), k=k, shape=tag, error=err, example_rows=cs[0]["rows"]))
            else:
                out = np.asarray(out)
                if out.shape[:len(shp)] != shp or out.ndim != len(shp) + 2:
                    V.add("compl:%s:k=%d:%s" % (fj, k, tag), "orthogonal_complement.shape",
                          dict(form=F.tolist(), k=k, got=list(out.shape), want=list(shp + (n - k, n)), shape=tag,
                               example_rows=cs[0]["rows"]))
                else:
                    check_complement(V, F, Xs, cs, out.reshape((len(cs),) + out.shape[len(shp):]), tag)
        # single units (no batch axis), and the bare vector for k = 1
        for i in range(0, B, single_every):
            c = cases[i]
            x = X[i]
            variants = [("unit", x)]
            if k == 1:
                variants.append(("vector", x[0]))
            for tag, arr in variants:
                out, err = call(U.indefinite_orthogonalize, F.copy(), arr.copy())
                run.evaluations += 1
                if err:
                    V.add("gs:%s:%s:%s" % (fj, jkey(c["rows"]), tag), "orthogonalize.raised",
                          dict(form=c["F"], rows=c["rows"], shape=tag, error=err))
                elif np.asarray(out).shape != arr.shape:
                    V.add("gs:%s:%s:%s" % (fj, jkey(c["rows"]), tag), "orthogonalize.shape",
                          dict(form=c["F"], rows=c["rows"], shape=tag, got=list(np.asarray(out).shape)))
                else:
                    check_orth(V, F, X[i:i + 1], R[i:i + 1], np.asarray(out).reshape((1, k, n)), [c], tag)
                for fo in (False, True):
                    out, err = call(U.find_isometry, F.copy(), arr.copy(), fo)
                    run.evaluations += 1
                    if err:
                        V.add("iso:%s:%s:%s:fo=%s" % (fj, jkey(c["rows"]), tag, fo), "find_isometry.raised",
                              dict(form=c["F"], rows=c["rows"], shape=tag, force_oriented=fo, error=err))
                    elif np.asarray(out).ndim != 2:
                        V.add("iso:%s:%s:%s" % (fj, jkey(c["rows"]), tag), "find_isometry.shape",
                              dict(form=c["F"], rows=c["rows"], shape=tag, got=list(np.asarray(out).shape), want=[n, n]))
                    else:
                        check_isometry(V, F, X[i:i + 1], R[i:i + 1], [c], fo, np.asarray(out)[None], tag)
            if k < n and np.array_equal(F, np.eye(n)):
                check_definite(run, V, U, x, R[i], c)
            if i == 0 and k >= 2:
                run.sample(dict(kind="Gram-Schmidt state", form=c["F"], rows=c["rows"], w_num=c["wn"], w_den=c["wd"],
                                norm_num=c["nn"], signs=c["eps"], expected_rows=np.round(R[i], 6).tolist()))
    run.traces += n_cases
    return n_cases


# ----------------------------------------------------------------------------------------
# diagonalisation
# ----------------------------------------------------------------------------------------
def replay_forms(run, V, recs):
    U = utils_mod()
    forms = {}
    for c in recs:
        forms.setdefault(jkey(c["F"]), c)
    by_n = {}
    for fj, c in sorted(forms.items()):
        by_n.setdefault(c["n"], []).append(c)
    total = 0
    for n, cases in sorted(by_n.items()):
        # interleave signatures so that neighbouring batch entries differ
        cases = sorted(cases, key=lambda c: (hash_int(jkey(c["F"])), c["neg"]))
        Bm = np.array([c["F"] for c in cases], dtype=float)
        # each form multiplied by the exact positive factor the specification names: same signs, same orders
        Bsc = Bm * np.array([rat(c["fscale"]) for c in cases])[:, None, None]
        total += len(cases)
        for c in cases:
            run.case(key=("form", jkey(c["F"])), action="form_state")
        for mode in ("signed", "minkowski"):
            for rev in (False, True):
                want_sets = []
                for c in cases:
                    w = [c["signed"]] if mode == "signed" else c["minkowski"]
                    w = [list(reversed(s)) for s in w] if rev else [list(s) for s in w]
                    want_sets.append(w)
                for tag, grid in shapes_of(len(cases)) + [("unit", None), ("stack/forms scaled", None)]:
                    src = Bsc if tag.endswith("scaled") else Bm
                    if tag == "unit":
                        idxs = [[i] for i in range(0, len(cases), max(1, len(cases) // 40))]
                    elif grid is None:
                        idxs = [list(range(len(cases)))]
                    else:
                        idxs = [list(range(int(np.prod(grid))))]
                    for idx in idxs:
                        A = src[idx]
                        if tag == "unit":
                            arg = A[0]
                        elif grid is not None:
                            arg = A.reshape(grid + (n, n))
                        else:
                            arg = A
                        res, err = call(U.diagonalize_form, arg.copy(), order_eigenvalues=mode, reverse=rev)
                        run.evaluations += 1
                        run.actions["diagonalize_form"] = run.actions.get("diagonalize_form", 0) + len(idx)
                        key0 = "diag:%s:%s:rev=%s:%s" % (jkey(cases[idx[0]]["F"]), mode, rev, tag)
                        if err:
                            V.add(key0, "diagonalize.raised", dict(form=cases[idx[0]]["F"], mode=mode, reverse=rev, shape=tag, error=err))
                            continue
                        try:
                            W, Wi = res
                            W = np.asarray(W, dtype=float).reshape((-1, n, n))
                            Wi = np.asarray(Wi, dtype=float).reshape((-1, n, n))
                            assert W.shape[0] == len(idx) and np.asarray(res[0]).shape == arg.shape
                        except Exception:
                            V.add(key0, "diagonalize.shape", dict(form=cases[idx[0]]["F"], mode=mode, reverse=rev, shape=tag))
                            continue
                        W1, err = call(U.diagonalize_form, arg.copy(), order_eigenvalues=mode, reverse=rev, with_inverse=False)
                        with np.errstate(all="ignore"):
                            G = W.swapaxes(-1, -2) @ A @ W
                            wmax = np.abs(W).max(axis=(-1, -2))
                            scale = np.maximum(1.0, wmax ** 2 * np.abs(A).max(axis=(-1, -2)))
                            ok, sg = signs_of_gram(G, TOL * scale)
                            inv_ok = np.abs(W @ Wi - np.eye(n)).max(axis=(-1, -2)) <= TOL * np.maximum(1.0, wmax * np.abs(Wi).max(axis=(-1, -2)))
                            scale = np.maximum(1.0, wmax)
                            same_ok = np.ones(len(idx), dtype=bool)
                            if err is None:
                                try:
                                    same_ok = np.abs(np.asarray(W1, dtype=float).reshape((-1, n, n)) - W).max(axis=(-1, -2)) <= TOL * scale
                                except Exception:
                                    same_ok[:] = False
                            else:
                                same_ok[:] = False
                        order_ok = np.array([ok[j] and sg[j].tolist() in want_sets[i] for j, i in enumerate(idx)])
                        for mask, clause in ((ok, "diagonalize.WtBW_is_diag_pm1"), (order_ok, "diagonalize.sign_order"),
                                             (inv_ok, "diagonalize.inverse"), (same_ok, "diagonalize.with_inverse_false")):
                            for j in np.nonzero(~mask)[0][:2]:
                                c = cases[idx[j]]
                                V.add("diag:%s:%s:rev=%s:%s" % (jkey(c["F"]), mode, rev, "batch" if tag != "unit" else "unit"),
                                      clause,
                                      dict(form=c["F"], mode=mode, reverse=rev, shape=tag, position_in_batch=int(j),
                                           batch_size=len(idx), want_signs=want_sets[idx[j]],
                                           got_diag=np.round(np.diagonal(G[j]), 6).tolist()))
                            if (~mask).any():
                                break
        c = cases[len(cases) // 2]
        run.sample(dict(kind="form", form=c["F"], positive=c["pos"], negative=c["neg"], signed_order=c["signed"],
                        minkowski_orders=c["minkowski"]))
    run.traces += total
    return total


def hash_int(s):
    import hashlib
    return int.from_bytes(hashlib.blake2b(s.encode(), digest_size=4).digest(), "big")


# ----------------------------------------------------------------------------------------
# kernels
# ----------------------------------------------------------------------------------------
def replay_kernels(run, V, recs, single_every):
    U = utils_mod()
    groups = {}
    for c in recs:
        groups.setdefault((len(c["M"]), c["n"], c["dim"]), []).append(c)
    total = 0
    for (m, n, dim), cases in sorted(groups.items()):
        M = np.array([c["M"] for c in cases], dtype=float)
        # rows multiplied by the exact positive factors the specification names: same rank, same kernel
        Msc = M * np.array([[rat(x) for x in c["rowscale"]] for c in cases])[:, :, None]
        total += len(cases)
        for c in cases:
            run.case(key=("ker", jkey(c["M"])), action="kernel_state")
        variants = []
        for tag, grid in shapes_of(len(cases)):
            if grid is None:
                variants.append((tag, M, cases, (len(cases),)))
                variants.append((tag + "/rows scaled", Msc, cases, (len(cases),)))
            else:
                q = int(np.prod(grid))
                variants.append((tag, M[:q].reshape(grid + (m, n)), cases[:q], grid))
        # columns multiplied by Gaussian units u_j (1, i, -1, -i, ...): the kernel of M diag(u) is diag(u)^-1 ker M, so the
        # exact kernel of the complex matrix is the spec's integer basis times conj(u) (complex spans: Subspace.intersect
        # over C rests on this)
        units = np.array([1, 1j, -1, -1j, 1j, -1][:n] if n <= 6 else [1j ** k for k in range(n)], dtype=complex)
        variants.append(("vector/columns times Gaussian units", M * units, cases, (len(cases),)))
        for i in range(0, len(cases), single_every):
            variants.append(("unit/columns times Gaussian units", M[i] * units, cases[i:i + 1], ()))
            variants.append(("unit", M[i], cases[i:i + 1], ()))
            variants.append(("unit/rows scaled", Msc[i], cases[i:i + 1], ()))
        for tag, arg, cs, shp in variants:
            out, err = call(U.kernel, arg.copy())
            run.evaluations += 1
            run.actions["kernel"] = run.actions.get("kernel", 0) + len(cs)
            key0 = "ker:%s:%s" % (jkey(cs[0]["M"]), "batch" if not tag.startswith("unit") else "unit")
            if err:
                V.add(key0, "kernel.raised", dict(matrix=cs[0]["M"], shape=tag, batch=len(cs), error=err))
                continue
            out = np.asarray(out)
            if out.shape != shp + (n, dim):
                V.add(key0, "kernel.dimension",
                      dict(matrix=cs[0]["M"], shape=tag, got=list(out.shape), want=list(shp + (n, dim)), rank=cs[0]["rank"]))
                continue
            if dim == 0:
                continue
            K = out.reshape((-1, n, dim))
            A = np.asarray(arg).reshape((-1, m, n))
            with np.errstate(all="ignore"):
                # row by row, relative to the size of the row (a zero row gives exactly 0)
                ann = (np.abs(A @ K).max(axis=-1) <= 1e-8 * np.abs(A).max(axis=-1)).all(axis=-1)
                on = np.abs(K.conj().swapaxes(-1, -2) @ K - np.eye(dim)).max(axis=(-1, -2)) <= TOL
                # every vector of the exact integer basis lies in the span of the returned basis
                S = np.array([c["ker"] for c in cs], dtype=float)          # (B, dim, n)
                if "Gaussian" in tag:
                    S = S * units.conj()
                proj = (S @ K.conj()) @ K.swapaxes(-1, -2)
                span = np.abs(proj - S).max(axis=(-1, -2)) <= 1e-8 * np.maximum(1.0, np.abs(S).max(axis=(-1, -2)))
            for mask, clause in ((ann, "kernel.annihilated"), (on, "kernel.orthonormal"), (span, "kernel.spans_exact_kernel")):
                for j in np.nonzero(~mask)[0][:2]:
                    V.add("ker:%s:%s" % (jkey(cs[j]["M"]), "batch" if not tag.startswith("unit") else "unit"), clause,
                          dict(matrix=cs[j]["M"], shape=tag, row_factors=cs[j]["rowscale"], exact_kernel=cs[j]["ker"], got=np.round(K[j], 6).tolist()))
                if (~mask).any():
                    break
        c = cases[len(cases) // 2]
        run.sample(dict(kind="kernel", matrix=c["M"], rank=c["rank"], dim=c["dim"], exact_integer_basis=c["ker"]))
    run.traces += total
    return total


# ----------------------------------------------------------------------------------------
# spheres
# ----------------------------------------------------------------------------------------
def rat(x):
    return x[0] / x[1]


def replay_spheres(run, V, recs, single_every):
    """every point set is replayed as it is and as the similar copies c (P + shift) the specification names:
    for each factor c of its table (whole batch at that scale) and with the per-record factor (mixed batch:
    tiny, large and reflected spheres side by side).  Expected: centre c (centre + shift), radius |c| r,
    compared relative to |c| times the size of the unscaled configuration."""
    U = utils_mod()
    by_n = {}
    for c in recs:
        by_n.setdefault(c["n"], []).append(c)
    total = 0
    for n, cases in sorted(by_n.items()):
        B = len(cases)
        P0 = np.array([c["P"] for c in cases], dtype=float)                        # (B, n+1, n)
        C0 = np.array([[rat(x) for x in c["centre"]] for c in cases])            # exact rationals -> float
        R0 = np.array([math.sqrt(rat(c["r2"])) for c in cases])
        T = np.array([c["shift"] for c in cases], dtype=float)                    # exact integer shifts
        table = [rat(x) for x in cases[0]["scales"]]
        mixed = np.array([rat(c["scales"][c["si"] - 1]) for c in cases])
        total += B
        for c in cases:
            run.case(key=("sph", jkey(c["P"])), action="sphere_state")
        sims = [("as emitted", np.ones(B), np.zeros_like(T), "all")]
        sims += [("scale %g" % f, np.full(B, f), T, "few") for f in table if f != 1.0]
        sims += [("mixed scales", mixed, T, "all")]
        for sim, cv, tv, how in sims:
            P = cv[:, None, None] * (P0 + tv[:, None, :])
            C = cv[:, None] * (C0 + tv)
            Rr = np.abs(cv) * R0
            size = np.abs(cv) * np.maximum(1.0, np.maximum(R0, np.abs(P0 + tv[:, None, :]).max(axis=(-1, -2))))
            variants = []
            for tag, grid in shapes_of(B):
                if grid is None:
                    variants.append((tag, slice(None), (B,)))
                elif how == "all":
                    variants.append((tag, slice(0, int(np.prod(grid))), grid))
            for i in range(0, B, single_every * (1 if how == "all" else 5)):
                variants.append(("unit", slice(i, i + 1), ()))
            for tag, sl, shp in variants:
                cs = cases[sl]
                arg = P[sl].reshape(shp + (n + 1, n))
                fns = [("sphere_through", lambda a: U.sphere_through(a))]
                if n == 2:
                    fns.append(("circle_through", lambda a: U.circle_through(a[..., 0, :], a[..., 1, :], a[..., 2, :])))
                for name, fn in fns:
                    res, err = call(fn, arg.copy())
                    run.evaluations += 1
                    run.actions[name] = run.actions.get(name, 0) + len(cs)
                    kind = "batch" if tag != "unit" else "unit"
                    key0 = "sph:%s:%s:%s:%s" % (name, jkey(cs[0]["P"]), sim, kind)
                    if err:
                        V.add(key0, name + ".raised", dict(points=cs[0]["P"], similarity=sim, shape=tag, error=err))
                        continue
                    try:
                        ctr, rad = res
                        ctr = np.asarray(ctr, dtype=float)
                        rad = np.asarray(rad, dtype=float)
                        assert ctr.shape == shp + (n,) and rad.shape == shp
                    except Exception:
                        V.add(key0, name + ".shape", dict(points=cs[0]["P"], similarity=sim, shape=tag,
                                                          want_centre=list(shp + (n,)), want_radius=list(shp)))
                        continue
                    ctr = ctr.reshape((-1, n))
                    rad = rad.reshape((-1,))
                    with np.errstate(all="ignore"):
                        tol = 1e-8 * size[sl]
                        c_ok = np.abs(ctr - C[sl]).max(axis=-1) <= tol
                        r_ok = np.abs(rad - Rr[sl]) <= tol
                        # the statement itself: the sphere contains all the points
                        dist = np.linalg.norm(P[sl] - ctr[:, None, :], axis=-1)
                        on_ok = np.abs(dist - rad[:, None]).max(axis=-1) <= tol
                    for mask, clause in ((c_ok, name + ".centre"), (r_ok, name + ".radius"), (on_ok, name + ".contains_points")):
                        for j in np.nonzero(~mask)[0][:2]:
                            f = float(cv[sl][j])
                            V.add("sph:%s:%s:c=%g:%s" % (name, jkey(cs[j]["P"]), f, kind), clause,
                                  dict(points=cs[j]["P"], similarity=sim, factor=f, shift=cs[j]["shift"], shape=tag,
                                       exact_centre_unscaled=cs[j]["centre"], exact_r2_unscaled=cs[j]["r2"],
                                       want_centre=C[sl][j].tolist(), want_radius=float(Rr[sl][j]),
                                       got_centre=ctr[j].tolist(), got_radius=float(rad[j])))
                        if (~mask).any():
                            break
        c = cases[B // 2]
        run.sample(dict(kind="sphere", points=c["P"], exact_centre=c["centre"], exact_r2=c["r2"], shift=c["shift"],
                        factors=c["scales"], factor_in_mixed_batch=c["scales"][c["si"] - 1]))
    run.traces += total
    return total


# ----------------------------------------------------------------------------------------
# arcs
# ----------------------------------------------------------------------------------------
def same_angles(got, want):
    """equality of ordered angle pairs modulo 2 pi, compared through (cos, sin)"""
    return (np.abs(np.cos(got) - np.cos(want)).max(axis=-1) <= 1e-9) & (np.abs(np.sin(got) - np.sin(want)).max(axis=-1) <= 1e-9)


def replay_arcs(run, V, recs, single_every):
    U = utils_mod()
    total = 0
    half = recs[0]["half"]
    unit = math.pi / half
    rules = (("short_arc", "dshort", "short", False), ("right_to_left", "dr2l", "r2l", False),
             ("arc_include", "dinc", "inc", True))
    for name, dom, field, has_ref in rules:
        cs = [c for c in recs if c[dom]]
        if not cs:
            raise core.MachineryFailure("Arcs.tla: empty domain for " + name)
        total += len(cs)
        for c in cs:
            run.case(key=("arc", name, c["a"], c["b"], c["ref"] if has_ref else 0), action=name)
        T = np.array([[c["a"], c["b"]] for c in cs], dtype=float) * unit
        Rf = np.array([c["ref"] for c in cs], dtype=float) * unit
        Wt = np.array([c[field] for c in cs], dtype=float) * unit
        variants = []
        for tag, grid in shapes_of(len(cs)):
            if grid is None:
                variants.append((tag, slice(None), (len(cs),)))
            else:
                variants.append((tag, slice(0, int(np.prod(grid))), grid))
        for i in range(0, len(cs), single_every):
            variants.append(("unit", slice(i, i + 1), ()))
        for tag, sl, shp in variants:
            sub = cs[sl]
            th = T[sl].reshape(shp + (2,)).copy()
            before = th.copy()
            if has_ref:
                rf = Rf[sl].reshape(shp).copy() if shp else float(Rf[sl][0])
                out, err = call(U.arc_include, th, rf)
            else:
                out, err = call(getattr(U, name), th)
            run.evaluations += 1
            key0 = "arc:%s:%s:%s" % (name, jkey([sub[0]["a"], sub[0]["b"], sub[0]["ref"]]), "batch" if tag != "unit" else "unit")
            if err:
                V.add(key0, name + ".raised", dict(half=half, a=sub[0]["a"], b=sub[0]["b"], ref=sub[0]["ref"], shape=tag, error=err))
                continue
            out = np.asarray(out, dtype=float)
            if out.shape != th.shape:
                V.add(key0, name + ".shape", dict(shape=tag, got=list(out.shape), want=list(th.shape)))
                continue
            ok = same_angles(out.reshape((-1, 2)), Wt[sl])
            for j in np.nonzero(~ok)[0][:3]:
                c = sub[j]
                V.add("arc:%s:%s" % (name, jkey([c["a"], c["b"], c["ref"] if has_ref else 0])), name + ".order",
                      dict(unit="pi/%d" % half, a=c["a"], b=c["b"], ref=c["ref"] if has_ref else None, shape=tag,
                           want_mod_2pi=c[field], got_in_units=(out.reshape((-1, 2))[j] / unit).round(6).tolist()))
        c = cs[len(cs) // 3]
        run.sample(dict(kind=name, unit="pi/%d" % half, a=c["a"], b=c["b"], ref=c["ref"] if has_ref else None, expected_mod_2pi=c[field]))
    run.traces += total
    return total



# ----------------------------------------------------------------------------------------
# frame conditions (spec/num/Frames.tla): the helpers are queries on the caller's arrays
# ----------------------------------------------------------------------------------------
SENTINEL = 7.5


class Held:
    """a caller-owned argument in a given memory layout: .view is what is passed, .store is the memory the caller
    owns (the view and whatever surrounds it); .dirty() tells whether any byte of it changed"""

    def __init__(self, arr, layout):
        arr = np.array(arr, dtype=float)
        if layout == "transposed" and arr.ndim < 2:
            layout = "strided"
        if layout == "contiguous" or layout == "readonly":
            self.store = arr.copy()
            self.view = self.store
            if layout == "readonly":
                self.store.flags.writeable = False
        elif layout == "strided":
            self.store = np.full(arr.shape[:-1] + (2 * arr.shape[-1],), SENTINEL)
            self.store[..., ::2] = arr
            self.view = self.store[..., ::2]
        elif layout == "transposed":
            self.store = np.ascontiguousarray(arr.swapaxes(-1, -2))
            self.view = self.store.swapaxes(-1, -2)
        elif layout == "batch_slice":
            self.store = np.full((3,) + arr.shape, SENTINEL) if arr.ndim == 0 else None
            if self.store is None:
                pad = np.full((1,) + arr.shape[1:], SENTINEL) if arr.ndim >= 1 else None
                self.store = np.concatenate([pad, arr, pad], axis=0) if arr.shape[0] > 0 else arr.copy()
                self.view = self.store[1:-1]
            else:
                self.store[1] = arr
                self.view = self.store[1]
        else:
            raise core.MachineryFailure("unknown layout %r" % layout)
        self.snap = self.store.copy()
        if not np.array_equal(self.view, arr):
            raise core.MachineryFailure("layout %s does not present the intended array" % layout)

    def dirty(self):
        return self.store.tobytes() != self.snap.tobytes()


def unit_held(arr, layout):
    """a single unit (no batch axis): for batch_slice it is one entry of a caller-owned batch"""
    if layout != "batch_slice":
        return Held(arr, layout)
    h = Held(np.array(arr, dtype=float)[None], "contiguous")
    big = np.full((3,) + np.shape(arr), SENTINEL)
    big[1] = arr
    h.store, h.view, h.snap = big, big[1], big.copy()
    return h


def same_answer(a, b):
    fa = a if isinstance(a, tuple) else (a,)
    fb = b if isinstance(b, tuple) else (b,)
    if len(fa) != len(fb):
        return False
    for x, y in zip(fa, fb):
        x, y = np.asarray(x, dtype=float), np.asarray(y, dtype=float)
        if x.shape != y.shape or not np.allclose(x, y, rtol=1e-12, atol=1e-12, equal_nan=True):
            return False
    return True


def frame_inputs(forms, kern, sph, arcs, nb):
    """a few exact cases per family (a stack of nb units and one unit), from the records of the other modules"""
    out = {}
    # rows: groups with a proper complement, one per dimension, plus a full frame
    picked = []
    seen_n = set()
    groups = gs_groups(forms)
    for (n, k, fj), cases in sorted(groups.items()):
        if len(cases) >= 2 and ((k < n and (n, "part") not in seen_n and k >= 2) or (k == n and (n, "full") not in seen_n and n <= 3)):
            seen_n.add((n, "part" if k < n else "full"))
            picked.append((n, k, fj, cases[:nb]))
    out["rows"] = picked[:5]
    fm = {}
    for c in forms:
        fm.setdefault(jkey(c["F"]), c)
    by_n = {}
    for fj, c in sorted(fm.items()):
        by_n.setdefault(c["n"], []).append(c)
    out["form"] = [sorted(v, key=lambda c: hash_int(jkey(c["F"])))[:nb] for n, v in sorted(by_n.items()) if len(v) >= 2][:3]
    kg = {}
    for c in kern:
        kg.setdefault((len(c["M"]), c["n"], c["dim"]), []).append(c)
    out["matrix"] = [v[:nb] for key, v in sorted(kg.items()) if len(v) >= 2 and key[2] >= 1][:4]
    sg = {}
    for c in sph:
        sg.setdefault(c["n"], []).append(c)
    out["points"] = [v[len(v) // 3:len(v) // 3 + nb] for n, v in sorted(sg.items())]
    ok = [c for c in arcs if c["dshort"] and c["dr2l"] and c["dinc"]]
    out["angles"] = [ok[len(ok) // 4:len(ok) // 4 + nb], ok[len(ok) // 2:len(ok) // 2 + nb]] if len(ok) >= 2 * nb else []
    return out


def replay_frames(run, V, frames, inputs):
    U = utils_mod()
    n_hist = 0
    for fr in sorted(frames, key=lambda o: (o["fam"], o["layout"], o["hist"])):
        fam, layout, hist = fr["fam"], fr["layout"], fr["hist"]
        for cases in inputs.get(fam, []):
            if fam == "rows":
                n, k, fj, cases = cases
            if not cases:
                continue
            for unit in (False, True):
                cs = cases[:1] if unit else cases
                mk = unit_held if unit else Held
                pick = (lambda a: a[0]) if unit else (lambda a: a)
                bufs = {}
                if fam == "rows":
                    F = np.array(json.loads(fj), dtype=float)
                    X = np.array([c["rows"] for c in cs], dtype=float)
                    R = np.array([expected_rows(c) for c in cs])
                    bufs = dict(form=Held(F, layout), rows=mk(pick(X), layout))
                elif fam == "form":
                    Bm = np.array([c["F"] for c in cs], dtype=float)
                    bufs = dict(form=mk(pick(Bm), layout))
                elif fam == "matrix":
                    M = np.array([c["M"] for c in cs], dtype=float)
                    bufs = dict(matrix=mk(pick(M), layout))
                elif fam == "points":
                    P = np.array([c["P"] for c in cs], dtype=float)
                    bufs = dict(points=mk(pick(P), layout))
                elif fam == "angles":
                    half = cs[0]["half"]
                    T = np.array([[c["a"], c["b"]] for c in cs], dtype=float) * math.pi / half
                    Rf = np.array([c["ref"] for c in cs], dtype=float) * math.pi / half
                    bufs = dict(thetas=mk(pick(T), layout), reference=mk(pick(Rf), layout) if not unit else None)
                    if unit:
                        bufs.pop("reference")
                n_hist += 1
                run.case(key=("frame", fam, layout, tuple(hist), unit, jkey(cs[0].get("rows", cs[0].get("P", cs[0].get("M", cs[0].get("F", 0)))))),
                         action="history_on_caller_arrays")
                first = {}
                for pos, h in enumerate(hist):
                    if h == "circle_through" and cs[0]["n"] != 2:
                        continue
                    b = {name: x.view for name, x in bufs.items()}
                    if h == "indefinite_orthogonalize":
                        f = lambda: U.indefinite_orthogonalize(b["form"], b["rows"])
                    elif h in ("find_isometry", "find_isometry_oriented"):
                        f = lambda: U.find_isometry(b["form"], b["rows"], h.endswith("oriented"))
                    elif h == "orthogonal_complement":
                        f = lambda: U.orthogonal_complement(b["rows"], b["form"])
                    elif h == "diagonalize_signed":
                        f = lambda: U.diagonalize_form(b["form"])
                    elif h == "diagonalize_minkowski_reversed":
                        f = lambda: U.diagonalize_form(b["form"], order_eigenvalues="minkowski", reverse=True)
                    elif h == "kernel":
                        f = lambda: U.kernel(b["matrix"])
                    elif h == "sphere_through":
                        f = lambda: U.sphere_through(b["points"])
                    elif h == "circle_through":
                        f = lambda: U.circle_through(b["points"][..., 0, :], b["points"][..., 1, :], b["points"][..., 2, :])
                    elif h == "short_arc":
                        f = lambda: U.short_arc(b["thetas"])
                    elif h == "right_to_left":
                        f = lambda: U.right_to_left(b["thetas"])
                    elif h == "arc_include":
                        f = lambda: U.arc_include(b["thetas"], b["reference"] if "reference" in b else float(Rf[0]))
                    else:
                        raise core.MachineryFailure("Frames.tla names an unknown helper %r" % h)
                    out, err = call(f)
                    run.evaluations += 1
                    run.actions["history:" + h] = run.actions.get("history:" + h, 0) + 1
                    hname = h.replace("_oriented", "").replace("diagonalize_signed", "diagonalize_form").replace("diagonalize_minkowski_reversed", "diagonalize_form")
                    ctx = dict(helper=h, layout=layout, history=hist, call_number=pos + 1, single_unit=unit,
                               first_case={k2: cs[0][k2] for k2 in ("F", "rows", "M", "P", "a", "b", "ref") if k2 in cs[0]})
                    if err:
                        V.add("frame:%s:%s:raised" % (hname, layout), hname + ".raised_on_caller_array", dict(error=err, **ctx))
                    for name, x in bufs.items():
                        if x.dirty():
                            V.add("frame:%s:%s:%s" % (hname, layout, name), hname + ".input_unchanged",
                                  dict(argument=name, before=x.snap.tolist() if x.snap.size <= 60 else "(%d entries)" % x.snap.size,
                                       after=x.store.tolist() if x.store.size <= 60 else None, **ctx))
                            x.snap = x.store.copy()          # report each overwrite once, go on with what the caller now holds
                    if err:
                        continue
                    if h in first and not same_answer(first[h], out):
                        V.add("frame:%s:%s:repeat" % (hname, layout), hname + ".repeatable", dict(**ctx))
                    first.setdefault(h, out)
                    # the answer is still the exact one (checked on the first and on the last call of the history)
                    if pos in (0, len(hist) - 1):
                        B1 = len(cs)
                        tag = "history/%s/%s" % (layout, "unit" if unit else "stack")
                        o = out
                        try:
                            if fam == "rows":
                                if h == "indefinite_orthogonalize":
                                    check_orth(V, F, X, R, np.asarray(o).reshape((B1, k, n)), cs, tag)
                                elif h == "orthogonal_complement":
                                    check_complement(V, F, X, cs, np.asarray(o).reshape((B1,) + np.asarray(o).shape[-2:]), tag)
                                else:
                                    check_isometry(V, F, X, R, cs, h.endswith("oriented"), np.asarray(o).reshape((B1,) + np.asarray(o).shape[-2:]), tag)
                            elif fam == "form":
                                W = np.asarray(o[0]).reshape((B1,) + Bm.shape[-2:])
                                G = W.swapaxes(-1, -2) @ Bm @ W
                                sc = np.maximum(1.0, np.abs(W).max(axis=(-1, -2)) ** 2 * np.abs(Bm).max(axis=(-1, -2)))
                                ok, sg = signs_of_gram(G, TOL * sc)
                                for i in np.nonzero(~ok)[0][:1]:
                                    V.add("frame:diag:%s" % jkey(cs[i]["F"]), "diagonalize.WtBW_is_diag_pm1", dict(form=cs[i]["F"], **ctx))
                                for i in np.nonzero(ok)[0]:
                                    want = cs[i]["signed"] if h == "diagonalize_signed" else None
                                    wants = [want] if want else [list(reversed(x)) for x in cs[i]["minkowski"]]
                                    if sg[i].tolist() not in wants:
                                        V.add("frame:diag:%s" % jkey(cs[i]["F"]), "diagonalize.sign_order", dict(form=cs[i]["F"], got=sg[i].tolist(), want=wants, **ctx))
                                        break
                            elif fam == "matrix":
                                K = np.asarray(o).reshape((B1, cs[0]["n"], cs[0]["dim"]))
                                if not (np.abs(M @ K).max() <= 1e-8 * max(1.0, np.abs(M).max()) and np.abs(K.swapaxes(-1, -2) @ K - np.eye(cs[0]["dim"])).max() <= TOL):
                                    V.add("frame:kernel:%s" % jkey(cs[0]["M"]), "kernel.annihilated", dict(**ctx))
                            elif fam == "points":
                                ctr = np.asarray(o[0], dtype=float).reshape((B1, -1))
                                rad = np.asarray(o[1], dtype=float).reshape((B1,))
                                C0 = np.array([[rat(x) for x in c["centre"]] for c in cs])
                                R0 = np.array([math.sqrt(rat(c["r2"])) for c in cs])
                                held_now = np.asarray(bufs["points"].view, dtype=float).reshape(P.shape if not unit else P[:1].shape)
                                dist = np.linalg.norm(held_now - ctr[:, None, :], axis=-1)
                                tol = 1e-8 * np.maximum(1.0, R0)
                                if not ((np.abs(ctr - C0).max(axis=-1) <= tol).all() and (np.abs(rad - R0) <= tol).all()):
                                    V.add("frame:%s:%s:value" % (h, layout), h + ".centre", dict(want_centre=C0[0].tolist(), got_centre=ctr[0].tolist(), **ctx))
                                elif not (np.abs(dist - rad[:, None]).max(axis=-1) <= tol).all():
                                    # the statement itself, on the points the caller holds NOW
                                    V.add("frame:%s:%s:contains" % (h, layout), h + ".contains_points", dict(points_the_caller_holds=held_now[0].tolist(), centre=ctr[0].tolist(), radius=float(rad[0]), **ctx))
                            elif fam == "angles":
                                field = dict(short_arc="short", right_to_left="r2l", arc_include="inc")[h]
                                want = np.array([c[field] for c in cs], dtype=float) * math.pi / cs[0]["half"]
                                if not same_angles(np.asarray(o, dtype=float).reshape((B1, 2)), want).all():
                                    V.add("frame:%s:%s:value" % (h, layout), h + ".order", dict(**ctx))
                        except Exception as e:
                            V.add("frame:%s:%s:shape" % (hname, layout), hname + ".shape_in_history", dict(error="%s: %s" % (type(e).__name__, e), **ctx))
    run.traces += n_hist
    return n_hist


# ----------------------------------------------------------------------------------------
def run(run, replay=None):
    if replay:
        # a replay file names the failing input; the check is deterministic for a given (tier, seed),
        # so re-executing that tier and seed re-executes exactly that behaviour
        with open(replay) as f:
            rp = json.load(f)
        run.tier = rp.get("tier", run.tier)
        run.seed = rp.get("seed", run.seed)
        print("replaying tier=%s seed=%s; recorded first violation: %s" % (run.tier, run.seed, json.dumps(rp.get("first"))[:400]))
    quick = run.tier == "quick"
    run.rule = ("a case is one OBS record (one TLC state: form / form+rows / matrix / point set / angle triple) replayed "
                "through every helper it is in the domain of, in 2-4 batch shapes; distinct_nontrivial counts distinct "
                "records; evaluations counts library calls (a stacked call covers a whole group of records)")
    run.assumptions += [
        "forms: diag(+-1) of every signature and sign order, n <= 6, their images under elementary integer congruences with "
        "entries bounded by FormRng (|det| = 1), and every symmetric integer matrix with entries in [-3, 3] (n = 2), [-1, 1] "
        "(n = 3; [-2, 2] thorough, n = 4 sampled) whose leading minors are all non-zero",
        "rows: integer, entries in [-Rng, Rng], every leading Gram minor non-zero, orthonormalised entries <= CondK = 50 "
        "(the bounded-condition clause); exhaustive for n <= 3, TLC simulation (seeded) for n = 4..6",
        "kernel: integer matrices with entries in [-1, 1] or [-2, 2], all ranks including rank-deficient, tall and zero rows; "
        "a batch holds matrices of equal rank (the function's documented matching_rank mode)",
        "spheres: n = 2, 3 (4 thorough); arcs: angles on the grid pi/12 (and pi/24 thorough), ties excluded",
        "scale covariance: spheres at factors 1e-6, 1e-3, 1e3, -1e-3 after an integer shift (no cancellation is introduced: the "
        "shift is applied before the factor), rows and forms at positive factors 1e-3, 1e3; kernel factors stay far above the "
        "function's documented singular-value tolerance 1e-8",
        "frame conditions: histories on 6-unit stacks and single units of a few exact cases per family; float64 buffers only",
        "tolerance 1e-9 (1e-8 for kernels and spheres) times the squared size of the compared rows; SVD/eigh-dependent rows are bound by laws only",
    ]
    W = 3 if quick else 4
    if quick:
        jobs = [
            forms_job("forms_n2", 2, 2, 2, rat=True, workers=2),
            forms_job("forms_n3_rows2", 3, 1, 2, rat=True, workers=W),
            forms_job("forms_n3_sim", 3, 1, 3, workers=W, simulate=60, depth=6),
            forms_job("forms_n3_cong", 3, 1, 2, mincong=2, maxcong=2, formrng=2, workers=W, simulate=30, depth=8),
            forms_job("forms_n3_walk", 3, 1, 0, maxcong=3, formrng=2, workers=W),
            forms_job("forms_sym_n2", 2, 1, 0, formrng=3, workers=2, init="InitSym"),
            forms_job("forms_sym_n3_sim", 3, 1, 3, formrng=1, workers=W, simulate=40, depth=5, init="InitSym"),
            forms_job("forms_n4_sim", 4, 2, 4, supp=3, workers=W, simulate=40, depth=8),
            forms_job("forms_n5_sim", 5, 1, 5, supp=4, mincong=0, maxcong=0, workers=W, simulate=25, depth=8),
            forms_job("forms_n6_sim", 6, 1, 6, supp=3, workers=W, simulate=12, depth=10),
            forms_job("forms_n6_cong", 6, 1, 3, supp=3, mincong=3, maxcong=3, formrng=2, workers=W, simulate=10, depth=10),
            kernel_job("kernel_n2", 2, 1, 3, workers=2),
            kernel_job("kernel_n3", 3, 1, 3, supp=2, workers=W),
            kernel_job("kernel_n5_sim", 5, 1, 6, supp=3, workers=W, simulate=60, depth=8),
            sphere_job("sphere_n2_box", 2, 2, False, workers=W),
            sphere_job("sphere_n2_shell", 2, 0, True, 25, 5, workers=2),
            sphere_job("sphere_n3_shell", 3, 1, True, 9, 3, workers=W, simulate=12, depth=6),
            arcs_job("arcs_12", 12, workers=W),
            frames_job("frames", 2),
        ]
        single_every = 23
        parallel = 6
    else:
        jobs = [
            forms_job("forms_n2", 2, 3, 2, rat=True, workers=W),
            forms_job("forms_n3", 3, 1, 3, rat=True, workers=8, scale_thm=False),     # RowScaleInvariant: see forms_n3_cong, sims
            forms_job("forms_n3_cong", 3, 1, 2, mincong=1, maxcong=1, formrng=1, workers=8),
            forms_job("forms_n3_walk", 3, 1, 0, maxcong=99, formrng=2, workers=W),
            forms_job("forms_n4_walk", 4, 1, 0, maxcong=2, formrng=1, workers=8),
            forms_job("forms_sym_n2", 2, 1, 2, formrng=3, workers=W, init="InitSym"),
            forms_job("forms_sym_n3", 3, 1, 1, formrng=1, workers=W, init="InitSym"),
            forms_job("forms_sym_n3_r2", 3, 1, 0, formrng=2, workers=W, init="InitSym"),
            forms_job("forms_sym_n3_sim", 3, 1, 3, formrng=1, workers=W, simulate=400, depth=5, init="InitSym"),
            forms_job("forms_n4_sim", 4, 2, 4, workers=W, simulate=400, depth=8),
            forms_job("forms_n4_cong", 4, 1, 4, mincong=3, maxcong=3, formrng=2, workers=W, simulate=300, depth=10),
            forms_job("forms_n5_sim", 5, 1, 5, workers=W, simulate=300, depth=8),
            forms_job("forms_n5_cong", 5, 1, 5, supp=3, mincong=4, maxcong=4, formrng=2, workers=W, simulate=100, depth=12),
            forms_job("forms_n6_sim", 6, 1, 6, supp=4, workers=W, simulate=150, depth=10),
            forms_job("forms_n6_cong", 6, 1, 6, supp=3, mincong=4, maxcong=4, formrng=2, workers=W, simulate=50, depth=14),
            kernel_job("kernel_n2", 2, 2, 3, workers=W),
            kernel_job("kernel_n3", 3, 1, 4, supp=2, workers=8),
            kernel_job("kernel_n3_full", 3, 1, 3, workers=W),
            kernel_job("kernel_n4_sim", 4, 2, 6, workers=W, simulate=400, depth=8),
            kernel_job("kernel_n6_sim", 6, 1, 7, supp=3, workers=W, simulate=300, depth=9),
            sphere_job("sphere_n2_box", 2, 3, False, workers=8),
            sphere_job("sphere_n2_shell", 2, 1, True, 25, 5, workers=W),
            sphere_job("sphere_n3_box", 3, 1, False, workers=W, simulate=500, depth=6),
            sphere_job("sphere_n3_shell", 3, 1, True, 9, 3, workers=W, simulate=120, depth=6),
            sphere_job("sphere_n4_shell", 4, 1, True, 4, 2, workers=W, simulate=40, depth=7),
            arcs_job("arcs_12", 12, workers=W),
            arcs_job("arcs_24", 24, workers=8),
            frames_job("frames", 3),
        ]
        single_every = 17
        parallel = 5
    import time
    t0 = time.time()
    recs = run_jobs(run, jobs, parallel)
    t_tlc = time.time() - t0
    V = Viol(run)
    forms = [o for k, v in recs.items() if k.startswith("forms") for o in v]
    kern = [o for k, v in recs.items() if k.startswith("kernel") for o in v]
    sph = [o for k, v in recs.items() if k.startswith("sphere") for o in v]
    n_gs = replay_gs(run, V, forms, single_every)
    n_forms = replay_forms(run, V, forms)
    n_ker = replay_kernels(run, V, kern, single_every)
    n_sph = replay_spheres(run, V, sph, single_every)
    n_arc = 0
    for k, v in sorted(recs.items()):
        if k.startswith("arcs"):
            n_arc += replay_arcs(run, V, v, single_every)
    if os.environ.get("C18_DIAG"):
        print("C18 phases: tlc %.1fs replay %.1fs; %s" % (t_tlc, time.time() - t0 - t_tlc,
              ", ".join("%s=%.1fs/%d" % (d["run"], d["wall_s"], d["distinct"]) for d in run.tlc_runs)))
    arcs12 = recs.get("arcs_12", [])
    n_frames = replay_frames(run, V, recs["frames"], frame_inputs(forms, kern, sph, arcs12, 6))
    run.extra["histories_on_caller_arrays"] = n_frames
    run.extra["phase_wall_s"] = dict(tlc=round(t_tlc, 1), replay=round(time.time() - t0 - t_tlc, 1))
    run.extra["records"] = dict(gram_schmidt_states=n_gs, forms=n_forms, kernels=n_ker, spheres=n_sph, arc_cases=n_arc)
    run.extra["violations_by_clause_family"] = dict(V.count)
