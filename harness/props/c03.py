"""C03 — applying transformations is a left group action on every kind of object.

spec/hyp/HypAction.tla: objects of eleven classes with exact integer data, the action defined
from the geometry, TLC checks ActionLaw / IdentityLaw / InverseActs / derived-data
compatibility on every (object, A, B) of the universe and emits each case with the exact
images.  spec/proj/ProjAction.tla: the same for general (non-isometric) integer matrices on
the projective classes, inverse = adjugate.  Conformance: for every case the library
computes (A @ B) @ X, A @ (B @ X), identity @ X, A.inv() @ (A @ X), on unit objects and on
composite stacks, and each result must have the type and shape of X and equal the spec's
exact image, primary and derived data, projectively.  Representation clause: words of a
projective / hyperbolic representation act on points as the exact product matrix.

Further parts (each a TLA+ module of its own, replayed by a helper module under harness/):
  proj/ActShapes.tla    -> c03_shapes: composite X of shape sx, composite T of shape st, the three broadcasting
                           modes, all pairs of ranks 0..2; every entry of the result against the exact image
  proj/NearIdentity.tla -> c03_near: one-parameter families as polynomial matrices, parameter 1e-9..1e-3; the
                           library must reproduce the exact DISPLACEMENT (relative comparison)
  proj/RepAction.tla, hyp/HypRepAction.tla, lib/ActWords.tla -> c03_rep: every word of length <= 3 and every
                           list of <= 3 words (repeats included) of a representation, per storage type
  proj/ProjAction.tla   -> props/c03_proj: complex (Gaussian) 2x2 / 3x3 transformations incl. unitary and
                           complex-orthogonal classes in every representative the spec names; stacks
"""
import json
import random

import numpy as np

from .. import core
from .. import hyp_common as hc

TOL = 1e-9
POINTLIKE = ("point", "dualpoint", "idealpoint", "ppoint")


def arr(rows):
    return np.array(rows, dtype=float)


def build(cls, o):
    """spec object -> library object"""
    H = hc.H()
    from geometry_tools import projective as P
    rows = arr(o["rows"]) if o["rows"] else None
    if cls == "point":
        return H.Point(rows[0])
    if cls == "dualpoint":
        return H.DualPoint(rows[0])
    if cls == "idealpoint":
        return H.IdealPoint(rows[0])
    if cls == "ppoint":
        return P.Point(rows[0])
    if cls == "pair":
        return H.PointPair(rows)
    if cls == "segment":
        return H.Segment(rows)
    if cls == "geodesic":
        return H.Geodesic(rows)
    if cls == "polygon":
        return H.Polygon(rows)
    if cls == "simplex":
        return P.Simplex(rows)
    if cls == "tangent":
        return H.TangentVector(H.Point(rows[0]), arr(o["vec"]))
    if cls == "horosphere":
        return H.Horosphere(rows[0], rows[1])
    if cls == "hyperplane":
        return H.Hyperplane(rows[0])
    if cls == "subspace":
        return H.Subspace(rows)
    if cls == "isometry":
        return H.Isometry(hc.spec_matrix(o["h"]), column_vectors=True)
    raise KeyError(cls)


def null_and_orth(rows, normal, tol=1e-8):
    for r in rows:
        nr = (r ** 2).sum()
        if abs(hc.mink(r, r)) > tol * nr or abs(hc.mink(r, normal)) > tol * np.sqrt(nr * (normal ** 2).sum()):
            return False
    return True


def same(lib, cls, spec, typ, shape):
    """compare a library object with a spec object; returns None or (clause, detail)"""
    if type(lib) is not typ:
        return ("type", "result type %s, expected %s" % (type(lib).__name__, typ.__name__))
    if tuple(lib.shape) != tuple(shape):
        return ("shape", "result shape %r, expected %r" % (lib.shape, shape))
    pd = np.asarray(lib.proj_data, float)
    if cls == "isometry":
        if not hc.mat_proj_close(np.swapaxes(pd, -1, -2), hc.spec_matrix(spec["h"]), TOL):
            return ("matrix", "%r vs spec %r" % (np.round(pd.T, 6).tolist(), spec["h"]))
        return None
    rows = arr(spec["rows"])
    if cls in POINTLIKE:
        return None if hc.proj_close(pd, rows[0], TOL) else ("point", "%r vs %r" % (pd.tolist(), rows[0].tolist()))
    if cls == "hyperplane":
        if not hc.proj_close(pd[0], rows[0], 1e-8):
            return ("hyperplane.normal", "%r vs %r" % (pd[0].tolist(), rows[0].tolist()))
        if not null_and_orth(pd[1:], pd[0]) or np.linalg.matrix_rank(pd[1:], tol=1e-7) != pd.shape[-1] - 1:
            return ("hyperplane.ideal_basis", "%r" % (pd[1:].tolist(),))
        return None
    if cls == "tangent":
        if not hc.proj_close(pd[0], rows[0], TOL):
            return ("tangent.basepoint", "%r vs %r" % (pd[0].tolist(), rows[0].tolist()))
        c = float(np.dot(pd[0], rows[0]))          # sign of the representative
        aux = np.asarray(lib.aux_data, float)
        v = aux[1] * np.sign(c)
        w = arr(spec["vec"])
        cosang = np.dot(v, w) / (np.linalg.norm(v) * np.linalg.norm(w))
        if not (hc.proj_close(aux[0], rows[0], TOL) and abs(cosang - 1) <= 1e-9):
            return ("tangent.direction", "aux %r vs spec point %r vec %r" % (aux.tolist(), rows[0].tolist(), w.tolist()))
        return None
    if pd.shape != rows.shape:
        return ("rows.shape", "%r vs %r" % (pd.shape, rows.shape))
    for i in range(len(rows)):
        if not hc.proj_close(pd[i], rows[i], TOL):
            return ("row[%d]" % i, "%r vs %r" % (pd[i].tolist(), rows[i].tolist()))
    if cls == "segment":
        aux = np.asarray(lib.aux_data, float)
        ends = arr(spec["ends"])
        ok = aux.shape == ends.shape and (
            (hc.proj_close(aux[0], ends[0], 1e-8) and hc.proj_close(aux[1], ends[1], 1e-8)) or
            (hc.proj_close(aux[0], ends[1], 1e-8) and hc.proj_close(aux[1], ends[0], 1e-8)))
        if not ok:
            return ("segment.ideal_endpoints", "%r vs %r" % (aux.tolist(), ends.tolist()))
    if cls == "polygon":
        aux = np.asarray(lib.aux_data, float)
        k = len(rows)
        if aux.shape != (k, 2, rows.shape[-1]):
            return ("polygon.edges.shape", "%r" % (aux.shape,))
        for i in range(k):
            if not (hc.proj_close(aux[i, 0], rows[i], TOL) and hc.proj_close(aux[i, 1], rows[(i + 1) % k], TOL)):
                return ("polygon.edge[%d]" % i, "%r vs (%r, %r)" % (aux[i].tolist(), rows[i].tolist(), rows[(i + 1) % k].tolist()))
    return None


def replay_cases(run, emits, n):
    H = hc.H()
    ident = H.identity(n)
    for e in emits:
        o, cls = e["obj"], e["obj"]["cls"]
        key = "act:%s:%s:A=%s:B=%s" % (cls, json.dumps(o.get("rows")), json.dumps(e["A"]), json.dumps(e["B"]))
        run.case(key=None, action="act:" + cls)
        try:
            X = build(cls, o)
            A = H.Isometry(hc.spec_matrix(e["A"]), column_vectors=True)
            Bi = H.Isometry(hc.spec_matrix(e["B"]), column_vectors=True)
            typ, shape = type(X), X.shape
            results = [("(A@B)@X", (A @ Bi) @ X, e["img"]), ("A@(B@X)", A @ (Bi @ X), e["img"]),
                       ("A@X", A @ X, e["imgA"]), ("I@X", ident @ X, o), ("A.inv()@(A@X)", A.inv() @ (A @ X), o)]
            bad = None
            for name, lib, spec in results:
                bad = same(lib, cls, spec, typ, shape)
                if bad:
                    bad = (name + ":" + bad[0], bad[1])
                    break
        except Exception as ex:
            bad = ("raised", "%s: %s" % (type(ex).__name__, ex))
        if bad:
            run.violation(key, bad[0], dict(obj=o, A=e["A"], B=e["B"], observed=bad[1]))
    run.traces += len(emits)
    run.nontrivial_count += len(emits)


def replay_composites(run, emits, n, rng):
    """stacks of unit objects of one class transformed by one unit isometry: result keeps type and composite
    shape, unit i is the image of unit i"""
    H = hc.H()
    from geometry_tools import projective as P
    groups = {}
    for e in emits:
        o = e["obj"]
        if o["cls"] in ("isometry", "hyperplane"):
            continue
        groups.setdefault((o["cls"], len(o["rows"]), json.dumps(e["A"])), {})[json.dumps(o, sort_keys=True)] = e
    for (cls, k, Aj), d in sorted(groups.items()):
        es = list(d.values())
        if len(es) < 2:
            continue
        es = es[:4]
        for shape in ((len(es),), (1, len(es)), (len(es), 1)) if len(es) < 4 else ((4,), (2, 2), (4, 1), (1, 4, 1)):
            run.case(key=None, action="act_composite:" + cls)
            try:
                units = [build(cls, e["obj"]) for e in es]
                X = type(units[0])(units) if cls != "tangent" else H.TangentVector(
                    np.array([u.proj_data for u in units]))
                X = X.reshape(shape)
                A = H.Isometry(hc.spec_matrix(es[0]["A"]), column_vectors=True)
                R = A @ X
                bad = None
                if type(R) is not type(X) or tuple(R.shape) != shape:
                    bad = ("composite.type_shape", "%s %r" % (type(R).__name__, R.shape))
                else:
                    Rf = R.flatten_to_unit()
                    for i, e in enumerate(es):
                        b = same(Rf[i], cls, e["imgA"], type(units[0]), ())
                        if b:
                            bad = ("composite[%d]:%s" % (i, b[0]), b[1])
                            break
            except Exception as ex:
                bad = ("raised:composite", "%s: %s" % (type(ex).__name__, ex))
            if bad:
                run.violation("composite:%s:%s:%r" % (cls, Aj, shape), bad[0], dict(cls=cls, shape=shape, A=json.loads(Aj),
                                                                                    units=[e["obj"] for e in es], observed=bad[1]))


def replay_variants(run, emits, n):
    """(a) objects built from INTEGER arrays (the spec's data are integers) must transform like their floating-point
    twins; (b) mixing projective.Transformation and hyperbolic.Isometry: the result has the type of X;
    (c) an ill-conditioned loxodromic (lambda = 5^6, condition number 2.4e8): A.inv() @ (A @ X) == X"""
    H = hc.H()
    from geometry_tools import projective as P
    seen = set()
    for e in emits:
        o, cls = e["obj"], e["obj"]["cls"]
        k = (cls, json.dumps(o.get("rows")), json.dumps(e["A"]))
        if k in seen or cls in ("isometry", "hyperplane", "tangent", "segment", "horosphere"):
            continue
        seen.add(k)
        run.case(key=None, action="act_integer_data:" + cls)
        try:
            rows = np.array(o["rows"], dtype=np.int64)
            ctor = {"point": lambda: H.Point(rows[0]), "dualpoint": lambda: H.DualPoint(rows[0]),
                    "idealpoint": lambda: H.IdealPoint(rows[0]), "ppoint": lambda: P.Point(rows[0]), "pair": lambda: H.PointPair(rows), "geodesic": lambda: H.Geodesic(rows),
                    "polygon": lambda: H.Polygon(rows), "simplex": lambda: P.Simplex(rows), "subspace": lambda: H.Subspace(rows)}[cls]
            X = ctor()
            A = H.Isometry(hc.spec_matrix(e["A"]), column_vectors=True)
            bad = same(A @ X, cls, e["imgA"], type(X), X.shape)
            if not bad:
                bad = same(A.inv() @ (A @ X), cls, o, type(X), X.shape)
        except Exception as ex:
            bad = ("raised", "%s: %s" % (type(ex).__name__, ex))
        if bad:
            run.violation("act_int:%s:%s:%s" % k, "integer_data:" + bad[0], dict(obj=o, A=e["A"], observed=bad[1]))
    # (b) type of the result when the two transformation classes are mixed
    isos = [e for e in emits if e["obj"]["cls"] == "isometry"][:12]
    for e in isos:
        run.case(key=None, action="mixed_transformation_classes")
        try:
            MA, MX = hc.spec_matrix(e["A"]), hc.spec_matrix(e["obj"]["h"])
            combos = (("Transformation@Isometry", P.Transformation(MA, column_vectors=True), H.Isometry(MX, column_vectors=True)),
                      ("Isometry@Transformation", H.Isometry(MA, column_vectors=True), P.Transformation(MX, column_vectors=True)),
                      ("identity(projective)@Isometry", P.identity(n), H.Isometry(MX, column_vectors=True)))
            bad = None
            for nm, A, X in combos:
                R = A @ X
                want = MA @ MX if "identity" not in nm else MX
                if type(R) is not type(X):
                    bad = (nm + ":type", "result is %s, X is %s" % (type(R).__name__, type(X).__name__))
                elif not hc.mat_proj_close(np.asarray(R.matrix, float).T, want, TOL):
                    bad = (nm + ":matrix", "%r" % (np.round(np.asarray(R.matrix, float).T, 6).tolist(),))
                if bad:
                    break
        except Exception as ex:
            bad = ("raised:mixed", "%s: %s" % (type(ex).__name__, ex))
        if bad:
            run.violation("mixed:%s:%s" % (json.dumps(e["A"]), json.dumps(e["obj"]["h"])), bad[0], dict(A=e["A"], X=e["obj"]["h"], observed=bad[1]))
    # (c) ill-conditioned but perfectly invertible isometry: the exact standard loxodromic of parameter 5^6 (spec Lox(15625, 1))
    p = 15625
    L = np.eye(n + 1)
    L[0, 0] = L[1, 1] = (p * p + 1) / (2.0 * p)
    L[0, 1] = L[1, 0] = (p * p - 1) / (2.0 * p)
    for e in [e for e in emits if e["obj"]["cls"] in ("point", "polygon", "pair")][:40]:
        run.case(key=None, action="ill_conditioned_inverse")
        try:
            A = H.Isometry(L.copy(), column_vectors=True)
            A2 = H.Isometry.standard_loxodromic(n, 5.0)
            for _ in range(5):
                A2 = A2 @ H.Isometry.standard_loxodromic(n, 5.0)
            X = build(e["obj"]["cls"], e["obj"])
            bad = None
            for nm, T in (("exact lambda=5^6", A), ("standard_loxodromic(5)^6", A2)):
                back = T.inv() @ (T @ X)
                # rounding ~ eps * cond(A) = 5e-8: compare at 1e-5
                pd, rows = np.asarray(back.proj_data, float).reshape(-1, n + 1), np.array(e["obj"]["rows"], float)
                if not all(hc.proj_close(pd[i], rows[i], 1e-5) for i in range(len(rows))):
                    bad = ("ill_conditioned.inverse:" + nm, "%r vs %r" % (pd.tolist(), rows.tolist()))
                    break
        except Exception as ex:
            bad = ("raised:ill_conditioned", "%s: %s" % (type(ex).__name__, ex))
        if bad:
            run.violation("illcond:%s:%s" % (e["obj"]["cls"], json.dumps(e["obj"]["rows"])), bad[0], dict(obj=e["obj"], observed=bad[1]))
            break


def replay_transformation_histories(run, emits, n):
    """the inverse clause along a HISTORY of the same (composite) transformation object: inv(), in-place
    item assignment, inv() again - A.inv() @ (A @ X) must equal X for the transformation as it is NOW"""
    H = hc.H()
    pairs = {}
    for e in emits:
        if e["obj"]["cls"] in ("point", "polygon", "segment") and e["A"] != e["B"]:
            pairs.setdefault((json.dumps(e["A"]), json.dumps(e["B"]), e["obj"]["cls"]), e)
    for (Aj, Bj, cls), e in sorted(pairs.items()):
        run.case(key=None, action="transformation_history")
        try:
            MA, MB = hc.spec_matrix(json.loads(Aj)), hc.spec_matrix(json.loads(Bj))
            T = H.Isometry(np.array([MA, MB]), column_vectors=True)        # composite [A, B]
            X = build(cls, e["obj"])
            X2 = type(X)([X, X]) if cls != "tangent" else None
            first = T.inv() @ (T @ X2)
            T[0] = H.Isometry(MB, column_vectors=True)                      # now [B, B]
            T[1] = H.Isometry(MA, column_vectors=True)                      # now [B, A]
            back = T.inv() @ (T @ X2)
            bad = None
            for lib, nm in ((first, "before_edit"), (back, "after_setitem")):
                for i in range(2):
                    b = same(lib.flatten_to_unit()[i], cls, e["obj"], type(X), ())
                    if b:
                        bad = ("inv_history.%s[%d]:%s" % (nm, i, b[0]), b[1])
                        break
                if bad:
                    break
            if not bad:
                img = (T @ X2).flatten_to_unit()
                # T is [B, A] now: unit 1 must be the image under A
                b = same(img[1], cls, e["imgA"], type(X), ())
                if b:
                    bad = ("setitem_then_apply:" + b[0], b[1])
        except Exception as ex:
            bad = ("raised:transformation_history", "%s: %s" % (type(ex).__name__, ex))
        if bad:
            run.violation("T_history:%s:%s:%s" % (cls, Aj, Bj), bad[0], dict(cls=cls, A=json.loads(Aj), B=json.loads(Bj), observed=bad[1]))


def replay_representation(run, emits, n):
    """rep[word] @ point acts as the exact product matrix on the coordinate column vector"""
    H = hc.H()
    from geometry_tools import projective as P
    pairs = {}
    for e in emits:
        if e["obj"]["cls"] in ("point", "dualpoint"):
            pairs.setdefault((json.dumps(e["A"]), json.dumps(e["B"])), []).append(e)
    for (Aj, Bj), es in sorted(pairs.items()):
        for Rep, Wrap in ((P.ProjectiveRepresentation, P.Transformation), (H.HyperbolicRepresentation, H.Isometry)):
            run.case(key=None, action="rep_word_acts:" + Rep.__name__)
            try:
                rep = Rep()
                rep["a"] = Wrap(hc.spec_matrix(json.loads(Aj)), column_vectors=True)
                rep["b"] = Wrap(hc.spec_matrix(json.loads(Bj)), column_vectors=True)
                bad = None
                for e in es:
                    x = arr(e["obj"]["rows"][0])
                    got = np.asarray((rep["ab"] @ H.Point(x.copy())).proj_data, float)
                    want = arr(e["img"]["rows"][0])
                    if not hc.proj_close(got, want, TOL):
                        bad = ("rep[ab]@x", "x=%r: %r vs spec %r" % (x.tolist(), got.tolist(), want.tolist()))
                        break
                    col = hc.spec_matrix(e["AB"]) @ x
                    if not hc.proj_close(got, col, TOL):
                        bad = ("rep[ab]@x vs matrix.column", "x=%r" % (x.tolist(),))
                        break
                    got = np.asarray((rep["aA"] @ H.Point(x.copy())).proj_data, float)
                    if not hc.proj_close(got, x, TOL):
                        bad = ("rep[aA]@x", "x=%r: %r" % (x.tolist(), got.tolist()))
                        break
            except Exception as ex:
                bad = ("raised:rep", "%s: %s" % (type(ex).__name__, ex))
            if bad:
                run.violation("rep:%s:%s:%s" % (Rep.__name__, Aj, Bj), bad[0], dict(A=json.loads(Aj), B=json.loads(Bj), observed=bad[1]))


class TLCJobs:
    """the TLC runs of this check are independent of each other and each is dominated by the start of the JVM: start them
    together (at most `width` at a time) and do the bookkeeping of Run.tlc when a result is collected"""

    def __init__(self, run, width):
        from concurrent.futures import ThreadPoolExecutor
        self.run, self.pool, self.futs = run, ThreadPoolExecutor(max_workers=max(1, width)), {}

    def submit(self, module, cfg, name, emit_prefix, workers=2):
        import os
        mod_path = os.path.join(core.SPEC, module)
        self.futs[name] = (mod_path, self.pool.submit(core.run_tlc, mod_path, cfg, os.path.join(self.run.work, name), workers=workers,
                                                      seed=self.run.seed, emit_prefix=emit_prefix))

    def result(self, name):
        import os
        mod_path, fut = self.futs.pop(name)
        r = fut.result()
        self.run.states += r.distinct
        self.run.transitions += r.generated
        d = r.as_dict()
        d["module"], d["run"] = os.path.relpath(mod_path, core.VERIF), name
        self.run.tlc_runs.append(d)
        return r

    def close(self):
        self.pool.shutdown(wait=True, cancel_futures=True)


def run(run, replay=None):
    from . import c03_proj
    from .. import c03_shapes, c03_near, c03_rep
    quick = run.tier == "quick"
    rng = random.Random(run.seed)
    run.rule = ("one case per TLC state: (object, A, B) of HypAction.tla / ProjAction.tla with five library expressions compared with "
                "the exact images (every representative of A the spec names, composite stacks per class); (X shape, T shape, "
                "broadcast mode) of ActShapes.tla with every entry of the result compared; (family, B, X) of NearIdentity.tla at "
                "every value of the parameter, compared relative to the displacement; (generator pair) of RepAction.tla / "
                "HypRepAction.tla with every word of length <= 3 and every list of <= 3 words, per storage type")
    run.assumptions += [
        "objects and isometries from the exact universe of HypIso/HypAction (dimension 2 quick; 2 and 3 thorough)",
        "hyperplane ideal bases are frame dependent: compared through normal, nullity, orthogonality and rank",
        "pairwise broadcasting: result shape = X.shape + T.shape (utils.matrix_product docstring; the same reading as Composite.tla / C04)",
        "near-identity elements: parameter values 1e-9 ... 1e-3 of both signs; the library must reproduce the displacement to 1e-3 relative",
    ]
    dims = [2] if quick else [2, 3]
    jobs = TLCJobs(run, width=min(4, core.NCPU))
    try:
        for n in dims:
            c = core.cfg(init="ActInit", next_="ActNext", constants=dict(N=n, MaxLen=0),
                         invariants=["ObjectsWellFormed", "ImageWellFormed", "ActionLaw", "IdentityLaw", "InverseActs",
                                     "EdgesCommute", "EmitCase"])
            jobs.submit("hyp/HypAction.tla", c, "HypAction_n%d" % n, "CASE ", workers=min(4, core.NCPU))
        jobs.submit(workers=min(4, core.NCPU), **c03_proj.tlc_job())
        jobs.submit(**c03_shapes.tlc_job())
        jobs.submit(**c03_near.tlc_job())
        jobs.submit(**c03_rep.tlc_job_proj())
        for n in dims:
            jobs.submit(**c03_rep.tlc_job_hyp(n))
        shape_emits, matlist = c03_shapes.parse(jobs.result("ActShapes"))
        for n in dims:
            emits = jobs.result("HypAction_n%d" % n).emits
            replay_cases(run, emits, n)
            replay_composites(run, emits, n, rng)
            replay_representation(run, emits, n)
            replay_transformation_histories(run, emits, n)
            replay_variants(run, emits, n)
            if n == 2:
                c03_shapes.replay_hyperbolic(run, shape_emits, emits, same, build)
            for cls in ("segment", "tangent", "polygon", "dualpoint"):
                for e in emits:
                    if e["obj"]["cls"] == cls and e["A"] != e["B"]:
                        run.sample(dict(kind="action case (%s)" % cls, n=n, obj=e["obj"], A=e["A"], B=e["B"], image=e["img"]))
                        break
        c03_proj.replay(run, jobs.result("ProjAction"))
        c03_shapes.replay_projective(run, shape_emits, matlist)
        c03_near.replay(run, jobs.result("NearIdentity").emits)
        r = jobs.result("RepAction")
        listinfo = c03_rep.parse_lists(r.stdout)
        c03_rep.replay(run, r.emits, listinfo)
        for n in dims:
            c03_rep.replay(run, jobs.result("HypRepAction_n%d" % n).emits, listinfo)
    finally:
        jobs.close()
