"""C08 — Coxeter group representations satisfy the relations and preserve the form.

spec/cox/CoxeterRep.tla (on top of CoxeterWalk.tla): the ball of radius L of the Cayley graph,
explored by TLC with Tits' word problem as oracle, and reflection representations as
labellings of that graph by matrices.  Where the Cartan matrix is integral (labels 2,3,oo
for the geometric / canonical / Tits-Vinberg representations, labels 2,3,4,6,oo for a
crystallographic non-symmetric Cartan matrix) TLC evaluates s_i = I - E_ii C exactly and
checks on every edge that the linear representation agrees with the combinatorial group
(RepClosed), that only the identity maps to I (Faithful), that C is preserved
(FormPreserved) and that the dual is the transposed inverse (DualOK); on every matrix that the
relations hold in the oracle with the exact orders.  Emitted: per element the exact images,
per matrix the Cartan matrices / parameters / relators / signature type, the table of library
configurations and the table of hyperbolic triangle triples.

Conformance (spec -> code), per (matrix, configuration = route x naming x diagonalize x
encoding of infinity):
  * bilinear_form() = -cos(pi/m) (exact rationals for m in 1,2,3,oo),
  * geometric / canonical / tits_vinberg / cartan_representation images of every element of
    the ball equal the exact integer images (integral kinds),
  * for every kind and every label: the matrices close up along EVERY edge of TLC's graph
    (all consequences of the relations up to L), every relator maps to I, the canonical
    representation gives (st)^k != I for 0 < k < m and distinct elements distinct matrices,
  * M^T B M = B (or the diagonal form of the spec-decided signature when diagonalised),
    canonical = inverse transpose of geometric,
  * signature (d,1): hyperbolic_rep().isometries(...) lie in O(d,1), generators are
    orthochronous reflections,
  * hyperbolic triangle groups: fixed points of ab, bc, ca span a triangle with angles
    pi/p, pi/q, pi/r, ideal exactly where the label is infinite.
"""
import math
import multiprocessing as mp
import random

import numpy as np

from .. import core
from .. import cox_common as cc

MATS, RADS, OBS, EDGES, INFO, CONFIGS, CONTAINERS = [], [], [], [], {}, [], list(cc.DIAGRAM_CONTAINERS)
LABEL_TYPES = list(cc.LABEL_TYPES)
UNIVERSE = dict(orders=list(cc.NAME_ORDERS), histories=["query", "edit_input_then_query"])


def as_obj(x):
    """ToJson writes a function with an empty domain as an array"""
    return x if isinstance(x, dict) else {}


def cosine_matrix(M):
    """the cosine form of the property statement: B_ij = -cos(pi/m_ij), -1 for an infinite label"""
    n = len(M)
    exact = {1: 1.0, 2: 0.0, 3: -0.5, 0: -1.0}
    return np.array([[exact[M[i][j]] if M[i][j] in exact else -math.cos(math.pi / M[i][j]) for j in range(n)] for i in range(n)])


def signature(M, sig):
    """(negatives, positives) of the cosine form, or None when it is (numerically) degenerate.
    The specification decides the type exactly wherever integers decide it."""
    n = len(M)
    if sig == "spherical":
        return (0, n)
    if sig == "hyperbolic":
        return (1, n - 1)
    if sig in ("affine", "degenerate"):
        return None
    ev = np.linalg.eigvalsh(cosine_matrix(M))
    if np.abs(ev).min() < 1e-3:
        return None
    return (int((ev < 0).sum()), int((ev > 0).sum()))


class Ball:
    """TLC's ball of the Cayley graph of one matrix, as index arrays"""

    def __init__(self, m):
        self.ids = sorted((tuple(o["id"]) for o in OBS[m]), key=lambda w: (len(w), w))
        self.index = {w: k for k, w in enumerate(self.ids)}
        self.F = np.array([self.index[f] for (f, g, t) in EDGES[m]], dtype=int)
        self.G = np.array([g for (f, g, t) in EDGES[m]], dtype=int)
        self.T = np.array([self.index[t] for (f, g, t) in EDGES[m]], dtype=int)
        self.exact = {}
        self.dual = None
        for o in OBS[m]:
            k = self.index[tuple(o["id"])]
            for kind, X in as_obj(o["reps"]).items():
                self.exact.setdefault(kind, [None] * len(self.ids))[k] = X
            if o["dual"]:
                if self.dual is None:
                    self.dual = [None] * len(self.ids)
                self.dual[k] = o["dual"]
        self.exact = {k: np.array(v, dtype=float) for k, v in self.exact.items()}
        if self.dual is not None:
            self.dual = np.array(self.dual, dtype=float)


def images(rep, ball, names, hyperbolic=False):
    words = [cc.word_names(w, names) for w in ball.ids]
    if hyperbolic:
        iso = rep.isometries(words)
        return np.asarray(iso.matrix, dtype=float).swapaxes(-1, -2)
    return np.asarray(rep.elements(words), dtype=float)


def relator_word(r):
    i, j, m = r
    return [i, i] if i == j else [i, j] * m


def check_rep(tag, rep, ball, info, names, tol, hyperbolic=False, exact=None, orders=False, faithful=False):
    """closure along every edge, relators, optional exact images / exact orders / injectivity.
    Returns (list of (clause, detail), images)."""
    bad = []
    n = len(names)
    X = images(rep, ball, names, hyperbolic)
    if X.shape != (len(ball.ids), n, n) or not np.isfinite(X).all():
        return [(tag + ".shape", "images have shape %r / non-finite entries" % (X.shape,))], None
    scale = 1.0 + np.abs(X).max()
    gens = X[[ball.index[(i + 1,)] for i in range(n)]]
    if exact is not None:
        d = np.abs(X - exact).reshape(len(X), -1).max(axis=1)
        if (d > 1e-9 * scale).any():
            k = int(np.argmax(d > 1e-9 * scale))
            bad.append((tag + ".exact_image", "image of %r is %r, spec %r" % ("".join(cc.word_names(ball.ids[k], names)), np.round(X[k], 9).tolist(), exact[k].tolist())))
    if len(ball.F):
        d = np.abs(X[ball.F] @ gens[ball.G] - X[ball.T]).reshape(len(ball.F), -1).max(axis=1)
        if (d > tol * scale).any():
            k = int(np.argmax(d > tol * scale))
            bad.append((tag + ".closure", "rho(%r) rho(%r) != rho(%r): off by %.3g" % (
                "".join(cc.word_names(ball.ids[ball.F[k]], names)), names[ball.G[k]], "".join(cc.word_names(ball.ids[ball.T[k]], names)), d[k])))
    I = np.eye(n)

    def val(w):
        if hyperbolic:
            return np.asarray(rep.isometries([cc.word_names(w, names)]).matrix, dtype=float)[0].T
        return np.asarray(rep[cc.word_names(w, names)], dtype=float)
    for r in info["relators"]:
        R = val(relator_word(r))
        if np.abs(R - I).max() > tol * (1.0 + np.abs(R).max()) * 10:
            bad.append((tag + ".relation", "(%s%s)^%d maps to a matrix at distance %.3g from I" % (names[r[0] - 1], names[r[1] - 1], r[2], np.abs(R - I).max())))
            break
    if orders:
        M = info["M"]
        done = False
        for i in range(n):
            for j in range(n):
                if i == j or done:
                    continue
                m = M[i][j]
                for k in range(1, (m if m > 0 else info["orderbound"] + 1)):
                    R = val([i + 1, j + 1] * k)
                    if np.abs(R - I).max() < 1e-6:
                        bad.append((tag + ".order", "(%s%s)^%d = I although the label is %s" % (names[i], names[j], k, m if m else "infinite")))
                        done = True
                        break
    if faithful and len(X) > 1:
        flat = X.reshape(len(X), -1)
        rs = 1.0 + np.abs(flat).max(axis=1)       # per pair, only just above float noise (see c07)
        for i0 in range(0, len(X), 256):
            d = np.abs(flat[i0:i0 + 256, None, :] - flat[None, :, :]).max(axis=2)
            idx = np.arange(i0, min(i0 + 256, len(X)))
            d[np.arange(len(idx)), idx] = np.inf
            thr = (1e-10 if tol < 1e-8 else 1e-8) * np.maximum.outer(rs[i0:i0 + 256], rs)
            if (d < thr).any():
                a, b = np.argwhere(d < thr)[0]
                bad.append((tag + ".faithful", "elements %r and %r have equal images" % (ball.ids[i0 + a], ball.ids[b])))
                break
    return bad, X


def form_check(tag, X, D, tol):
    scale = 1.0 + np.abs(X).max() ** 2
    d = np.abs(X.swapaxes(-1, -2) @ D @ X - D).reshape(len(X), -1).max(axis=1)
    if (d > tol * scale).any():
        k = int(np.argmax(d > tol * scale))
        return [(tag + ".form", "M^T D M - D has an entry %.3g for element #%d, D = %r" % (d[k], k, np.round(D, 6).tolist()))]
    return []


def check_config(m, ball, cfgd):
    M, info = MATS[m], INFO[m]
    n = len(M)
    bad = []
    try:
        G, names, input_unchanged, consistent = cc.build_group_full(M, cfgd["route"], cfgd["style"], cfgd["inf"], cfgd.get("container", "list"),
                                                                    cfgd.get("labels", "int"), cfgd.get("order", "sorted"), cfgd.get("history", "query"))
    except Exception as e:
        return [("raised:CoxeterGroup", "%s: %s" % (type(e).__name__, e))], 1
    evals = 0
    diag = cfgd["diag"]
    LM = cc.lib_matrix(M, cfgd["inf"])
    d = consistent()
    if d:
        # coxeter_matrix[i][j] must be the label handed over for the pair (ordered_gens[i], ordered_gens[j])
        return [("constructor", d)], 1
    if list(G.ordered_gens) != names:
        return [("constructor.order", "ordered_gens %r, expected %r (matrix index order / order of first appearance in the diagram)" % (list(G.ordered_gens), names))], 1
    Bexp = cosine_matrix(M)
    sg = signature(M, info["sig"])
    kinds = as_obj(info["cartan"])
    def object_unchanged(after):
        """a query must not change the group (its coxeter_matrix) nor the caller's input"""
        cm = np.asarray(G.coxeter_matrix)
        if cm.shape != (n, n) or not np.array_equal(cm, np.array(LM)):
            return [("object_unchanged", "after %s: coxeter_matrix is %r, was %r" % (after, np.round(cm.astype(float), 9).tolist(), LM))]
        d = input_unchanged()
        return [("input_unchanged", "after %s: %s" % (after, d))] if d else []
    # the form, asked twice of the same object (then every representation is built after earlier queries)
    for call in (1, 2):
        try:
            B = np.asarray(G.bilinear_form(), dtype=float)
            evals += 1
            if B.shape != (n, n) or np.abs(B - Bexp).max() > 1e-12:
                bad.append(("bilinear_form" if call == 1 else "bilinear_form.repeated", "call %d of bilinear_form() = %r, cosine matrix %r"
                            % (call, np.round(B, 12).tolist(), np.round(Bexp, 12).tolist())))
                break
        except Exception as e:
            bad.append(("raised:bilinear_form", "%s: %s" % (type(e).__name__, e)))
            break
        bad += object_unchanged("call %d of bilinear_form()" % call)
    use_diag = diag and sg is not None
    D = np.diag([-1.0] * sg[0] + [1.0] * sg[1]) if use_diag else Bexp
    tol = 1e-7 if use_diag else 1e-9
    geo = None
    # geometric
    try:
        rep = G.geometric_representation(diagonalize=use_diag)
        b, geo = check_rep("geometric" + ("(diag)" if use_diag else ""), rep, ball, info, names, tol,
                           exact=None if use_diag else ball.exact.get("geo"))
        bad += b
        evals += len(ball.ids) + len(ball.F)
        if geo is not None:
            bad += form_check("geometric" + ("(diag)" if use_diag else ""), geo, D, tol)
    except Exception as e:
        bad.append(("raised:geometric_representation", "%s: %s" % (type(e).__name__, e)))
    # canonical
    try:
        rep = G.canonical_representation(diagonalize=use_diag)
        b, can = check_rep("canonical" + ("(diag)" if use_diag else ""), rep, ball, info, names, tol,
                           exact=None if use_diag else ball.dual if "geo" in kinds else None, orders=True, faithful=True)
        bad += b
        evals += len(ball.ids) + len(ball.F)
        if can is not None and geo is not None:
            d = np.abs(can.swapaxes(-1, -2) @ geo - np.eye(n)).max()
            if d > tol * (1.0 + np.abs(can).max() * np.abs(geo).max()):
                bad.append(("canonical.dual", "canonical(w)^T geometric(w) differs from I by %.3g" % d))
    except Exception as e:
        bad.append(("raised:canonical_representation", "%s: %s" % (type(e).__name__, e)))
    # Tits-Vinberg representations with spec-chosen parameters, Cartan representation of an integral Cartan matrix
    if not diag:
        for kind in ("tvs", "tva"):
            if kind not in kinds:
                continue
            C = np.array(kinds[kind], dtype=float)
            plist = as_obj(info["params"])[kind]
            try:
                if cfgd["route"] == "matrix":
                    params = {(p[0] - 1, p[1] - 1): float(p[2]) for p in plist}
                else:
                    params = np.zeros((n, n))
                    for p in plist:
                        params[p[0] - 1, p[1] - 1] = p[2]
                Cl = np.asarray(G.cartan_matrix(params), dtype=float)
                evals += 1
                if np.abs(Cl - C).max() > 1e-12:
                    bad.append(("cartan_matrix", "cartan_matrix(%r) = %r, spec %r" % (plist, np.round(Cl, 12).tolist(), C.tolist())))
                rep = G.tits_vinberg_rep(params)
                b, X = check_rep("tits_vinberg[%s]" % kind, rep, ball, info, names, 1e-9, exact=ball.exact[kind])
                bad += b
                evals += len(ball.ids) + len(ball.F)
                if X is not None and kind == "tvs":
                    bad += form_check("tits_vinberg[tvs]", X, C / 2, 1e-9)
            except Exception as e:
                bad.append(("raised:tits_vinberg_rep", "%s: %s" % (type(e).__name__, e)))
        if "cart" in kinds:
            C = np.array(kinds["cart"], dtype=float)
            try:
                ren = cfgd["route"] == "matrix"
                rep = G.cartan_representation(C, rename_generators=ren, generator_style="alphanum" if cfgd["style"] == "alpha" else "alpha")
                rnames = cc.expected_names(n, "matrix", "alphanum" if cfgd["style"] == "alpha" else "alpha") if ren else names
                b, X = check_rep("cartan_representation", rep, ball, info, rnames, 1e-9, exact=ball.exact["cart"])
                bad += b
                evals += len(ball.ids) + len(ball.F)
            except Exception as e:
                bad.append(("raised:cartan_representation", "%s: %s" % (type(e).__name__, e)))
    # Tits-Vinberg representation of a symmetric Cartan matrix with free parameters, diagonalised: still a
    # representation, and it preserves the diagonal form of the signature of THAT Cartan matrix
    if diag and "tvs" in kinds and info.get("tvsdet", 0) != 0:
        C = np.array(kinds["tvs"], dtype=float)
        ev = np.linalg.eigvalsh(C / 2)
        if np.abs(ev).min() > 1e-3:
            plist = as_obj(info["params"])["tvs"]
            try:
                params = {(p[0] - 1, p[1] - 1): float(p[2]) for p in plist}
                rep = G.tits_vinberg_rep(params, diagonalize=True)
                b, X = check_rep("tits_vinberg[tvs](diag)", rep, ball, info, names, 1e-7)
                bad += b
                evals += len(ball.ids) + len(ball.F)
                if X is not None:
                    Dc = np.diag([-1.0] * int((ev < 0).sum()) + [1.0] * int((ev > 0).sum()))
                    bad += form_check("tits_vinberg[tvs](diag)", X, Dc, 1e-7)
            except Exception as e:
                bad.append(("raised:tits_vinberg_rep(diagonalize=True)", "%s: %s" % (type(e).__name__, e)))
    # hyperbolic
    if diag and sg == (1, n - 1):
        try:
            h = G.hyperbolic_rep()
            b, X = check_rep("hyperbolic_rep", h, ball, info, names, 1e-7, hyperbolic=True)
            bad += b
            evals += len(ball.ids) + len(ball.F)
            if X is not None:
                J = np.diag([-1.0] + [1.0] * (n - 1))
                bad += form_check("hyperbolic_rep", X, J, 1e-7)
                for i in range(n):
                    g = X[ball.index[(i + 1,)]]
                    sv = np.linalg.svd(g - np.eye(n), compute_uv=False)
                    sc = 1.0 + np.abs(g).max()
                    if abs(np.trace(g) - (n - 2)) > 1e-7 * sc or sv[1] > 1e-7 * sc or g[0, 0] < 1 - 1e-7 * sc:
                        bad.append(("hyperbolic_rep.reflection", "generator %s: trace %.9g (want %d), second singular value of g - I %.3g, g[0,0] = %.9g"
                                    % (names[i], np.trace(g), n - 2, sv[1], g[0, 0])))
                        break
        except Exception as e:
            bad.append(("raised:hyperbolic_rep", "%s: %s" % (type(e).__name__, e)))
    if not any(c in ("object_unchanged", "input_unchanged") for c, _ in bad):
        bad += object_unchanged("building all representations")
    return bad, evals


def check_matrix(args):
    m, cfg_idx = args
    ball = Ball(m)
    out = []
    tot = 0
    for ci in cfg_idx:
        cfgd = dict(CONFIGS[ci])
        if cfgd["route"] == "diagram":
            # "an iterable of tuples": containers and one-shot iterables in rotation
            cfgd["container"] = CONTAINERS[(m + ci) % len(CONTAINERS)]
        cfgd["labels"] = LABEL_TYPES[(m + (ci >> 1)) % len(LABEL_TYPES)]
        if cfgd["route"] == "diagram":
            cfgd["order"] = UNIVERSE["orders"][(m + ci) % len(UNIVERSE["orders"])]
        cfgd["history"] = UNIVERSE["histories"][(m + ci + (ci >> 1)) % len(UNIVERSE["histories"])]
        if cfgd["route"] == "diagram" and cfgd["container"] != "list":
            cfgd["history"] = "query"        # a one-shot iterable leaves the caller nothing to edit
        bad, ev = check_config(m, ball, cfgd)
        tot += ev
        for clause, detail in bad[:4]:
            out.append((dict(matrix=MATS[m], **cfgd), clause, detail))
    sample = None
    if "tva" in ball.exact and len(ball.ids) > 20:
        k = len(ball.ids) // 2
        sample = dict(kind="exact images", matrix=MATS[m], cartan=as_obj(INFO[m]["cartan"]), word=list(ball.ids[k]),
                      images={kd: ball.exact[kd][k].astype(int).tolist() for kd in ball.exact}, edges=len(ball.F), elements=len(ball.ids))
    return m, tot, out, sample


# ----------------------------------------------------------------------------------------
# triangle groups
# ----------------------------------------------------------------------------------------
def mink(u, v):
    return -u[0] * v[0] + float(np.dot(u[1:], v[1:]))


def check_triangle(args):
    t, inf = args
    from geometry_tools import coxeter
    p, q, r = t
    lab = [x if x else inf for x in t]
    key = "tri:%r" % (tuple(lab),)
    try:
        T = coxeter.TriangleGroup(tuple(lab))
        h = T.hyperbolic_rep()
        pts = h.isometries(["ab", "bc", "ca"]).fixed_point()
        V = np.real(np.asarray(pts.proj_data)).astype(float)
    except Exception as e:
        return key, [("raised:triangle", "%s: %s" % (type(e).__name__, e))]
    if V.shape != (3, 3) or not np.isfinite(V).all():
        return key, [("triangle.shape", "fixed points %r" % (V.tolist(),))]
    bad = []
    V = np.array([v / np.abs(v).max() * (1 if v[0] > 0 else -1) for v in V])
    ideal = []
    for k in range(3):
        nrm = mink(V[k], V[k])
        is_ideal = abs(nrm) < 1e-6
        ideal.append(is_ideal)
        if not is_ideal and nrm > 0:
            bad.append(("triangle.vertex_outside", "fixed point of the rotation %s lies outside the hyperbolic plane" % ["ab", "bc", "ca"][k]))
        if is_ideal != (t[k] == 0):
            bad.append(("triangle.ideal_vertex", "vertex %d (label %s) ideal=%r, <v,v> = %.3g" % (k, t[k] or "oo", is_ideal, nrm)))
    if bad:
        return key, bad
    anyideal = any(ideal)
    for k in range(3):
        if ideal[k]:
            continue
        x = V[k] / math.sqrt(-mink(V[k], V[k]))
        ts = []
        for j in range(3):
            if j != k:
                y = V[j]
                tv = y + mink(x, y) * x
                ts.append(tv / math.sqrt(mink(tv, tv)))
        c = mink(ts[0], ts[1])
        want = math.cos(math.pi / t[k])
        # a parabolic rotation product has a 3x3 Jordan block: its fixed point is known to eps^(1/3) only
        if abs(c - want) > (2e-4 if anyideal else 1e-9):
            bad.append(("triangle.angle", "angle at the fixed point of %s: cos = %.10f, spec cos(pi/%d) = %.10f" % (["ab", "bc", "ca"][k], c, t[k], want)))
    return key, bad


def run(run, replay=None):
    global MATS, RADS, OBS, EDGES, INFO, CONFIGS, CONTAINERS, LABEL_TYPES
    quick = run.tier == "quick"
    rng = random.Random(run.seed)
    run.rule = ("a case is one (Coxeter matrix, configuration) pair: all representations of the library evaluated on every "
                "element and every edge of the TLC-explored ball, or one triangle triple; evaluations counts element images and "
                "edges compared; distinct_nontrivial counts distinct cases")
    batches = []
    r2 = [cc.sym(2, [m]) for m in list(range(2, 13)) + [0]]
    batches.append(("rank2", r2, [M[0][1] + 1 if M[0][1] else 8 for M in r2]))
    # rank 3: every multiset of labels 2..12, oo (one ordering each) + every ordered triple of the integral kinds
    seen = set()
    r3 = []
    for c in cc.up_to_relabelling(3, cc.LABELS12):
        r3.append(c)
        seen.add(tuple(map(tuple, c)))
    r3x = [M for M in cc.all_mats(3, [2, 3, 4, 6, 0]) if tuple(map(tuple, M)) not in seen]
    batches.append(("rank3", r3, [6 if quick else 8] * len(r3)))
    batches.append(("rank3int", r3x, [6 if quick else 8] * len(r3x)))
    n4, n5 = (60, 20) if quick else (300, 80)
    r4 = cc.random_mats(rng, 4, [2, 3, 4, 6, 0], n4 // 2, weights=[3, 3, 1, 1, 2]) + cc.random_mats(rng, 4, cc.LABELS12, n4 // 2)
    batches.append(("rank4", r4, [4 if quick else 6] * len(r4)))
    r5 = cc.random_mats(rng, 5, [2, 3, 4, 6, 0], n5 // 2, weights=[4, 3, 1, 1, 1]) + cc.random_mats(rng, 5, cc.LABELS12, n5 // 2, weights=[4, 3, 2, 1, 1, 1, 1, 1, 1, 1, 1, 2])
    batches.append(("rank5", r5, [3 if quick else 5] * len(r5)))
    only_tri = None
    if replay:
        import json
        first = json.load(open(replay))["first"]
        if "case" in first["detail"]:
            M = first["detail"]["case"]["matrix"]
            batches = [("replay", [M], [{2: 13, 3: 6 if quick else 8, 4: 4 if quick else 6}.get(len(M), 3 if quick else 5)])]
        else:
            only_tri = first["key"]
            batches = batches[:1]
    MATS, RADS = [], []
    for (_, ms, rs) in batches:
        MATS += ms
        RADS += rs
    run.assumptions += [
        "labels 2..12 and infinity; " + ", ".join("%s: %d matrices, radius %d" % (t, len(ms), max(rs)) for (t, ms, rs) in batches),
        "rank 3: every multiset of labels once + every ordered triple over {2,3,4,6,oo}; ranks 4, 5: seeded random samples",
        "exact integer images only where the Cartan matrix is integral (geo/tvs/tva: labels 2,3,oo; cart: 2,3,4,6,oo); other labels: closure "
        "along TLC's graph, relators, orders, form identities in float (1e-9 relative, 1e-7 after diagonalisation)",
        "diagonalize / hyperbolic_rep only where the cosine form is nondegenerate / of signature (d,1): decided by the specification for "
        "ranks 2, 3 (all labels) and for integral Cartan matrices, otherwise by numpy eigenvalues of -cos(pi/m) with margin 1e-3",
        "tits_vinberg_rep / cartan_representation are not combined with diagonalize; every pair of generators is listed in a diagram; "
        "the diagram is handed over as list / tuple / generator / zip / iterator / map in rotation (documented as 'an iterable of tuples')",
        "infinite order of a product: powers up to 13 differ from I",
        "diagram names first appear in alphabetical / reverse / mixed order (rotation); coxeter_matrix[i][j] must be the label handed over for "
        "(ordered_gens[i], ordered_gens[j]); half of the constructions are followed by the caller overwriting its own array / edge list with "
        "another matrix before any query",
        "tits_vinberg_rep(parameters, diagonalize=True) for the symmetric parameter kind when the specification's determinant of that Cartan "
        "matrix is nonzero (and numpy's smallest |eigenvalue| > 1e-3): closure, relators, diagonal form of the signature of that Cartan matrix",
        "labels handed over as int64 or as float64 with integral values (matrix dtype / diagram labels), alternating; on every group object "
        "bilinear_form() is asked twice and every representation is built after earlier queries; coxeter_matrix and the caller's input must "
        "be unchanged after each",
    ]
    workers = min(8, core.NCPU)
    r, OBS, EDGES, INFO, tables = cc.run_batch(
        run, "CoxeterRep", MATS, RADS, "CoxeterRep",
        invariants=["TypeOK", "RelationsHold", "RepInv", "EmitRep", "EmitInfo"],
        action_constraints=["Emit", "RepClosed"], workers=workers if quick else min(12, core.NCPU),
        constants=dict(TriLabels=set(cc.LABELS12)))
    if "CFG" not in tables or "TRI" not in tables or len(INFO) != len(MATS):
        raise core.MachineryFailure("CoxeterRep.tla did not print its tables")
    CONFIGS = tables["CFG"]
    if "DGC" not in tables or not set(tables["DGC"]) <= set(cc.DIAGRAM_CONTAINERS):
        raise core.MachineryFailure("CoxeterRep.tla did not print the table of diagram containers")
    CONTAINERS = sorted(tables["DGC"])
    if "LBT" not in tables or not set(tables["LBT"]) <= set(cc.LABEL_TYPES):
        raise core.MachineryFailure("CoxeterRep.tla did not print the table of label types")
    LABEL_TYPES = sorted(tables["LBT"], reverse=True)      # int, float
    var = tables.get("VAR")
    if not var or not set(var["orders"]) <= set(cc.NAME_ORDERS):
        raise core.MachineryFailure("CoxeterWalk.tla did not print the table of construction variants")
    UNIVERSE["orders"] = sorted(var["orders"], reverse=True)
    UNIVERSE["histories"] = sorted(var["histories"], reverse=True)
    ncfg = len(CONFIGS)
    plan = []
    for m in range(len(MATS)):
        if quick and not replay:
            idx = [(4 * m + k) % ncfg for k in range(4)]
        else:
            idx = list(range(ncfg))
        if not any(0 in row for row in MATS[m]):
            # the two encodings of infinity coincide
            idx = [i for i in idx if CONFIGS[i]["inf"] == "zero"]
        plan.append((m, idx))
    plan.sort(key=lambda a: -len(OBS[a[0]]) * len(a[1]))
    run.extra["matrices"] = len(MATS)
    run.extra["elements"] = sum(len(o) for o in OBS)
    run.extra["edges"] = sum(len(e) for e in EDGES)
    run.extra["exact_kinds"] = {k: sum(1 for i in INFO.values() if k in as_obj(i["cartan"])) for k in ("geo", "tvs", "tva", "cart")}
    run.extra["signature_types"] = {s: sum(1 for i in INFO.values() if i["sig"] == s) for s in sorted({i["sig"] for i in INFO.values()})}
    with mp.get_context("fork").Pool(workers) as pool:
        outs = pool.map(check_matrix, plan, chunksize=2)
        tri = [tuple(t) for t in tables["TRI"]]
        tri.sort()
        if replay:
            target = tuple(max(int(x), 0) for x in only_tri[4:].strip("()").split(",")) if only_tri else None
            tri = [t for t in tri if t == target]
        elif quick:
            keep = [t for t in tri if t[0] <= t[1] <= t[2] or 0 in t]
            rest = [t for t in tri if t not in set(keep)]
            tri = keep + rng.sample(rest, min(len(rest), 200))
        tri_out = pool.map(check_triangle, [(t, 0 if k % 2 == 0 else -1 - (k % 3)) for k, t in enumerate(tri)], chunksize=16)
    for (m, tot, bad, sample) in outs:
        run.evaluations += tot
        run.traces += 1
        for ctx, clause, detail in bad:
            key = "cox:%s:%s/%s/%s/%s" % (cc.short(ctx["matrix"]), ctx["route"] + ("(%s)" % ctx["container"] if "container" in ctx else "") + ("[float]" if ctx.get("labels") == "float" else ""),
                                          ctx["style"] + ("/" + ctx["order"] if "order" in ctx else "") + ("/edited" if ctx.get("history", "query") != "query" else ""), "diag" if ctx["diag"] else "plain", ctx["inf"])
            run.violation(key, clause, dict(case=ctx, observed=detail))
        if sample:
            run.sample(sample)
    for (m, idx) in plan:
        for ci in idx:
            run.case(key=("cox", m, ci), action="reps(%s,%s)" % (CONFIGS[ci]["route"], "diag" if CONFIGS[ci]["diag"] else "plain"))
        run.evaluations -= len(idx)
    for k, (key, bad) in enumerate(tri_out):
        run.case(key=key, action="triangle")
        for clause, detail in bad[:2]:
            run.violation(key, clause, dict(triple=key, observed=detail))
    run.extra["triangles"] = len(tri)
    if tri:
        run.sample(dict(kind="triangle", triple=list(tri[len(tri) // 2]), angles="pi/label at the fixed points of ab, bc, ca; ideal where the label is 0"))
