"""C09, kbmag route: records enumerated by TLC from spec/fsa/GapRecord.tla are rendered as
GAP record text and loaded through the real parser; the loaded automaton must be exactly
the specified edge set, vertex set 1..n and start state."""
import os
from .. import core
from .. import fsa_common as fc


def render(rec):
    """Trusted renderer: abstract record + layout -> kbmag/GAP record text."""
    lay = rec["layout"]
    sep = lay["sep"]
    n, names, table, init = rec["n"], rec["names"], rec["table"], rec["init"]
    if sep == "none":
        A, C = ":=", ","
        def ind(d): return ""
    elif sep == "space":
        A, C = " := ", ", "
        def ind(d): return ""
    else:
        A = " := "
        C = None
        def ind(d): return "\n" + "  " * d
    def join(items, d):
        if sep == "newline":
            return ("," + ind(d)).join(items)
        return C.join(items)
    def lst(items):
        return "[" + ",".join(items) + "]"      # lists are written tight (interval syntax needs it)
    def rec_(fields, d):
        return "rec(" + ind(d) + join([k + A + v for k, v in fields], d) + ind(d - 1) + ")"
    nm = ['"%s"' % x for x in names] if lay["quoted"] else list(names)
    alphabet = rec_([("type", '"identifiers"'), ("size", str(len(names))), ("format", '"dense"'),
                     ("names", lst(nm))], 2)
    st_fields = [("type", '"simple"'), ("size", str(n))]
    if lay["nested_extra"]:
        # a nested record holding a list (interval syntax when the layout says so) that is NOT its last field
        span = "[1..%d]" % n if lay["interval"] else lst([str(i) for i in range(1, n + 1)])
        st_fields.append(("extra", rec_([("depth", "2"), ("span", span), ("tag", '"x"')], 3)))
    states = rec_(st_fields, 2)
    accepting = "[1..%d]" % n if lay["interval"] else lst([str(i) for i in range(1, n + 1)])
    nt = sum(1 for row in table for x in row if x != 0)
    # rows the specification marks "interval" are runs x, x+1, ..., y (GapRecord!IntervalMeaning): written [x..y]
    rows = ["[%d..%d]" % (row[0], row[-1]) if form == "interval" else lst([str(x) for x in row])
            for row, form in zip(table, rec["rowform"])]
    trans = "[" + (("," + ind(4)) if sep == "newline" else ",").join(rows) + "]"
    tab = rec_([("format", '"dense deterministic"'), ("numTransitions", str(nt)), ("transitions", trans)], 2)
    f_is, f_al, f_st = ("isFSA", "true"), ("alphabet", alphabet), ("states", states)
    f_fl, f_in = ("flags", lst(['"DFA"', '"minimized"'])), ("initial", "[%d..%d]" % (init, init) if lay["initint"] else lst([str(init)]))
    f_ac, f_ta = ("accepting", accepting), ("table", tab)
    if lay["order"] == "std":
        fields = [f_is, f_al, f_st, f_fl, f_in, f_ac, f_ta]
    elif lay["order"] == "table_first":
        fields = [f_is, f_ta, f_al, f_st, f_fl, f_in, f_ac]
    else:
        fields = [f_is, f_al, f_st, f_fl, f_ac, f_ta, f_in]
    # record-level string fields that carry no automaton data (kbmag / GAP records may hold any): an empty string and one
    # ending in a closing parenthesis, at the front, in the middle or at the end of the record, for two thirds of the records
    extra = (n + init + len(names) + len(trans)) % 3
    if extra == 1:
        fields = [("comment", '""')] + fields[:3] + [("source", '"(x)"')] + fields[3:]
    elif extra == 2:
        fields = fields[:1] + [("source", '"f(a,b)"')] + fields[1:] + [("comment", '""')]
    return "_RWS.wa" + A + rec_(fields, 1) + ";\n"


PICKED = []     # a few emitted records, used by c09_pair as "named" construction routes (kbmag text)


def load_text(text):
    from geometry_tools.automata import fsa, gap_parse
    record, _ = gap_parse.parse_record(text)
    return fsa._from_gap_record(record)


def check_record(run, rec, via_file=None):
    text = render(rec)
    key = "gap:" + text.replace("\n", "\\n")[:400]
    E = {tuple(e) for e in rec["E"]}
    vs = set(range(1, rec["n"] + 1))
    try:
        if via_file:
            from geometry_tools.automata import fsa
            with open(via_file, "w") as fh:
                fh.write(text)
            f = fsa.load_kbmag_file(via_file)
        else:
            f = load_text(text)
        if f is None:
            run.violation(key, "gap:no_automaton", dict(text=text))
            return
        bad = fc.project_check(f, vs, E)
        if not bad and list(f.start_vertices) != [rec["init"]]:
            bad = ("start", "start_vertices %r != [%d]" % (f.start_vertices, rec["init"]))
    except Exception as e:
        bad = ("raised", "%s: %s" % (type(e).__name__, e))
    if bad:
        run.violation(key, "gap:" + bad[0], dict(text=text, observed=bad[1], record={k: rec[k] for k in ("n", "names", "table", "init", "layout")}))
    return bad is None


def run(run):
    quick = run.tier == "quick"
    configs = [(3, {"a", "b"}, "hash")] if quick else [(2, {"a", "b"}, "all"), (3, {"a", "b"}, "hash"), (2, {"a", "b", "c"}, "hash")]
    total = n_inner = n_last = 0
    del PICKED[:]
    tmpf = os.path.join(run.work, "rec.wa")
    for (ms, names, mode) in configs:
        c = core.cfg(constants=dict(MaxStates=ms, Names=names, LayoutMode=mode, MaxLen=3),
                     invariants=["TableMeaning", "Deterministic", "IntervalMeaning", "EmitRec"])
        r = run.tlc("fsa/GapRecord.tla", c, name="GapRecord_%d_%d_%s" % (ms, len(names), mode),
                    workers=min(8, core.NCPU), emit_prefix="REC ")
        for i, rec in enumerate(r.emits):
            check_record(run, rec, via_file=tmpf if i % 50 == 0 else None)
            run.case(key=None, action="load_gap_record")
            total += 1
            forms = rec["rowform"]
            if (len(PICKED) < 2 and rec["n"] == 3 and len(rec["names"]) == 2 and len(rec["E"]) >= 4
                    and ("interval" in forms[:-1]) == (len(PICKED) == 0)):
                PICKED.append(rec)
            if "interval" in forms[:-1]:
                n_inner += 1
            elif forms and forms[-1] == "interval":
                n_last += 1
        if r.emits:
            rec = r.emits[len(r.emits) // 3]
            run.sample(dict(kind="kbmag record", text=render(rec), expected_edges=rec["E"], init=rec["init"]))
    run.traces += total
    run.extra["gap_records"] = total
    run.extra["gap_records_with_interval_row"] = dict(not_in_last_position=n_inner, last_position_only=n_last)
    if not n_inner or not n_last:
        raise core.MachineryFailure("GapRecord.tla emitted no record with a transition row in interval syntax "
                                    "(inner %d, last %d): the interval clause would be vacuous" % (n_inner, n_last))
    builtin_files(run)


def read_builtin_table(name):
    """the table written in a built-in file, extracted by an independent regular-expression reader:
    (vertex set, edge set {(i, label, target)}, initial state)"""
    import re
    import importlib.resources
    from geometry_tools import automata
    from geometry_tools.automata import fsa
    text = (importlib.resources.files(automata) / fsa.BUILTIN_DIR / name).read_text()
    flat = re.sub(r"\s+", "", text)
    m_names = re.search(r"names:=\[([^\]]*)\]", flat)
    m_tr = re.search(r"transitions:=\[(\[.*?\])\]\)", flat)
    m_init = re.search(r"initial:=\[(\d+)\]", flat)
    if not (m_names and m_tr and m_init):
        raise core.MachineryFailure("cannot read built-in file %s independently" % name)
    labs = [x.strip('"') for x in m_names.group(1).split(",")]
    rows = [[int(x) for x in r.split(",") if x != ""] for r in re.findall(r"\[([^\[\]]*)\]", m_tr.group(1))]
    E = {(i + 1, labs[j], t) for i, row in enumerate(rows) for j, t in enumerate(row) if t != 0}
    vs = set(range(1, len(rows) + 1))
    return vs, E, int(m_init.group(1))


def builtin_files(run):
    """every built-in automaton file: the loaded automaton's three views equal the table written in the text
    (table extracted by an independent regular-expression reader) - also when the file is loaded AGAIN after the
    instance loaded first was edited (the histories with edits are emitted by FSAPair.tla, see c09_pair)."""
    from geometry_tools.automata import fsa
    names = sorted(fsa.list_builtins())
    for name in names:
        vs, E, init = read_builtin_table(name)
        try:
            f = fsa.load_builtin(name)
            bad = fc.project_check(f, vs, E)
            if not bad and list(f.start_vertices) != [init]:
                bad = ("start", repr(f.start_vertices))
        except Exception as e:
            bad = ("raised", "%s: %s" % (type(e).__name__, e))
        run.case(key=("builtin", name), action="load_builtin")
        if bad:
            run.violation("builtin:" + name, "builtin:" + bad[0], dict(file=name, observed=bad[1]))
    run.extra["builtin_files"] = len(names)
