"""C09, kbmag route: records enumerated by TLC from spec/fsa/GapRecord.tla are rendered as
GAP record text and loaded through the real parser; the loaded automaton must be exactly
the specified edge set, vertex set 1..n and start state."""
import os
from .. import core
from .. import fsa_common as fc


def render(rec):
    """Trusted renderer: abstract record + layout -> kbmag/GAP record text."""
    lay = rec["layout"]
    sep = lay["sep"]
    n, names, table, init = rec["n"], rec["names"], rec["table"], rec["init"]
    if sep == "none":
        A, C = ":=", ","
        def ind(d): return ""
    elif sep == "space":
        A, C = " := ", ", "
        def ind(d): return ""
    else:
        A = " := "
        C = None
        def ind(d): return "\n" + "  " * d
    def join(items, d):
        if sep == "newline":
            return ("," + ind(d)).join(items)
        return C.join(items)
    def lst(items):
        return "[" + ",".join(items) + "]"      # lists are written tight (interval syntax needs it)
    def rec_(fields, d):
        return "rec(" + ind(d) + join([k + A + v for k, v in fields], d) + ind(d - 1) + ")"
    nm = ['"%s"' % x for x in names] if lay["quoted"] else list(names)
    alphabet = rec_([("type", '"identifiers"'), ("size", str(len(names))), ("format", '"dense"'),
                     ("names", lst(nm))], 2)
    st_fields = [("type", '"simple"'), ("size", str(n))]
    if lay["nested_extra"]:
        st_fields.append(("extra", rec_([("depth", "2"), ("tag", '"x"')], 3)))
    states = rec_(st_fields, 2)
    accepting = "[1..%d]" % n if lay["interval"] else lst([str(i) for i in range(1, n + 1)])
    nt = sum(1 for row in table for x in row if x != 0)
    rows = [lst([str(x) for x in row]) for row in table]
    trans = "[" + (("," + ind(4)) if sep == "newline" else ",").join(rows) + "]"
    tab = rec_([("format", '"dense deterministic"'), ("numTransitions", str(nt)), ("transitions", trans)], 2)
    f_is, f_al, f_st = ("isFSA", "true"), ("alphabet", alphabet), ("states", states)
    f_fl, f_in = ("flags", lst(['"DFA"', '"minimized"'])), ("initial", lst([str(init)]))
    f_ac, f_ta = ("accepting", accepting), ("table", tab)
    if lay["order"] == "std":
        fields = [f_is, f_al, f_st, f_fl, f_in, f_ac, f_ta]
    elif lay["order"] == "table_first":
        fields = [f_is, f_ta, f_al, f_st, f_fl, f_in, f_ac]
    else:
        fields = [f_is, f_al, f_st, f_fl, f_ac, f_ta, f_in]
    return "_RWS.wa" + A + rec_(fields, 1) + ";\n"


def load_text(text):
    from geometry_tools.automata import fsa, gap_parse
    record, _ = gap_parse.parse_record(text)
    return fsa._from_gap_record(record)


def check_record(run, rec, via_file=None):
    text = render(rec)
    key = "gap:" + text.replace("\n", "\\n")[:400]
    E = {tuple(e) for e in rec["E"]}
    vs = set(range(1, rec["n"] + 1))
    try:
        if via_file:
            from geometry_tools.automata import fsa
            with open(via_file, "w") as fh:
                fh.write(text)
            f = fsa.load_kbmag_file(via_file)
        else:
            f = load_text(text)
        if f is None:
            run.violation(key, "gap:no_automaton", dict(text=text))
            return
        bad = fc.project_check(f, vs, E)
        if not bad and list(f.start_vertices) != [rec["init"]]:
            bad = ("start", "start_vertices %r != [%d]" % (f.start_vertices, rec["init"]))
    except Exception as e:
        bad = ("raised", "%s: %s" % (type(e).__name__, e))
    if bad:
        run.violation(key, "gap:" + bad[0], dict(text=text, observed=bad[1], record={k: rec[k] for k in ("n", "names", "table", "init", "layout")}))


def run(run):
    quick = run.tier == "quick"
    configs = [(3, {"a", "b"}, "hash")] if quick else [(2, {"a", "b"}, "all"), (3, {"a", "b"}, "hash"), (2, {"a", "b", "c"}, "hash")]
    total = 0
    tmpf = os.path.join(run.work, "rec.wa")
    for (ms, names, mode) in configs:
        c = core.cfg(constants=dict(MaxStates=ms, Names=names, LayoutMode=mode, MaxLen=3),
                     invariants=["TableMeaning", "Deterministic", "EmitRec"])
        r = run.tlc("fsa/GapRecord.tla", c, name="GapRecord_%d_%d_%s" % (ms, len(names), mode),
                    workers=min(8, core.NCPU), emit_prefix="REC ")
        for i, rec in enumerate(r.emits):
            check_record(run, rec, via_file=tmpf if i % 50 == 0 else None)
            run.case(key=None, action="load_gap_record")
            total += 1
        if r.emits:
            rec = r.emits[len(r.emits) // 3]
            run.sample(dict(kind="kbmag record", text=render(rec), expected_edges=rec["E"], init=rec["init"]))
    run.traces += total
    run.extra["gap_records"] = total
    builtin_files(run)


def builtin_files(run):
    """every built-in automaton file: the loaded automaton's three views equal the table written in the text
    (table extracted by an independent regular-expression reader)."""
    import re
    import importlib.resources
    from geometry_tools import automata
    from geometry_tools.automata import fsa
    names = sorted(fsa.list_builtins())
    for name in names:
        text = (importlib.resources.files(automata) / fsa.BUILTIN_DIR / name).read_text()
        flat = re.sub(r"\s+", "", text)
        m_names = re.search(r"names:=\[([^\]]*)\]", flat)
        m_tr = re.search(r"transitions:=\[(\[.*?\])\]\)", flat)
        m_init = re.search(r"initial:=\[(\d+)\]", flat)
        if not (m_names and m_tr and m_init):
            raise core.MachineryFailure("cannot read built-in file %s independently" % name)
        labs = [x.strip('"') for x in m_names.group(1).split(",")]
        rows = [[int(x) for x in r.split(",") if x != ""] for r in re.findall(r"\[([^\[\]]*)\]", m_tr.group(1))]
        E = {(i + 1, labs[j], t) for i, row in enumerate(rows) for j, t in enumerate(row) if t != 0}
        vs = set(range(1, len(rows) + 1))
        try:
            f = fsa.load_builtin(name)
            bad = fc.project_check(f, vs, E)
            if not bad and list(f.start_vertices) != [int(m_init.group(1))]:
                bad = ("start", repr(f.start_vertices))
        except Exception as e:
            bad = ("raised", "%s: %s" % (type(e).__name__, e))
        run.case(key=("builtin", name), action="load_builtin")
        if bad:
            run.violation("builtin:" + name, "builtin:" + bad[0], dict(file=name, observed=bad[1]))
    run.extra["builtin_files"] = len(names)
