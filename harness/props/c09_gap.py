def run(run):
    pass
