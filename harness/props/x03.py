"""X03 (extension) — drawing of boundary arcs, horocyclic arcs, the plane, CP^1 objects, projective lines / curves and
3-dimensional projective drawings: what is drawn is the object.

spec/draw/DrawExtra.tla + DrawExtraScene.tla: boundary arcs with their flip_orientation() history, horocyclic arcs and
the plane under the drawing's transformation word, exact end points / circles / half-plane intervals, theorems
(equivariance of the end-point rule, cyclic order in the models, intervals = arc) checked by TLC on every state.
spec/draw/DrawProjExtra.tla: chart coordinates in dimension 2 and 3, the points where a line meets the frame of the
window.  spec/draw/DrawCP1.tla: disks (circle + side) under words of Moebius maps with closed-form images checked against
the 2 x 2 Gaussian matrix.  Conformance (spec -> code): every emitted state is drawn by the library on the Agg backend
(unit objects and composites in one call, transformation through the constructor or add_transform /
precompose_transform, flip_orientation() called on the live object) and the artists found in drawing.ax are compared
with the exact values.
"""
import json
import os
import random

import numpy as np

from .. import core
from .. import draw_common as dc
from .. import hyp_common as hc
from .c19 import TLCJobs, arr

TOL = 1e-9
IDEAL = 2e-6          # ideal points in conformal coordinates (square root at the boundary, as in C01 / C19)


def rats(p):
    return np.array([c[0] / c[1] for c in p], dtype=float)


def W(n):
    return max(1, min(n, core.NCPU))


# ----------------------------------------------------------------------------------------
# projections of artists
# ----------------------------------------------------------------------------------------
def arc_nodes(p):
    """on-curve points of an Arc patch in data coordinates, or None when it is not a run of Bezier segments"""
    v, c = dc.patch_path(p)
    pcs = dc.cut_path(v, c)
    if [x[0] for x in pcs] != ["move", "arc"]:
        return None
    nodes, pts = dc.bezier_points(pcs[1][1], pcs[1][2])
    return nodes, pts


def check_arc(p, centre, r, start, end, tol_end):
    """the patch is the counter-clockwise arc of the circle (centre, r) from start to end; returns None or a description"""
    got = arc_nodes(p)
    if got is None:
        return "artist %s is not a circular arc" % type(p).__name__
    nodes, pts = got
    allp = np.vstack([nodes, pts])
    dev = np.abs(np.linalg.norm(allp - centre, axis=1) - r).max() / r
    devn = np.abs(np.linalg.norm(nodes - centre, axis=1) - r).max() / r
    if devn > 1e-6 or dev > 1e-4:
        return "points of the arc are off the circle centre %r radius %r by %.2e r (centre of the patch %r, width %r)" % (
            centre.tolist(), r, max(dev, devn), list(getattr(p, "center", ())), getattr(p, "width", None))
    if np.abs(nodes[0] - start).max() > tol_end or np.abs(nodes[-1] - end).max() > tol_end:
        return "arc runs from %r to %r, spec: counter-clockwise from %r to %r" % (nodes[0].tolist(), nodes[-1].tolist(), start.tolist(), end.tolist())
    rel = nodes - centre
    cr = rel[:-1, 0] * rel[1:, 1] - rel[:-1, 1] * rel[1:, 0]
    if (cr <= 0).any():
        return "arc is not traversed counter-clockwise"
    return None


def straight_piece(p):
    v, c = dc.patch_path(p)
    pcs = dc.cut_path(v, c)
    if [x[0] for x in pcs] != ["move", "line"]:
        return None
    return pcs[1][1], pcs[1][2]


# ----------------------------------------------------------------------------------------
# boundary arcs, horocyclic arcs, plane
# ----------------------------------------------------------------------------------------
def drawing_for(model, word, window, rng):
    return dc.make_drawing(model, word, via_constructor=rng.random() < 0.5, window=window, rng=rng)


def match_barc_disc(p, g):
    return check_arc(p, np.zeros(2), 1.0, rats(g["from"]), rats(g["to"]), IDEAL)


def match_barc_axis(ivs, g, xlim):
    """the finite segments drawn on the real axis are exactly the pieces g; returns None or a description"""
    if not g["ok"]:
        return "outside the window"
    used = set()
    for pc in g["pieces"]:
        lo = None if pc["left"] else pc["from"][0] / pc["from"][1]
        hi = None if pc["right"] else pc["to"][0] / pc["to"][1]
        ok = None
        for j, (a, b) in enumerate(ivs):
            if j in used:
                continue
            if (a <= xlim[0] if lo is None else abs(a - lo) <= IDEAL * max(1.0, abs(lo))) and \
               (b >= xlim[1] if hi is None else abs(b - hi) <= IDEAL * max(1.0, abs(hi))):
                ok = j
                break
        if ok is None:
            return "no segment for the piece %s .. %s" % ("left edge" if lo is None else lo, "right edge" if hi is None else hi)
        used.add(ok)
    if len(used) != len(ivs):
        return "segments that belong to no piece: %r" % [list(ivs[j]) for j in range(len(ivs)) if j not in used]
    return None


DEFECT_CLAUSE = {"swapped": "boundary_arc.complementary_arc_drawn", "twice": "boundary_arc.transform_applied_twice",
                 "twice_swapped": "boundary_arc.transform_applied_twice+complementary_arc_drawn"}


def barc_unit(run, d, model, s):
    """one boundary arc, flipped on the live object, drawn"""
    H = hc.H()
    g = s["geom"][model]
    key = "barc:%s:%s:fl%d:%s:%s:%s" % (model, "transformed" if s["word"] else "identity", s["fl"], "antipodal" if s["anti"] else "generic",
                                       json.dumps(s["e"], separators=(",", ":")), dc.word_key(s["word"]))
    run.case(key=key, action="draw_boundary_arc[%s]" % model)
    try:
        arc = H.BoundaryArc(arr(s["e"][0]), arr(s["e"][1]))
        for _ in range(s["fl"]):
            arc.flip_orientation()
        d.draw_boundary_arc(arc)
        pats, cols = list(d.ax.patches), list(d.ax.collections)
        segs = [np.asarray(pp.vertices, float) for c in cols for pp in c.get_paths()]
    except Exception as ex:
        dc.clear(d)
        run.violation(key + ":raised", "raised:draw_boundary_arc", dict(model=model, word=s["word"], flips=s["fl"], ends=s["e"], error="%s: %s" % (type(ex).__name__, ex)))
        return
    dc.clear(d)
    if model != "halfplane":
        if len(pats) != 1 or cols:
            run.violation(key + ":count", "boundary_arc.one_arc_per_unit", dict(model=model, patches=len(pats), collections=len(cols)))
            return
        match = lambda gg: match_barc_disc(pats[0], gg)
    else:
        fin = [v for v in segs if v.shape == (2, 2) and np.isfinite(v).all()]
        if pats or any(np.abs(v[:, 1]).max() > 1e-12 for v in fin):
            run.violation(key + ":axis", "boundary_arc.on_the_real_axis", dict(model=model, patches=len(pats), segments=[v.tolist() for v in fin[:4]]))
            return
        ivs = [(min(v[0, 0], v[1, 0]), max(v[0, 0], v[1, 0])) for v in fin]
        match = lambda gg: match_barc_axis(ivs, gg, d.xlim)
    bad = match(g)
    if bad is None:
        return
    clause = "boundary_arc.ends_and_direction"
    for name in ("swapped", "twice", "twice_swapped"):
        if name != "swapped" and not s["word"]:
            continue
        gg = s["defects"][name][model]
        if gg["ok"] and match(gg) is None:
            clause = DEFECT_CLAUSE[name]
            break
    else:
        if model == "halfplane" and g["toinf"] and not ivs:
            clause = "boundary_arc.halfplane.to_infinity_not_drawn"
    run.violation(key, clause, dict(model=model, word=s["word"], flips=s["fl"], ends=s["e"], antipodal=s["anti"], spec=g, observed=bad))


def horoarc_batch(run, d, model, batch, rng):
    H = hc.H()
    D = dc.drawtools()
    s0 = batch[0]
    kbase = "horoarc:%s:%s" % (model, dc.word_key(s0["word"]))
    data = np.array([[s["xi"], s["p"][0], s["p"][1]] for s in batch], dtype=float)
    run.case(key=("horoarc", model, dc.word_key(s0["word"]), json.dumps([[s["xi"], s["p"]] for s in batch])), action="draw_horoarc[%s]" % model)
    run.evaluations += len(batch) - 1
    unit = len(batch) == 1 and rng.random() < 0.7
    try:
        obj = H.HorosphereArc(data[0, 0], data[0, 1], data[0, 2]) if unit else H.HorosphereArc(data)
        d.draw_horoarc(obj)
        raised = None
    except D.DrawingError:
        raised = "DrawingError"
    except Exception as ex:
        raised = "%s: %s" % (type(ex).__name__, ex)
    pats, nother = list(d.ax.patches), len(d.ax.collections) + len(d.ax.lines)
    dc.clear(d)
    key0 = "%s:%s" % (kbase, json.dumps([s0["xi"], s0["p"]], separators=(",", ":")))
    if model == "klein":
        if raised != "DrawingError" or pats or nother:
            run.violation(key0, "horoarc.klein_not_implemented", dict(model=model, raised=raised, artists=len(pats) + nother))
        return
    if raised:
        run.violation(key0 + ":raised", "raised:draw_horoarc", dict(model=model, word=s0["word"], arcs=[[s["xi"], s["p"]] for s in batch[:3]], error=raised))
        return
    if len(pats) != len(batch) or nother:
        run.violation(key0 + ":count", "horoarc.one_arc_per_unit", dict(model=model, arcs=len(batch), patches=len(pats), others=nother))
        return
    for s, p in zip(batch, pats):
        g = s["geom"][model]
        pe = [rats(g["p"][0]), rats(g["p"][1])]
        scale = max(1.0, float(np.abs(np.array(pe)).max()))
        if g["kind"] == "arc":
            c, r = rats(g["h"]["c"]), g["h"]["r"][0] / g["h"]["r"][1]
            f = g["first"] - 1
            bad = check_arc(p, c, r, pe[f], pe[1 - f], 1e-6 * max(scale, r))
        else:
            sp = straight_piece(p)
            if sp is None:
                bad = "artist %s is not one straight stroke" % type(p).__name__
            else:
                a, b = sp
                fw = max(np.abs(a - pe[0]).max(), np.abs(b - pe[1]).max())
                bw = max(np.abs(a - pe[1]).max(), np.abs(b - pe[0]).max())
                bad = None if min(fw, bw) <= 1e-6 * scale else "stroke from %r to %r, spec: the segment %r - %r" % (a.tolist(), b.tolist(), pe[0].tolist(), pe[1].tolist())
        if bad:
            run.violation("%s:%s" % (kbase, json.dumps([s["xi"], s["p"]], separators=(",", ":"))), "horoarc.arc_avoiding_the_centre",
                          dict(model=model, word=s["word"], centre=s["xi"], ends=s["p"], transformed=s["tv"], spec=g, observed=bad))


def check_plane(run, s, rng):
    D = dc.drawtools()
    for model in dc.MODELS:
        key = "plane:%s:%s" % (model, json.dumps(s["win"]))
        run.case(key=key, action="draw_plane[%s]" % model)
        g = s["geom"][model]
        try:
            d = dc.make_drawing(model, [], window=s["win"], rng=rng)
            d.draw_plane()
            pats, nother = list(d.ax.patches), len(d.ax.collections) + len(d.ax.lines)
            bad = None
            if len(pats) != 1 or nother:
                bad = "expected one patch, found %d patches and %d other artists" % (len(pats), nother)
            elif g["kind"] == "disc":
                p = pats[0]
                v, c = dc.patch_path(p)
                pcs = dc.cut_path(v, c)
                nodes = np.vstack([np.vstack([x[1][None, :], x[2][2::3]]) for x in pcs if x[0] == "arc"]) if any(x[0] == "arc" for x in pcs) else np.zeros((0, 2))
                if len(nodes) < 4 or np.abs(np.linalg.norm(nodes, axis=1) - 1).max() > TOL or np.abs(nodes.mean(axis=0)).max() > 0.3:
                    bad = "outline of %s is not the unit circle (centre %r radius %r)" % (type(p).__name__, getattr(p, "center", None), getattr(p, "radius", None))
            else:
                p = pats[0]
                if type(p).__name__ != "Rectangle":
                    bad = "expected a rectangle, found %s" % type(p).__name__
                else:
                    x0, y0 = p.get_xy()
                    if abs(y0) > 1e-12 or x0 > d.xlim[0] or x0 + p.get_width() < d.xlim[1] or y0 + p.get_height() < d.ylim[1]:
                        bad = "rectangle (%r, %r) + (%r, %r): spec: lower side on the real axis, covering the window x in %r, y up to %r" % (
                            x0, y0, p.get_width(), p.get_height(), list(d.xlim), d.ylim[1])
            dc.close(d)
        except Exception as ex:
            bad = "%s: %s" % (type(ex).__name__, ex)
        if bad:
            run.violation(key, "plane.region_of_the_model", dict(model=model, window=s["win"], spec=g, observed=bad))


def composite_barc(run):
    """a composite BoundaryArc can be built from an array of end point pairs, like every other PointPair"""
    H = hc.H()
    key = "barc:construct:composite"
    run.case(key=key, action="BoundaryArc[composite]")
    try:
        c = H.BoundaryArc(arr([[[1, 1, 0], [5, 3, 4]], [[5, -4, 3], [1, 0, -1]]]))
        bad = None if tuple(c.proj_data.shape) == (2, 3, 3) else "data of shape %r" % (c.proj_data.shape,)
    except Exception as ex:
        bad = "%s: %s" % (type(ex).__name__, ex)
    if bad:
        run.violation(key, "raised:BoundaryArc_composite",
                      dict(call="BoundaryArc([[[1,1,0],[5,3,4]], [[5,-4,3],[1,0,-1]]])", note="each of the two arcs can be constructed alone; composites of boundary arcs are "
                           "therefore drawn one unit at a time in this check", observed=bad))


def replay_extra(run, cases, rng, batch=10):
    groups = {}
    for s in cases:
        if s["kind"] == "plane":
            check_plane(run, s, rng)
            continue
        groups.setdefault((dc.word_key(s["word"]), s["kind"], s.get("fl", 0)), []).append(s)
    bywk = {}
    for (wk, kind, fl), ss in groups.items():
        bywk.setdefault(wk, []).append((kind, fl, ss))
    for wk in sorted(bywk):
        word = bywk[wk][0][2][0]["word"]
        for model in dc.MODELS:
            try:
                d = drawing_for(model, word, dc.DEFAULT_WINDOW, rng)
            except Exception as ex:
                run.violation("drawing:%s:%s" % (model, wk), "raised:drawing", dict(model=model, word=word, error="%s: %s" % (type(ex).__name__, ex)))
                continue
            for kind, fl, ss in sorted(bywk[wk], key=lambda t: (t[0], t[1])):
                ss = list(ss)
                rng.shuffle(ss)
                if kind == "barc":
                    for s in ss:
                        if s["geom"][model]["ok"]:
                            barc_unit(run, d, model, s)
                else:
                    ok = ss if model == "klein" else [s for s in ss if s["geom"][model]["ok"]]
                    if model == "klein":
                        ok = ok[:2]
                    i = 0
                    while i < len(ok):
                        k = 1 if rng.random() < 0.25 else batch
                        horoarc_batch(run, d, model, ok[i:i + k], rng)
                        i += k
            dc.close(d)


# ----------------------------------------------------------------------------------------
# projective lines / curves, 3-dimensional drawings
# ----------------------------------------------------------------------------------------
def line_data(l, dim):
    if dim == 3:
        return np.array([np.asarray(a, float) for a in l.get_data_3d()]).T
    return np.asarray(l.get_xydata(), float)


def replay_projx(run, scs, rng):
    from geometry_tools import projective as P
    D = dc.drawtools()
    groups = {}
    for s in scs:
        groups.setdefault((s["dim"], s["chart"], json.dumps(s["M"])), []).append(s)
    for (dim, chart, mk) in sorted(groups):
        grp = groups[(dim, chart, mk)]
        M = grp[0]["M"]
        fam = "proj%dd:chart%d" % (dim, chart)
        try:
            T = P.Transformation(arr(M), column_vectors=True)
            d = D.ProjectiveDrawing(transform=T, chart_index=chart) if dim == 2 else D.ProjectiveDrawing3D(transform=T, chart_index=chart)
        except Exception as ex:
            run.violation("%s:%s:drawing" % (fam, mk), "raised:drawing", dict(dim=dim, chart=chart, M=M, error="%s: %s" % (type(ex).__name__, ex)))
            continue
        lines_batch = []
        for s in grp:
            n = len(s["vecs"])
            want = np.array([rats(c) for c in s["aff"]])
            want0 = np.array([rats(c) for c in s["aff0"]]) if s["aff0"] else None
            data = arr(s["vecs"]) * float(s["rep"])
            key = "%s:%s:%d*%s" % (fam, mk, s["rep"], json.dumps(s["vecs"], separators=(",", ":")))
            methods = ["draw_curve"] + (["draw_point"] if dim == 3 else [])
            for meth in methods:
                run.case(key=(meth, key), action="%s[%dd, chart %d]" % (meth, dim, chart))
                bad, clause = None, "projective.%s_at_chart_coordinates" % meth[5:]
                try:
                    getattr(d, meth)(P.Point(data if n > 1 or rng.random() < 0.5 else data[0]))
                    ls = list(d.ax.lines)
                    got = np.vstack([np.atleast_2d(line_data(l, dim)) for l in ls]) if ls else np.zeros((0, dim))
                    if meth == "draw_curve" and len(ls) != 1:
                        bad = "expected one polyline, found %d lines" % len(ls)
                    elif got.shape != want.shape or np.abs(got - want).max() > TOL * max(1.0, float(np.abs(want).max())):
                        bad = "drawn at %r, spec (chart %d, in this order) %r" % (np.round(got, 9).tolist(), chart, want.tolist())
                        if dim == 3 and chart != 0 and want0 is not None and got.shape == want0.shape and np.abs(got - want0).max() <= TOL * max(1.0, float(np.abs(want0).max())):
                            clause = "proj3d.chart_index_ignored"
                except Exception as ex:
                    bad = "%s: %s" % (type(ex).__name__, ex)
                    if dim == 3 and chart != 0 and want0 is None:
                        clause = "proj3d.chart_index_ignored"
                dc.clear(d)
                if bad:
                    run.violation("%s:%s" % (key, meth), clause, dict(dim=dim, chart=chart, M=M, rep=s["rep"], vectors=s["vecs"], observed=bad))
            if dim == 2 and n >= 2:
                lines_batch.append(s)
        # lines: several pairs in one call
        i = 0
        while i < len(lines_batch):
            k = 1 if rng.random() < 0.3 else 6
            ss = lines_batch[i:i + k]
            i += k
            data = np.array([arr(s["vecs"][:2]) * float(s["rep"]) for s in ss])
            key = "%s:%s:line:%s" % (fam, mk, json.dumps([s["vecs"][:2] for s in ss[:2]], separators=(",", ":")))
            run.case(key=("draw_line", key, len(ss)), action="draw_line[chart %d]" % chart)
            run.evaluations += len(ss) - 1
            try:
                d.draw_line(P.PointPair(data if len(ss) > 1 else data[0]))
                paths = [np.asarray(pp.vertices, float) for c in d.ax.collections for pp in c.get_paths()]
                npat = len(d.ax.patches) + len(d.ax.lines)
            except Exception as ex:
                dc.clear(d)
                run.violation(key + ":raised", "raised:draw_line", dict(chart=chart, M=M, pairs=[s["vecs"][:2] for s in ss], error="%s: %s" % (type(ex).__name__, ex)))
                continue
            dc.clear(d)
            if len(paths) != len(ss) or npat:
                run.violation(key + ":count", "line.one_segment_per_unit", dict(chart=chart, M=M, lines=len(ss), segments=len(paths), others=npat))
                continue
            for s, v in zip(ss, paths):
                a, b = rats(s["aff"][0]), rats(s["aff"][1])
                u = (b - a) / np.linalg.norm(b - a)
                bad = None
                if v.shape != (2, 2) or not np.isfinite(v).all():
                    bad = "segment %r" % v.tolist()
                else:
                    off = np.abs((v - a) @ np.array([-u[1], u[0]])).max()
                    t = sorted(((v - a) @ u).tolist())
                    if off > 1e-9 * max(1.0, float(np.abs(v).max())):
                        bad = "segment %r is %.2e off the line through %r and %r" % (v.tolist(), off, a.tolist(), b.tolist())
                    else:
                        for fp in s["frame"]:
                            tf = float((rats(fp) - a) @ u)
                            if not (t[0] - 1e-9 <= tf <= t[1] + 1e-9):
                                bad = "segment %r does not reach the point %r where the line leaves the window" % (v.tolist(), rats(fp).tolist())
                                break
                if bad:
                    run.violation("%s:%s:line:%d*%s" % (fam, mk, s["rep"], json.dumps(s["vecs"][:2], separators=(",", ":"))), "line.on_the_line_across_the_window",
                                  dict(chart=chart, M=M, pair=s["vecs"][:2], spec_points=[a.tolist(), b.tolist()], frame=[rats(f).tolist() for f in s["frame"]], observed=bad))
        dc.close(d)


def drawing3d_given_axes(run):
    """Drawing3D accepts (ax, fig) like Drawing"""
    from geometry_tools import projective as P
    D = dc.drawtools()
    key = "proj3d:ax_fig_given"
    run.case(key=key, action="ProjectiveDrawing3D(ax, fig)")
    try:
        fig = dc.plt().figure()
        ax = fig.add_subplot(projection="3d")
        d = D.ProjectiveDrawing3D(ax=ax, fig=fig)
        d.draw_point(P.Point(arr([1, 1, 2, 3])))
        got = np.vstack([line_data(l, 3) for l in ax.lines]) if ax.lines else np.zeros((0, 3))
        bad = None if got.shape == (1, 3) and np.abs(got[0] - np.array([1, 2, 3.0])).max() <= TOL else "drawn %r in the given axes, spec [[1, 2, 3]]" % got.tolist()
        dc.plt().close(fig)
    except Exception as ex:
        bad = "%s: %s" % (type(ex).__name__, ex)
    if bad:
        run.violation(key, "drawing3d.accepts_ax_fig", dict(history=["fig = plt.figure(); ax = fig.add_subplot(projection='3d')", "d = ProjectiveDrawing3D(ax=ax, fig=fig)",
                                                                      "d.draw_point(Point([1, 1, 2, 3]))"], observed=bad))


# ----------------------------------------------------------------------------------------
# CP^1
# ----------------------------------------------------------------------------------------
def cplx(z):
    return complex(z[0], z[1])


def cmat(M):
    return np.array([[cplx(z) for z in row] for row in M], dtype=complex)


def cp1_drawing(s, rng):
    """a CP1Drawing with the word's transformation: the whole matrix through the constructor, or letter by letter"""
    from geometry_tools import projective as P
    D = dc.drawtools()
    mats = {"inv": [[0, 1], [1, 0]]}
    if not s["word"] or rng.random() < 0.5:
        return D.CP1Drawing(transform=P.Transformation(cmat(s["M"])) if s["word"] else None)
    d = D.CP1Drawing()
    for a in s["word"]:
        m = (np.array([[1, cplx(a["t"])], [0, 1]], dtype=complex) if a["k"] == "shift" else
             np.array([[1, 0], [0, a["f"]]], dtype=complex) if a["k"] == "scale" else np.array(mats["inv"], dtype=complex))
        d.add_transform(P.Transformation(m))
    return d


def make_disk(s):
    from geometry_tools import complex_projective as C
    dk = C.CP1Disk(np.array(cplx(s["disk"]["c"])), np.array(float(s["disk"]["r"])))
    return dk.complement() if s["disk"]["out"] else dk


def replay_cp1(run, scs, rng):
    from geometry_tools import complex_projective as C
    groups = {}
    for s in scs:
        groups.setdefault(json.dumps(s["word"]) + str(s["real"]), []).append(s)
    for gk in sorted(groups):
        grp = groups[gk]
        rng.shuffle(grp)
        fam = "cp1:%s" % ("real" if grp[0]["real"] else "complex")
        sfx = "" if grp[0]["real"] else ".complex_data"
        wk = json.dumps(grp[0]["word"], separators=(",", ":"))
        try:
            d = cp1_drawing(grp[0], rng)
        except Exception as ex:
            run.violation("%s:%s:drawing" % (fam, wk), "raised:drawing", dict(word=grp[0]["word"], error="%s: %s" % (type(ex).__name__, ex)))
            continue
        # points: the four boundary points and the centre of a few disks, in one call
        for s in grp[:3]:
            zs = [json.loads(k.replace("<<", "[").replace(">>", "]")) for k in s["pts"]]
            imgs = [s["pts"][k] for k in s["pts"]]
            if s["centre"]:
                zs.append(s["disk"]["c"])
                imgs.append(s["centre"])
            keep = [i for i, im in enumerate(imgs) if im and (not s["real"] or zs[i][1] == 0)]
            want = np.array([rats(imgs[i]) for i in keep])
            key = "%s:point:%s:%s" % (fam, wk, json.dumps([zs[i] for i in keep], separators=(",", ":")))
            run.case(key=key, action="cp1.draw_point")
            try:
                d.draw_point(C.CP1Point(np.array([[1, cplx(zs[i])] for i in keep], dtype=complex)))
                got = np.vstack([np.asarray(l.get_xydata(), float) for l in d.ax.lines]) if d.ax.lines else np.zeros((0, 2))
                bad = None if got.shape == want.shape and np.abs(got - want).max() <= TOL * max(1.0, float(np.abs(want).max())) else \
                    "drawn at %r, spec %r" % (np.round(got, 9).tolist(), want.tolist())
            except Exception as ex:
                bad = "%s: %s" % (type(ex).__name__, ex)
            dc.clear(d)
            if bad:
                run.violation(key, "cp1.point_at_affine_coordinate" + sfx, dict(word=s["word"], M=s["M"], points=[zs[i] for i in keep], observed=bad))
        # disks: units and composites, three styles
        i = 0
        while i < len(grp):
            k = 1 if rng.random() < 0.3 else 5
            ss = grp[i:i + k]
            i += k
            style = rng.choice(["outline", "filled", "filled_affine_only"])
            key = "%s:disk:%s:%s:%s" % (fam, wk, style, json.dumps([[s["disk"]["c"], s["disk"]["r"], s["disk"]["out"]] for s in ss[:2]], separators=(",", ":")))
            run.case(key=(key, len(ss)), action="cp1.draw_disk[%s]" % style)
            run.evaluations += len(ss) - 1
            want = [(rats(s["image"]["c"]), s["image"]["r"][0] / s["image"]["r"][1], s["image"]["out"]) for s in ss]
            bad = None
            try:
                from geometry_tools import complex_projective as CP
                disks = [make_disk(s) for s in ss]
                obj = disks[0] if len(ss) == 1 else CP.CP1Disk(np.array([dk.proj_data for dk in disks]))
                kw = {} if style == "outline" else dict(facecolor="red")
                if style == "filled_affine_only":
                    kw["draw_nonaffine"] = False
                d.draw_disk(obj, **kw)
                cols, pats = list(d.ax.collections), list(d.ax.patches)
                circ = []
                for c in cols:
                    off = np.asarray(c.get_offsets(), float).reshape(-1, 2)
                    wd, hg = np.asarray(c.get_widths(), float), np.asarray(c.get_heights(), float)
                    if c.get_offset_transform() != d.ax.transData or getattr(c, "_units", "xy") != "xy":
                        bad = "ellipse sizes / offsets are not in data coordinates"
                    circ += [(off[j], wd[j] / 2, hg[j] / 2) for j in range(len(off))]
                ann = [(np.asarray(p.center, float), float(np.max(p.radii if np.ndim(p.radii) else [p.radii])), float(p.width)) for p in pats] if all(type(p).__name__ == "Annulus" for p in pats) else None
                if bad is None and ann is None:
                    bad = "unexpected patches %r" % [type(p).__name__ for p in pats]
                exp_circ = [w for w in want if style == "outline" or not w[2]]
                exp_ann = [w for w in want if style == "filled" and w[2]]
                if bad is None and (len(circ) != len(exp_circ) or len(ann) != len(exp_ann)):
                    bad = "expected %d circles and %d annuli, found %d circles and %d patches" % (len(exp_circ), len(exp_ann), len(circ), len(ann))
                if bad is None:
                    used = set()
                    for (c0, r0, _) in exp_circ:
                        tol = TOL * max(1.0, r0, float(np.abs(c0).max())) * 100
                        hit = [j for j in range(len(circ)) if j not in used and np.abs(circ[j][0] - c0).max() <= tol and abs(circ[j][1] - r0) <= tol and abs(circ[j][2] - r0) <= tol]
                        if not hit:
                            bad = "no circle of the collection has centre %r radius %r; found %r" % (c0.tolist(), r0, [(np.round(x[0], 9).tolist(), float(x[1])) for x in circ])
                            break
                        used.add(hit[0])
                if bad is None:
                    corners = np.array([[x, y] for x in d.xlim for y in d.ylim])
                    used = set()
                    for (c0, r0, _) in exp_ann:
                        tol = TOL * max(1.0, r0, float(np.abs(c0).max())) * 100
                        hit = [j for j in range(len(ann)) if j not in used and np.abs(ann[j][0] - c0).max() <= tol and abs((ann[j][1] - ann[j][2]) - r0) <= tol
                               and np.linalg.norm(corners - c0, axis=1).max() <= ann[j][1]]
                        if not hit:
                            bad = "no annulus with hole centre %r radius %r reaching beyond the window; found (centre, outer, width) %r" % (c0.tolist(), r0, [(np.round(x[0], 9).tolist(), x[1], x[2]) for x in ann])
                            break
                        used.add(hit[0])
            except Exception as ex:
                bad = "%s: %s" % (type(ex).__name__, ex)
            dc.clear(d)
            if bad:
                run.violation(key, "cp1.disk_circle_and_side" + sfx,
                              dict(word=ss[0]["word"], M=ss[0]["M"], style=style, disks=[s["disk"] for s in ss], spec=[s["image"] for s in ss], observed=bad))
        dc.close(d)


def cp1_dimension(run):
    """CP1Drawing rejects objects that are not 1-dimensional"""
    from geometry_tools import projective as P, GeometryError
    D = dc.drawtools()
    d = D.CP1Drawing()
    for dim in (2, 3):
        key = "cp1:dimension:%d" % dim
        run.case(key=key, action="cp1.dimension")
        try:
            d.draw_point(P.Point(np.arange(1.0, dim + 2)))
            raised = None
        except GeometryError:
            raised = "GeometryError"
        except Exception as ex:
            raised = "%s: %s" % (type(ex).__name__, ex)
        n = len(d.ax.lines)
        dc.clear(d)
        if raised != "GeometryError" or n:
            run.violation(key, "cp1.dimension_rejected", dict(dimension=dim, raised=raised, artists=n))
    dc.close(d)


# ----------------------------------------------------------------------------------------
def run(run, replay=None):
    import warnings
    warnings.filterwarnings("ignore")
    np.seterr(all="ignore")
    quick = run.tier == "quick"
    rng = random.Random(run.seed)
    threshold = 80
    run.rule = ("one case per draw call (unit object or composite of the emitted states, per model); distinct_nontrivial = distinct draw calls")
    run.assumptions += [
        "boundary arcs between 6..8 ideal points, 0..2 flips, transformation words of length <= 1 (quick) / 2 in five exact isometries; half-plane "
        "ends inside the default window or at infinity",
        "horocyclic arcs: end points of the perfect-square box universe (B = 4 / 7) on one horocycle; radius = threshold excluded; centre moved to "
        "infinity by a non-trivial word excluded (rounding)",
        "projective: vectors with entries <= 2 (3), three matrices per dimension, representatives scaled by 1 and -2; lines through two points "
        "inside the default window (-5, 5)^2",
        "CP^1: circles with Gaussian-integer centre (parts <= 1 / 2), radius 1..2 (3), both sides, words of length <= 2 in shift / scale / inversion",
        "not covered: styles, rasterisation, draw_nonaff_polygon, Drawing3D.view_ctr / view_diam",
    ]
    jobs = TLCJobs(run)
    ex_inv = ["ArcLaws", "HoroArcLaws", "PlaneLaws", "EmitCase"]
    if quick:
        ex = [dict(name="extra_arcs", B=4, MaxWord=1, MaxFlips=2, Kinds={"barc", "plane"}, NIdeal=6),
              dict(name="extra_horoarcs", B=4, MaxWord=1, MaxFlips=0, Kinds={"horoarc"}, NIdeal=4)]
        px = [dict(name="projx_2d", PD=2, BP=2, MaxVecs=4, simulate=24, depth=6), dict(name="projx_3d", PD=3, BP=2, MaxVecs=4, simulate=8, depth=6)]
        cp = dict(CB=1, RMax=2, MaxWordC=2)
    else:
        ex = [dict(name="extra_arcs", B=5, MaxWord=2, MaxFlips=2, Kinds={"barc", "plane"}, NIdeal=8),
              dict(name="extra_horoarcs", B=7, MaxWord=1, MaxFlips=0, Kinds={"horoarc"}, NIdeal=8)]
        px = [dict(name="projx_2d", PD=2, BP=3, MaxVecs=6, simulate=120, depth=8), dict(name="projx_3d", PD=3, BP=2, MaxVecs=6, simulate=80, depth=8)]
        cp = dict(CB=2, RMax=3, MaxWordC=2)
    for e in ex:
        e = dict(e)
        name = e.pop("name")
        c = core.cfg(constants=dict(N=2, Threshold=threshold, **e), invariants=ex_inv, view="View")
        jobs.start("draw/DrawExtraScene.tla", c, name, workers=W(2))
    for p in px:
        p = dict(p)
        name, sim, depth = p.pop("name"), p.pop("simulate"), p.pop("depth")
        c = core.cfg(constants=dict(WinR=5, **p), invariants=["LineLaws", "RoundTrip", "ScaleFree", "EmitProjX"])
        jobs.start("draw/DrawProjExtra.tla", c, name, workers=W(2), simulate=sim, depth=depth)
    c = core.cfg(constants=cp, invariants=["CircleMapped", "SideMapped", "PositiveRadius", "ComplementCommutes", "EmitCP1"])
    jobs.start("draw/DrawCP1.tla", c, "cp1", workers=W(2))

    ncases = 0
    for e in ex:
        cases = jobs.result(e["name"]).emits
        ncases += len(cases)
        replay_extra(run, cases, rng)
        for kind in ("barc", "horoarc"):
            sel = [s for s in cases if s["kind"] == kind]
            if sel:
                s = sel[len(sel) // 2]
                run.sample(dict(kind="state (%s)" % kind, **{k: v for k, v in s.items() if k not in ("kind", "twice")}))
    for p in px:
        r = jobs.result(p["name"])
        seen, scs = set(), []
        for e in r.emits:
            k = json.dumps([e["chart"], e["M"], e["rep"], e["vecs"]])
            if k not in seen:
                seen.add(k)
                scs.append(e)
        ncases += len(scs)
        replay_projx(run, scs, rng)
        if scs:
            run.sample(dict(kind="projective scene (%dd)" % p["PD"], **{k: v for k, v in scs[len(scs) // 2].items() if k != "kind"}))
    composite_barc(run)
    drawing3d_given_axes(run)
    scs = jobs.result("cp1").emits
    if quick:
        rng.shuffle(scs)
        scs = scs[:400]
    ncases += len(scs)
    replay_cp1(run, scs, rng)
    cp1_dimension(run)
    if scs:
        run.sample(dict(kind="CP1 state", **scs[0]))
    run.extra["emitted_states_replayed"] = ncases
    run.traces += ncases
    dc.plt().close("all")
