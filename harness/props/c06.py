"""C06 — automaton-driven enumeration returns exactly the accepted words and their images.

spec/enum/Enumerate.tla: TLC checks on every automaton of the universe that the library's
recursion (transcribed as Rec) computes the declarative meaning Ref for both directions and
both length rules, that there is one word per accepting path, and that the Sanov images of
distinct accepted words are distinct; it prints the exact integer image of every word
(EVAL) and emits the labelled transition system of *calls sharing one memo dictionary*.
Conformance: (A) every transition of that LTS is replayed on the real Representation with a
real shared `precomputed` dict; (B) every single call (direction x state x length x maxlen
x with_words x edge_words) on every automaton of the FSAOps path table; (C) multi-letter
labels (spec/enum/EnumerateML.tla: the returned strings form a bag, one entry per accepting path, also when two paths
spell the same string; k-multiple automata; multi-character generator names); (D) freely reduced
enumeration against Words.tla; built-in automata.
"""
import itertools
import json
import multiprocessing as mp
import random

import numpy as np

from .. import core
from .. import fsa_common as fc
from .. import fsa_ops

EVAL = None
TABLE = None
LTS = None


def W(w):
    return "".join(w)


GEN_B = {0: np.array([[1.0, 0.0], [2.0, 1.0]]), 1: np.array([[1.0, 0.0], [3.0, 1.0]])}


def make_rep(names=None):
    from geometry_tools import representation
    rep = representation.Representation()
    a, b = ("a", "b") if names is None else names
    rep[a] = np.array([[1.0, 2.0], [0.0, 1.0]])
    rep[b] = GEN_B[0].copy()
    return rep


def make_complex_rep():
    """the same representation conjugated by D = diag(1, i): rho_c(g) = D rho(g) D^-1, entries
    [[m00, -i m01], [i m10, m11]] - genuinely complex matrices whose images follow from the spec's integer images"""
    from geometry_tools import representation
    rep = representation.Representation()
    rep["a"] = np.array([[1.0, -2.0j], [0.0, 1.0]])
    rep["b"] = np.array([[1.0, 0.0], [2.0j, 1.0]])
    return rep


def complex_table(evalt):
    out = {}
    for w, m in evalt.items():
        out[w] = np.array([[m[0, 0], -1j * m[0, 1]], [1j * m[1, 0], m[1, 1]]])
    return out


def make_fsa(vs, E, start=0, relabel=None):
    FSA = fc.fsa_mod().FSA
    d = {v: {} for v in vs}
    for (t, l, h) in E:
        d[t][relabel[l] if relabel else l] = h
    return FSA(d, start_vertices=[start])


def parse_eval(stdout):
    for line in stdout.splitlines():
        if line.startswith('"EVAL '):
            tab = json.loads(json.loads(line)[5:])
            return {v: {tuple(w): np.array(m, dtype=float) for vv, w, m in tab if vv == v} for v in (0, 1)}
    raise core.MachineryFailure("no EVAL table printed by Enumerate.tla")


def check_result(res, want_words, with_words, evalt, letters_of=None):
    """res: library result; want_words: list of label tuples. Returns None or (clause, detail)."""
    want = sorted(W(w) for w in want_words)
    if with_words:
        try:
            mats, words = res
        except Exception:
            return ("shape", "with_words result is not a pair: %r" % (type(res),))
        if sorted(words) != want:
            return ("words", "returned %r, spec %r" % (sorted(words), want))
        if not isinstance(mats, np.ndarray):
            return ("elements.type", "documented: `elements` is an ndarray containing one matrix for each accepted word; got %s" % type(mats).__name__)
        mats = np.asarray(mats)
        if mats.shape != (len(words), 2, 2):
            return ("matrices.shape", "%r for %d words" % (mats.shape, len(words)))
        bykey = {W(w): w for w in want_words}
        for i, w in enumerate(words):
            if not np.allclose(mats[i], evalt[tuple(bykey[w])], rtol=0, atol=1e-9):
                return ("matrices[i] != image(words[i])", "word %r: %r, spec %r" % (w, mats[i].tolist(), evalt[tuple(bykey[w])].tolist()))
    else:
        if not isinstance(res, np.ndarray):
            return ("elements.type", "documented: the result is an ndarray containing one matrix for each accepted word; got %s" % type(res).__name__)
        mats = np.asarray(res)
        if mats.shape != (len(want), 2, 2):
            return ("count", "returned %r matrices, spec %d words" % (mats.shape, len(want)))
        def flat(m):
            m = np.asarray(m).astype(complex).flatten()
            return tuple(np.round(np.concatenate([m.real, m.imag]), 6) + 0.0)
        got = sorted(flat(m) for m in mats)
        exp = sorted(flat(evalt[tuple(w)]) for w in want_words)
        if got != exp:
            return ("matrices", "multiset of matrices differs from the images of the accepted words")
    return None


def ref_words(t, dirn, st, L, maxlen, start=0):
    """meaning of a call, from the FSAOps path table (theorems RecIsRef/DefaultIsStart of Enumerate.tla)"""
    lens = range(0, L + 1) if maxlen else [L]
    out = []
    for k in lens:
        if dirn == "end":
            out += [w for (w, e) in t["lang_raw"][start][k] if e == st]
        else:
            out += [w for (w, e) in t["lang_raw"][st][k]]
    return out


def single_calls_chunk(args):
    keys, maxL, seed = args
    rep = make_rep()
    rep2 = make_rep(("s0", "s1"))
    repc = make_complex_rep()
    evalc = complex_table(EVAL[0])
    n = 0
    viol = []
    sample = None
    for key in keys:
        t = TABLE[key]
        vs, E = t["vs"], t["E"]
        if 0 not in vs:
            continue
        f = make_fsa(vs, E)
        if E:
            # the same automaton reached through an edit history: built without one edge (a parallel one if
            # there is any), the edge added afterwards
            par = [e for e in sorted(E) if any(o != e and o[0] == e[0] and o[2] == e[2] for o in E)]
            last = (par or sorted(E))[-1]
            f = make_fsa(vs, E - {last})
            f.add_edges([(last[0], last[2], last[1])])
        relab = {"a": "s0", "B": "S1", "b": "s1", "A": "S0"}
        f2 = make_fsa(vs, E, relabel=relab)
        for dirn in ("none", "start", "end"):
            for st in ([0] if dirn == "none" else sorted(vs)):
                for L in range(0, maxL + 1):
                    for mx in (True, False):
                        want = ref_words(t, "start" if dirn == "none" else dirn, st, L, mx)
                        for ww in (True, False):
                            for ew in (True, False):
                                kw = dict(maxlen=mx, with_words=ww, edge_words=ew)
                                if dirn == "start":
                                    kw["start_state"] = st
                                elif dirn == "end":
                                    kw["end_state"] = st
                                n += 1
                                try:
                                    res = rep.automaton_accepted(f, L, **kw)
                                    bad = check_result(res, want, ww, EVAL[0])
                                    if bad is None and ew:
                                        # a genuinely complex representation (same group, conjugated by diag(1, i))
                                        resc = repc.automaton_accepted(f, L, **kw)
                                        bad = check_result(resc, want, ww, evalc)
                                        if bad:
                                            bad = ("complex:" + bad[0], bad[1])
                                    if bad is None and not ew:
                                        # multi-character generator names, labels read as single generators
                                        res2 = rep2.automaton_accepted(f2, L, **kw)
                                        want2 = [tuple(relab[x] for x in w) for w in want]
                                        ev2 = {tuple(relab[x] for x in w): m for w, m in EVAL[0].items()}
                                        bad = check_result(res2, want2, ww, ev2)
                                        if bad:
                                            bad = ("multichar:" + bad[0], bad[1])
                                except Exception as e:
                                    bad = ("raised", "%s: %s" % (type(e).__name__, e))
                                if bad and len(viol) < 10:
                                    viol.append((dict(vs=sorted(vs), E=sorted(E), dir=dirn, state=st, L=L, **kw), bad))
                                if sample is None and len(want) > 2 and ww:
                                    sample = dict(kind="single call", vs=sorted(vs), E=sorted(E), dir=dirn, state=st, L=L,
                                                  maxlen=mx, words=sorted(W(w) for w in want))
        # agreement with the automaton's own enumeration
        try:
            got = sorted(f.enumerate_words(maxL, with_states=False))
            mats, words = rep.automaton_accepted(f, maxL, with_words=True)
            if sorted(words) != got and len(viol) < 10:
                viol.append((dict(vs=sorted(vs), E=sorted(E), what="enumerate_words"), ("agrees_with_enumerate_words", "%r != %r" % (sorted(words), got))))
        except Exception as e:
            if len(viol) < 10:
                viol.append((dict(vs=sorted(vs), E=sorted(E), what="enumerate_words"), ("raised:agrees_with_enumerate_words", "%s: %s" % (type(e).__name__, e))))
    return n, viol, sample


def replay_lts_chunk(args):
    inits, = args
    n = 0
    viol = []
    nstates = 0
    sample = None
    for ik in inits:
        vs, E = ik[0], ik[1]
        f = make_fsa(vs, E)
        seen = {ik}
        frontier = [(ik, {}, (), make_rep())]
        while frontier:
            nxt = []
            for (sk, memo, hist, rep0) in frontier:
                nstates += 1
                for act, tk in LTS.get(sk, []):
                    import copy as _copy
                    rep = _copy.deepcopy(rep0)
                    if act["a"] == "reassign":
                        # the SAME representation object gets a new matrix for "b" (its inverse "B" is recomputed)
                        rep["b"] = GEN_B[act["ver"]].copy()
                        n += 1
                        h2 = hist + ("reassign(b:=version %d)" % act["ver"],)
                        # the representation may carry hidden state from the calls made before (caches): every
                        # predecessor is continued separately, not only the first one reaching this spec state
                        if (tk, sk) not in seen:
                            seen.add((tk, sk))
                            nxt.append((tk, {}, h2, rep))
                        continue
                    m2 = dict(memo)
                    kw = dict(maxlen=act["maxlen"], with_words=act["with_words"], precomputed=m2)
                    if act["dir"] == "start":
                        kw["start_state"] = act["st"]
                    elif act["dir"] == "end":
                        kw["end_state"] = act["st"]
                    h2 = hist + ("%s(st=%s,L=%d,maxlen=%s,ww=%s)" % (act["dir"], act["st"], act["L"], act["maxlen"], act["with_words"]),)
                    n += 1
                    try:
                        res = rep.automaton_accepted(f, act["L"], **kw)
                        bad = check_result(res, [tuple(w) for w in act["words"]], act["with_words"], EVAL[tk[5]])
                        if bad is None:
                            bad = check_memo(m2, tk, act, vs, E)
                    except Exception as e:
                        bad = ("raised", "%s: %s" % (type(e).__name__, e))
                    if bad:
                        if len(viol) < 10:
                            viol.append((dict(vs=sorted(vs), E=sorted(E), history=list(h2)), bad))
                        continue
                    if sample is None and len(h2) >= 2 and len(act["words"]) > 1:
                        sample = dict(kind="memo history", vs=sorted(vs), E=sorted(E), calls=list(h2), last_words=[W(w) for w in act["words"]])
                    if tk not in seen:
                        seen.add(tk)
                        nxt.append((tk, m2, h2, rep))
            frontier = nxt
    return n, viol, nstates, sample


def check_memo(memo, tk, act, vs, E):
    """every entry of the caller's memo denotes the reference value of its key (no stale or
    cross-polluted entry) and no key outside those the specification allows is stored"""
    allowed = tk[2]
    mode = tk[3]
    step = {}
    for (t, l, h) in E:
        step.setdefault(t, []).append((l, h))
    rstep = {}
    for (t, l, h) in E:
        rstep.setdefault(h, []).append((l, t))

    def ref(dirn, st, L, mx):
        # declarative recomputation for memo entries only (small): all words by walking
        out = []
        def go(s, k, acc):
            if k == 0:
                out.append(acc)
                return
            for (l, h) in step.get(s, []):
                go(h, k - 1, acc + (l,))
        lens = range(0, L + 1) if mx else [L]
        if dirn == "start":
            for k in lens:
                go(st, k, ())
            return out
        for k in lens:
            out2 = []
            def go2(s, k2, acc):
                if k2 == 0:
                    if s == st:
                        out2.append(acc)
                    return
                for (l, h) in step.get(s, []):
                    go2(h, k2 - 1, acc + (l,))
            go2(0, k, ())
            out += out2
        return out
    for key, val in memo.items():
        if tuple(key) not in allowed:
            return ("memo.key", "memo holds key %r outside the specified set %r" % (key, sorted(allowed)))
        L, st = key
        want = ref(mode[0], st, L, mode[1])
        bad = check_result(val, want, mode[2], EVAL[tk[5]])
        if bad:
            return ("memo[%r]:%s" % (key, bad[0]), bad[1])
    return None


def lts_key(s):
    return (frozenset(s["vs"]), frozenset(tuple(e) for e in s["E"]), frozenset(tuple(k) for k in s["mk"]),
            tuple(s["mode"]), s["n"], s["ver"])


def free_reduced(run):
    """freely reduced enumeration against spec/lib/Words.tla"""
    c = core.cfg(constants=dict(Gens={"a", "b"}, MaxLen=4), invariants=["ReducedCount", "ReduceIdempotent", "ReduceSound"])
    r = run.tlc("lib/Words.tla", c, name="Words", workers=4, emit_prefix="REDUCED ")
    red = sorted(W(w) for w in r.emits[0])
    rep = make_rep()
    for L in range(0, 5):
        for mx in (True, False):
            want = sorted(w for w in red if (len(w) <= L if mx else len(w) == L))
            mats, words = rep.freely_reduced_elements(L, maxlen=mx, with_words=True)
            run.case(key=("free", L, mx), action="freely_reduced_elements")
            plain = rep.freely_reduced_elements(L, maxlen=mx)
            if not (isinstance(mats, np.ndarray) and isinstance(plain, np.ndarray) and np.shape(mats) == np.shape(plain) == (len(words), 2, 2)):
                run.violation("free:%d:%s:type" % (L, mx), "freely_reduced_elements.elements_type",
                              dict(L=L, maxlen=mx, got=[type(mats).__name__, type(plain).__name__, list(np.shape(mats))], want="ndarray (n_words, 2, 2)"))
                continue
            if sorted(words) != want:
                run.violation("free:%d:%s" % (L, mx), "freely_reduced_elements.words", dict(L=L, maxlen=mx, got=sorted(words)[:20], want=want[:20]))
                continue
            for m, w in zip(mats, words):
                if not np.allclose(m, rep[w], atol=1e-9):
                    run.violation("free:%d:%s:%s" % (L, mx, w), "freely_reduced_elements.matrices", dict(word=w))
                    break
            n = len(rep.freely_reduced_elements(L, maxlen=mx))
            if n != len(want):
                run.violation("free:%d:%s:count" % (L, mx), "freely_reduced_elements.count", dict(got=n, want=len(want)))
        got = list(rep.free_words_of_length(L))
        want = sorted(w for w in red if len(w) == L)
        if sorted(got) != want:
            run.violation("free_words_of_length:%d" % L, "free_words_of_length", dict(got=sorted(got)[:20], want=want[:20]))
        got = sorted(rep.free_words_less_than(L))
        ok = got == sorted(w for w in red if len(w) < L) or got == sorted(w for w in red if len(w) <= L)
        if not ok:
            run.violation("free_words_less_than:%d" % L, "free_words_less_than", dict(got=got[:20]))
    # f2.wa / f2.geowa are the freely reduced words too
    from geometry_tools.automata import fsa
    for name in ("f2.wa", "f2.geowa"):
        f = fsa.load_builtin(name)
        got = sorted(f.enumerate_words(4))
        run.case(key=("free", name), action="builtin_f2")
        if got != red:
            run.violation("builtin:" + name, "f2.language", dict(got=got[:10], want=red[:10]))


def builtin_and_multiples(run):
    """built-in automata (single letters a..) and k-multiple automata (multi-letter labels read as words):
    returned matrices are the images of the returned words and the words are the accepted words"""
    from geometry_tools.automata import fsa
    from geometry_tools import representation
    rng = random.Random(run.seed)
    for name in sorted(fsa.list_builtins()):
        f = fsa.load_builtin(name)
        labels = sorted({l for (_, _, l) in f.edges(with_labels=True)})
        rep = representation.Representation()
        for g in labels:
            if g.lower() == g:
                M = np.array([[1.0, rng.randint(1, 3)], [0.0, 1.0]]) @ np.array([[1.0, 0.0], [rng.randint(1, 3), 1.0]])
                rep[g] = M
        if any(l not in rep.generators for l in labels):
            continue
        for (auto, L, tag) in ((f, 4, ""), (f.automaton_multiple(2), 2, "^2")):
            if tag and len(list(f.vertices())) * len(labels) ** 2 > 20000:
                continue
            for mx in (True, False):
                run.case(key=("builtin", name, tag, mx), action="automaton_accepted_builtin")
                try:
                    mats, words = rep.automaton_accepted(auto, L, maxlen=mx, with_words=True)
                    want = sorted("".join(w) if not isinstance(w, str) else w for w in
                                  (auto.enumerate_words(L) if mx else auto.enumerate_fixed_length_paths(L)))
                    if sorted(words) != want:
                        run.violation("builtin:%s%s:%s" % (name, tag, mx), "builtin.words", dict(file=name, n_got=len(words), n_want=len(want)))
                        continue
                    ok = all(np.allclose(m, rep[w], rtol=1e-9, atol=1e-9) for m, w in zip(mats, words))
                    if not ok:
                        run.violation("builtin:%s%s:%s:mat" % (name, tag, mx), "builtin.matrices", dict(file=name))
                    n = len(rep.automaton_accepted(auto, L, maxlen=mx))
                    if n != len(want):
                        run.violation("builtin:%s%s:%s:count" % (name, tag, mx), "builtin.count", dict(file=name, got=n, want=len(want)))
                except Exception as e:
                    run.violation("builtin:%s%s:%s:raise" % (name, tag, mx), "raised:builtin", dict(file=name, error="%s: %s" % (type(e).__name__, e)))


ML_IMG = None


def ml_chunk(args):
    """multi-letter labels: every call on every automaton of the chunk against the bag of strings EnumerateML.tla
    specifies (a string once per accepting path spelling it)"""
    from collections import Counter
    obs, = args
    rep = make_rep()
    n = 0
    viol = []
    sample = None

    def bag_of(entries):
        c = Counter()
        for s, m in entries:
            c[W(s)] += m
        return c

    def check(res, bag, ww):
        total = sum(bag.values())
        if ww:
            try:
                mats, words = res
            except Exception:
                return ("shape", "with_words result is not a pair: %r" % (type(res),))
            if Counter(words) != bag:
                return ("words", "returned %r, spec (string: number of accepting paths) %r" % (sorted(Counter(words).items()), sorted(bag.items())))
            if not isinstance(mats, np.ndarray):
                return ("elements.type", "documented: `elements` is an ndarray; got %s" % type(mats).__name__)
            if mats.shape != (total, 2, 2):
                return ("matrices.shape", "%r for %d words" % (mats.shape, total))
            for i, w in enumerate(words):
                if not np.allclose(mats[i], ML_IMG[w], rtol=0, atol=1e-9):
                    return ("matrices[i] != image(words[i])", "word %r: %r, spec %r" % (w, mats[i].tolist(), ML_IMG[w].tolist()))
        else:
            if not isinstance(res, np.ndarray):
                return ("elements.type", "documented: the result is an ndarray; got %s" % type(res).__name__)
            mats = res
            if mats.shape != (total, 2, 2):
                return ("count", "returned %r matrices, spec %d accepting paths" % (mats.shape, total))
            got = sorted(tuple(np.round(m.flatten(), 6) + 0.0) for m in mats)
            exp = sorted(tuple(ML_IMG[w].flatten() + 0.0) for w, m in bag.items() for _ in range(m))
            if got != exp:
                return ("matrices", "multiset of matrices differs from the images of the accepted words (one per path)")
        return None

    for o in obs:
        vs = set(o["vs"])
        E = {(e[0], W(e[1]), e[2]) for e in o["E"]}
        f = make_fsa(vs, E)
        ctx0 = dict(vs=sorted(vs), E=sorted(E))
        for call in o["calls"]:
            bag = bag_of(call["bag"])
            for dirn in ((call["dir"], "none") if (call["dir"] == "start" and call["st"] == 0) else (call["dir"],)):
                for ww in (True, False):
                    kw = dict(maxlen=call["maxlen"], with_words=ww, edge_words=True)
                    if dirn == "start":
                        kw["start_state"] = call["st"]
                    elif dirn == "end":
                        kw["end_state"] = call["st"]
                    n += 1
                    try:
                        bad = check(rep.automaton_accepted(f, call["L"], **kw), bag, ww)
                    except Exception as e:
                        bad = ("raised", "%s: %s" % (type(e).__name__, e))
                    if bad and len(viol) < 10:
                        viol.append((dict(ctx0, dir=dirn, state=call["st"], L=call["L"], **kw), bad))
                    if sample is None and ww and max(bag.values(), default=0) > 1:
                        sample = dict(kind="multi-letter labels", vs=sorted(vs), E=sorted(E), dir=dirn, state=call["st"], L=call["L"],
                                      maxlen=call["maxlen"], returned_strings_with_multiplicity=sorted(bag.items()))
            # agreement with the automaton's own enumeration (it lists paths too)
            if call["dir"] == "start":
                n += 1
                try:
                    if call["maxlen"]:
                        got = Counter(f.enumerate_words(call["L"], start_vertex=call["st"]))
                        what = "enumerate_words"
                    else:
                        got = Counter(f.enumerate_fixed_length_paths(call["L"], start_vertex=call["st"]))
                        what = "enumerate_fixed_length_paths"
                    bad = None if got == bag else ("agrees_with_" + what, "(%d, start %r) lists %r, accepting paths spell %r"
                                                   % (call["L"], call["st"], sorted(got.items()), sorted(bag.items())))
                except Exception as e:
                    bad = ("raised:own_enumeration", "%s: %s" % (type(e).__name__, e))
                if bad and len(viol) < 10:
                    viol.append((dict(ctx0, what="own enumeration", state=call["st"], L=call["L"], maxlen=call["maxlen"]), bad))
        for own in o["own"]:
            n += 1
            want = Counter()
            for s_, end, m in own["bag"]:
                want[(W(s_), end)] += m
            try:
                got = Counter(f.enumerate_fixed_length_paths(own["k"], start_vertex=own["st"], with_states=True))
                bad = None if got == want else ("enumerate_fixed_length_paths.with_states", "(%d, %r) lists %r, spec %r"
                                                % (own["k"], own["st"], sorted(got.items()), sorted(want.items())))
            except Exception as e:
                bad = ("raised:own_enumeration", "%s: %s" % (type(e).__name__, e))
            if bad and len(viol) < 10:
                viol.append((dict(ctx0, what="own enumeration with states", state=own["st"], k=own["k"]), bad))
    return n, viol, sample


def multi_letter(run):
    """(C') labels of several letters, including automata in which different accepting paths spell the same string"""
    global ML_IMG
    quick = run.tier == "quick"
    labels = [("a",), ("a", "a"), ("a", "B"), ("B",)]
    mod = core.write_module(run.work + "/ml", "EnumerateML_w", ["EnumerateML"], "LabelsDef == %s" % core.tla_expr(set(labels)))
    c = core.cfg(constants=dict(Verts={0, 1}, Start=0, MaxLen=3, MaxEdges=3 if quick else 4),
                 invariants=["BagCountsPaths", "OncePerPath", "SingleLettersSpellUniquely", "ImageIsEdgeProduct", "EmitML"],
                 extra="CONSTANT Labels <- LabelsDef")
    r = run.tlc(mod, c, name="EnumerateML", workers=min(8, core.NCPU), emit_prefix="ML ")
    ML_IMG = None
    for line in r.stdout.splitlines():
        if line.startswith('"IMG '):
            ML_IMG = {W(w): np.array(m, dtype=float) for w, m in json.loads(json.loads(line)[4:])}
    if ML_IMG is None:
        raise core.MachineryFailure("no IMG table printed by EnumerateML.tla")
    obs = sorted(r.emits, key=lambda o: json.dumps([o["vs"], o["E"]], sort_keys=True))
    if quick:
        rng = random.Random(run.seed)
        small = [o for o in obs if len(o["E"]) <= 2]
        amb = [o for o in obs if len(o["E"]) > 2 and o["ambiguous"]]
        rest = [o for o in obs if len(o["E"]) > 2 and not o["ambiguous"]]
        obs = small + rng.sample(amb, min(len(amb), 60)) + rng.sample(rest, min(len(rest), 60))
    n_amb = sum(1 for o in obs if o["ambiguous"])
    if not n_amb:
        raise core.MachineryFailure("EnumerateML.tla: no automaton in which two accepting paths spell the same string")
    n = min(core.NCPU, len(obs))
    with mp.get_context("fork").Pool(n) as pool:
        outs = pool.map(ml_chunk, [(obs[i::n],) for i in range(n)])
    tot = 0
    for (k, viol, sample) in outs:
        tot += k
        for ctx, bad in viol:
            run.violation("ml:" + json.dumps(ctx, sort_keys=True, default=str)[:300], "multi_letter:" + bad[0], dict(case=ctx, observed=bad[1]))
        if sample:
            run.sample(sample)
    run.evaluations += tot
    run.traces += tot
    run.nontrivial_count += tot
    run.actions["call(multi-letter labels)"] = tot
    run.extra["multi_letter"] = dict(automata=len(obs), with_two_paths_spelling_one_string=n_amb, labels=["".join(l) for l in labels])


def run(run, replay=None):
    global EVAL, TABLE, LTS
    quick = run.tier == "quick"
    run.rule = ("a case is one call of automaton_accepted (or one replayed LTS transition) on the real Representation; "
                "distinct_nontrivial counts distinct (automaton, options) cases whose expected word list is non-empty "
                "is not measured separately: it counts distinct automata x option combinations executed")
    run.assumptions += [
        "generators: Sanov matrices a=[[1,2],[0,1]], b=[[1,0],[2,1]] (free, exact in float64)",
        "one memo dictionary is shared only between calls with equal (direction, maxlen, with_words): the key carries only (length, state)",
        "automata <= 3 states over labels {a, B}; lengths 0..3 (4 thorough)",
    ]
    maxL = 3 if quick else 4
    # (A) memo histories
    verts = {0, 1}
    c = core.cfg(constants=dict(Verts=verts, Labels={"a", "B"}, Start=0, MaxLen=3, MaxCalls=2 if quick else 3),
                 invariants=["RecIsRef", "OncePerPath", "DefaultIsStart", "Faithful", "MemoSound"], view="View",
                 action_constraints=["Emit"])
    r = run.tlc("enum/Enumerate.tla", c, name="Enumerate_hist", workers=min(8, core.NCPU))
    EVAL = parse_eval(r.stdout)
    LTS = {}
    inits = set()
    for e in r.emits:
        fk, tk = lts_key(e["from"]), lts_key(e["to"])
        LTS.setdefault(fk, []).append((e["act"], tk))
        if fk[4] == 0:
            inits.add(fk)
    inits = sorted(inits, key=repr)
    n = min(core.NCPU, len(inits))
    with mp.get_context("fork").Pool(n) as pool:
        outs = pool.map(replay_lts_chunk, [(inits[i::n],) for i in range(n)])
    tot = 0
    for (k, viol, nst, sample) in outs:
        tot += k
        run.nontrivial_count += nst
        for ctx, bad in viol:
            run.violation("hist:" + json.dumps(ctx, sort_keys=True, default=str)[:300], "history:" + bad[0], dict(case=ctx, observed=bad[1]))
        if sample:
            run.sample(sample)
    run.evaluations += tot
    run.traces += tot
    run.actions["call(shared memo)"] = tot
    # (B) single calls on every automaton of the universe
    if maxL > 3:
        c = core.cfg(constants=dict(Verts={0}, Labels={"a", "B"}, Start=0, MaxLen=maxL, MaxCalls=0),
                     invariants=["RecIsRef"], view="View")
        r = run.tlc("enum/Enumerate.tla", c, name="Enumerate_eval", workers=1)
        EVAL = parse_eval(r.stdout)
    from . import c10
    TABLE = {}
    c = core.cfg(constants=dict(Verts={0, 1, 2}, Labels={"a", "B"}, Start=0, MaxLen=maxL, MaxMult=1, Foreign="z"),
                 invariants=["EnumerationIsAcceptance", "EmitObs"])
    r = run.tlc("fsa/FSAOps.tla", c, name="FSAOps_paths", workers=core.NCPU, emit_prefix="OBS ")
    for o in r.emits:
        t = dict(vs=set(o["vs"]), E={tuple(e) for e in o["E"]})
        t["lang_raw"] = {v: {k: [(tuple(p[0]), p[1]) for p in ps] for k, ps in fsa_ops.as_map(d).items()}
                         for v, d in fsa_ops.as_map(o["lang"]).items()}
        TABLE[fsa_ops.obs_key(o)] = t
    keys = sorted(TABLE, key=repr)
    if quick:
        rng = random.Random(run.seed)
        small = [k for k in keys if len(k[0]) <= 2]
        big = [k for k in keys if len(k[0]) > 2]
        keys = small + rng.sample(big, min(len(big), 500))
    n = core.NCPU
    with mp.get_context("fork").Pool(n) as pool:
        outs = pool.map(single_calls_chunk, [(keys[i::n], maxL, run.seed) for i in range(n)])
    tot = 0
    for (k, viol, sample) in outs:
        tot += k
        for ctx, bad in viol:
            run.violation("call:" + json.dumps(ctx, sort_keys=True, default=str)[:300], "call:" + bad[0], dict(case=ctx, observed=bad[1]))
        if sample:
            run.sample(sample)
    run.evaluations += tot
    run.traces += tot
    run.nontrivial_count += tot
    run.actions["call(single)"] = tot
    run.extra["automata_for_single_calls"] = len(keys)
    for part in (multi_letter, free_reduced, builtin_and_multiples):
        try:
            part(run)
        except core.MachineryFailure:
            raise
        except Exception as e:      # a library call of this part raised on an in-domain input
            import traceback
            tb = traceback.extract_tb(e.__traceback__)
            where = next((f for f in reversed(tb) if "geometry_tools" in f.filename), tb[-1])
            run.violation("%s:raised:%s" % (part.__name__, type(e).__name__), "raised:" + part.__name__,
                          dict(error="%s: %s" % (type(e).__name__, e), where="%s:%d %s" % (where.filename, where.lineno, where.name)))
