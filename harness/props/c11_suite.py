"""C04 / C11 code -> spec on the repository's OWN tests: the suite is run under the external tracing plug-in
(harness/comp_pytest_trace.py) and every history the tests exercise on ProjectiveObject-family objects is validated
by TLC against spec/comp/CompositeTrace.tla, on the projection "units named by first appearance" (see the plug-in).
The binding is demonstrated in every run: one recorded field is corrupted and must be rejected at that event."""
import copy
import json
import os
import subprocess
import sys
import time

from .. import core
from .. import comp_trace

TESTS = ["testing/test_projective.py", "testing/test_hyperbolic.py", "testing/test_drawing.py", "testing/test_representation.py"]


def record(run):
    out = os.path.join(run.work, "suite_traces.json")
    os.makedirs(run.work, exist_ok=True)
    env = dict(os.environ, COMP_TRACE_OUT=out, PYTHONPATH=core.VERIF + os.pathsep + core.REPO, PYTHONDONTWRITEBYTECODE="1",
               MPLBACKEND="Agg")
    t0 = time.time()
    p = subprocess.run([sys.executable, "-m", "pytest", "-q", "-p", "no:cacheprovider", "--continue-on-collection-errors",
                        "-p", "harness.comp_pytest_trace"] + TESTS,
                       cwd=core.REPO, env=env, capture_output=True, text=True)
    if not os.path.exists(out):
        raise core.MachineryFailure("tracing plug-in produced no trace file: %s" % (p.stdout[-800:] + p.stderr[-800:]))
    data = json.load(open(out))
    tail = [l for l in p.stdout.splitlines() if " passed" in l or " failed" in l]
    return data, (tail[-1].strip("= ") if tail else "?"), time.time() - t0


def run(run):
    data, summary, wall = record(run)
    hs = [h for h in data["traces"] if h["events"]]
    traces = [h["events"] for h in hs]
    if not traces:
        raise core.MachineryFailure("the repository's tests produced no history (plug-in not loaded?): " + summary)
    rejected, r = comp_trace.validate(run, traces, name="CompositeTrace_suite")
    nev = sum(len(t) for t in traces)
    run.traces += len(traces) - len(rejected)
    run.evaluations += nev
    run.nontrivial_count += sum(1 for t in traces if len(t) > 1)
    ops = {}
    for t in traces:
        for e in t:
            ops[e["op"]] = ops.get(e["op"], 0) + 1
            run.actions["suite:" + e["op"]] = run.actions.get("suite:" + e["op"], 0) + 1
    if rejected:
        ids = sorted(rejected)[:20]
        rej2, _ = comp_trace.validate(run, [traces[i] for i in ids], name="CompositeTrace_suite_diag", verbose=True)
        for j, i in enumerate(ids):
            matched = rej2.get(j) or 0
            ev = traces[i][matched] if matched < len(traces[i]) else None
            hist = [dict((k, v) for k, v in e.items() if k != "post") for e in traces[i][:matched + 1]]
            run.violation("suite:%s:%s:%s" % (hs[i]["test"], hs[i]["cls"], json.dumps(hist[-2:], sort_keys=True)[:200]),
                          "suite_trace:" + (ev["op"] if ev else "?"),
                          dict(test=hs[i]["test"], cls=hs[i]["cls"], matched_prefix=matched, rejected_event=ev, history=hist[-4:]))
    # the binding is real: corrupt one recorded field of one accepted history -> rejected at exactly that event
    demo = None
    for i, t in enumerate(traces):
        if i in rejected:
            continue
        for j, e in enumerate(t):
            pc = e["post"]["pc"]
            if j > 0 and e["op"] not in ("observe", "set") and len(set(pc)) >= 2:
                bad = copy.deepcopy(t)
                a = pc.index(next(c for c in pc if c != pc[0]))
                bad[j]["post"]["pc"][0], bad[j]["post"]["pc"][a] = pc[a], pc[0]
                bad[j]["post"]["dc"] = list(bad[j]["post"]["pc"])
                rej, _ = comp_trace.validate(run, [bad], name="CompositeTrace_suite_corrupt", verbose=True)
                demo = dict(test=hs[i]["test"], event=j, op=e["op"], field="post.pc (two unit ids swapped)",
                            rejected=(0 in rej), matched_prefix=rej.get(0))
                if not (0 in rej and (rej.get(0) or 0) == j):
                    raise core.MachineryFailure("a corrupted suite trace was not rejected at the corrupted event: %r" % (demo,))
                break
        if demo:
            break
    run.extra["suite_trace_validation"] = dict(
        tests=TESTS, pytest_summary=summary, pytest_wall_s=round(wall, 1),
        projection="units named by first appearance per history (projective equality of unit blocks); derived ids = "
                   "primary ids where the stored derived data equals the library's recomputation from that single unit; "
                   "applied units k+100a = rows(k) @ matrix(a) evaluated by the plug-in",
        histories=len(traces), events=nev, multi_event_histories=sum(1 for t in traces if len(t) > 1),
        events_by_op=ops, accepted=len(traces) - len(rejected), rejected=len(rejected),
        skipped_not_projected=data["skipped"], corruption_demo=demo)
    longest = max(traces, key=len)
    run.sample(dict(kind="history recorded from the repository's own tests", test=hs[traces.index(longest)]["test"],
                    cls=hs[traces.index(longest)]["cls"], events=longest[:4]))
