"""C10 beyond the exhaustive universe: recorded random histories on 6 vertices x 3 labels (the
same recorder as C09, which logs acceptance, enumeration and every derived automaton) validated
by TLC against FSATrace.tla; histories recorded on the built-in automata (shortest-path version from several roots,
recurrent version, enumeration) validated in the same TLC run; and the built-in automata checked for the laws that
need no table."""
from .. import fsa_common as fc
from . import c09_trace


def builtin_laws(run):
    from geometry_tools.automata import fsa
    for name in sorted(fsa.list_builtins()):
        f = fsa.load_builtin(name)
        vs = set(f.vertices())
        E = {(t, l, h) for (t, h, l) in f.edges(with_labels=True)}
        run.case(key=("builtin-laws", name), action="builtin_laws")
        try:
            # enumeration = acceptance, each word once
            words = list(f.enumerate_words(4))
            if len(set(words)) != len(words):
                run.violation("builtin:%s:dup" % name, "enumerate.duplicates", dict(file=name)); continue
            if not all(f.accepts(w) for w in words):
                run.violation("builtin:%s:acc" % name, "enumerate.not_accepted", dict(file=name)); continue
            labels = sorted({l for (_, l, _) in E})
            import itertools
            acc = set(words)
            for k in range(0, 4):
                for w in itertools.product(labels, repeat=k):
                    w = "".join(w)
                    if f.accepts(w) != (w in acc):
                        run.violation("builtin:%s:%s" % (name, w), "accepts_vs_enumerate", dict(file=name, word=w)); break
            # k-multiple: accepted chunked words = accepted words of length k*j
            for k in (2, 3):
                if len(vs) * len(labels) ** k > 20000:      # the library's construction is quadratic per vertex
                    continue
                m = f.automaton_multiple(k)
                got = sorted("".join(w) for w in m.enumerate_words(4 // k))
                want = sorted(w for w in words if len(w) % k == 0)
                if got != want:
                    run.violation("builtin:%s:mult%d" % (name, k), "multiple.language", dict(file=name, k=k, got=got[:10], want=want[:10]))
            # recurrent: fixed point, sub-automaton, original unchanged
            r = f.recurrent()
            rv = set(r.vertices())
            rE = {(t, l, h) for (t, h, l) in r.edges(with_labels=True)}
            ok = rE == {e for e in E if e[0] in rv and e[2] in rv} and all(
                any(e[0] == v for e in rE) and any(e[2] == v for e in rE) for v in rv)
            if not ok or fc.project_check(r, rv, rE) or fc.project_check(f, vs, E):
                run.violation("builtin:%s:rec" % name, "recurrent.fixed_point", dict(file=name))
        except Exception as e:
            run.violation("builtin:%s:raise" % name, "raised:builtin", dict(file=name, error="%s: %s" % (type(e).__name__, e)))


def builtin_traces(run, max_states):
    """histories recorded on the built-in automata (the automata of the property's quantifier that are far larger than
    the exhaustive universe): load, shortest-path version from the start state and from two other roots, recurrent
    version, enumeration from the start state.  They are validated by TLC against FSATrace.tla (ShortE, PruneAll,
    Paths of FSAOps.tla are the oracle) together with the random histories."""
    from geometry_tools.automata import fsa
    from .. import fsa_trace
    traces, verts, labels = [], set(), set()
    for name in sorted(fsa.list_builtins()):
        try:
            f = fsa.load_builtin(name)
            vs = list(f.vertices())
            if len(vs) > max_states or not all(isinstance(v, int) for v in vs):
                continue
            edges = [[t, l, h] for (t, h, l) in f.edges(with_labels=True)]
            evs = [dict(op="build_graph_dict", keys=list(vs), edges=edges, post=fsa_trace.views(f))]
            start = f.start_vertices[0]
            for root in dict.fromkeys([start, vs[len(vs) // 2], vs[-1]]):
                evs.append(dict(op="short", root=root, res=fsa_trace.views(f.remove_long_paths(root=root)),
                                post=fsa_trace.views(f)))
            evs.append(dict(op="recurrent_copy", res=fsa_trace.views(f.recurrent(inplace=False)), post=fsa_trace.views(f)))
            for op, k in (("enumerate", 3), ("enumerate_words", 2)):
                fn = f.enumerate_fixed_length_paths if op == "enumerate" else f.enumerate_words
                evs.append(dict(op=op, v=start, k=k, res=[[list(w), e] for w, e in fn(k, start_vertex=start, with_states=True)],
                                post=fsa_trace.views(f)))
        except Exception as e:
            run.violation("builtin-trace:%s:raise" % name, "raised:builtin_trace", dict(file=name, error="%s: %s" % (type(e).__name__, e)))
            continue
        run.case(key=("builtin-trace", name), action="builtin_trace")
        traces.append(evs)
        verts |= set(vs)
        labels |= {e[1] for e in edges}
    if not traces:
        raise core_failure("no built-in automaton small enough to be validated by TLC")
    return traces, verts, labels


def core_failure(msg):
    from .. import core
    return core.MachineryFailure(msg)


def run(run):
    quick = run.tier == "quick"
    traces, verts, labels = builtin_traces(run, max_states=40 if quick else 130)
    c09_trace.run(run, n=100 if quick else 1000, extra_traces=traces, extra_verts=verts, extra_labels=labels)
    builtin_laws(run)
