"""C10 beyond the exhaustive universe: recorded random histories on 6 vertices x 3 labels (the
same recorder as C09, which logs acceptance, enumeration and every derived automaton) validated
by TLC against FSATrace.tla, and the built-in automata checked for the laws that need no table."""
from .. import fsa_common as fc
from . import c09_trace


def builtin_laws(run):
    from geometry_tools.automata import fsa
    for name in sorted(fsa.list_builtins()):
        f = fsa.load_builtin(name)
        vs = set(f.vertices())
        E = {(t, l, h) for (t, h, l) in f.edges(with_labels=True)}
        run.case(key=("builtin-laws", name), action="builtin_laws")
        try:
            # enumeration = acceptance, each word once
            words = list(f.enumerate_words(4))
            if len(set(words)) != len(words):
                run.violation("builtin:%s:dup" % name, "enumerate.duplicates", dict(file=name)); continue
            if not all(f.accepts(w) for w in words):
                run.violation("builtin:%s:acc" % name, "enumerate.not_accepted", dict(file=name)); continue
            labels = sorted({l for (_, l, _) in E})
            import itertools
            acc = set(words)
            for k in range(0, 4):
                for w in itertools.product(labels, repeat=k):
                    w = "".join(w)
                    if f.accepts(w) != (w in acc):
                        run.violation("builtin:%s:%s" % (name, w), "accepts_vs_enumerate", dict(file=name, word=w)); break
            # k-multiple: accepted chunked words = accepted words of length k*j
            for k in (2, 3):
                if len(vs) * len(labels) ** k > 20000:      # the library's construction is quadratic per vertex
                    continue
                m = f.automaton_multiple(k)
                got = sorted("".join(w) for w in m.enumerate_words(4 // k))
                want = sorted(w for w in words if len(w) % k == 0)
                if got != want:
                    run.violation("builtin:%s:mult%d" % (name, k), "multiple.language", dict(file=name, k=k, got=got[:10], want=want[:10]))
            # recurrent: fixed point, sub-automaton, original unchanged
            r = f.recurrent()
            rv = set(r.vertices())
            rE = {(t, l, h) for (t, h, l) in r.edges(with_labels=True)}
            ok = rE == {e for e in E if e[0] in rv and e[2] in rv} and all(
                any(e[0] == v for e in rE) and any(e[2] == v for e in rE) for v in rv)
            if not ok or fc.project_check(r, rv, rE) or fc.project_check(f, vs, E):
                run.violation("builtin:%s:rec" % name, "recurrent.fixed_point", dict(file=name))
        except Exception as e:
            run.violation("builtin:%s:raise" % name, "raised:builtin", dict(file=name, error="%s: %s" % (type(e).__name__, e)))


def run(run):
    c09_trace.run(run, n=100 if run.tier == "quick" else 1000)
    builtin_laws(run)
