"""C10: compare every language-level operation of a live FSA with the table of specified
results emitted by spec/fsa/FSAOps.tla for its abstract state."""
import itertools
from . import fsa_common as fc


def W(w):
    return "".join(w)


def obs_key(o):
    return (frozenset(o["vs"]), frozenset(tuple(e) for e in o["E"]))


def as_map(x):
    """ToJson writes a function whose domain is 1..n as an array, any other as an object."""
    if isinstance(x, list):
        return {i + 1: v for i, v in enumerate(x)}
    return {int(k): v for k, v in x.items()}


def prepare(o):
    """JSON table -> python structures (done once per abstract state)."""
    t = {}
    t["vs"] = set(o["vs"])
    t["E"] = {tuple(e) for e in o["E"]}
    t["lang"] = {v: {k: sorted((W(p[0]), p[1]) for p in ps) for k, ps in as_map(d).items()}
                 for v, d in as_map(o["lang"]).items()}
    t["bounds"] = sorted(o["bounds"])
    t["prefix"] = [(W(p[0]), p[1]) for p in o["prefix"]]
    t["follow"] = [(p[0], W(p[1]), p[2]) for p in o["follow"]]
    t["mult"] = [(set(m["V"]), {(e[0], W(e[1]), e[2]) for e in m["E"]}) for _, m in sorted(as_map(o["mult"]).items())]
    t["rec"] = (set(o["rec"]["V"]), {tuple(e) for e in o["rec"]["E"]})
    t["short"] = {r: {tuple(e) for e in es} for r, es in as_map(o["short"]).items()}
    return t


def ops_battery(f, t, labels, start=0):
    """Returns None or (clause, detail)."""
    fsa = fc.fsa_mod()
    vs, E = t["vs"], t["E"]
    maxlen = max(len(w) for w, _ in t["prefix"]) if t["prefix"] else 0

    def unchanged(what):
        bad = fc.project_check(f, vs, E)
        if bad:
            return ("original_changed_by:" + what, bad)

    # acceptance / prefix / follow
    for w, n in t["prefix"]:
        got = f.accepts(w)
        if bool(got) != (n == len(w)):
            return ("accepts", "accepts(%r) = %r, spec prefix length %d" % (w, got, n))
        got = f.initial_accepted_subword(w)
        if got != w[:n]:
            return ("initial_accepted_subword", "(%r) = %r, spec %r" % (w, got, w[:n]))
    for v, w, end in t["follow"]:
        try:
            got = f.follow_word(w, start_vertex=v)
        except fsa.FSAException:
            got = -1
        if got != end:
            return ("follow_word", "follow_word(%r, %r) = %r, spec %r" % (w, v, got, end))
        got = f.accepts(w, start_vertex=v)
        if bool(got) != (end != -1):
            return ("accepts_from", "accepts(%r, %r) = %r, spec end %r" % (w, v, got, end))
    # enumeration: exactly the accepted words, each once, with end states
    for v, d in t["lang"].items():
        allw = []
        for k, want in d.items():
            got = sorted(f.enumerate_fixed_length_paths(k, start_vertex=v, with_states=True))
            if got != want:
                return ("enumerate_fixed_length_paths", "(%d, %r) = %r, spec %r" % (k, v, got, want))
            got = sorted(f.enumerate_fixed_length_paths(k, start_vertex=v))
            if got != sorted(w for w, _ in want):
                return ("enumerate_fixed_length_paths.words", "(%d, %r) = %r" % (k, v, got))
            allw += want
        # enumerate_words(L) for every bound L the specification lists (0 included): each accepted word of length
        # <= L exactly once (theorem EnumerateWordsBound: the listings by exact length, one after the other)
        for L in t["bounds"]:
            want = sorted(p for k in range(L + 1) for p in d[k])
            got = sorted(f.enumerate_words(L, start_vertex=v, with_states=True))
            if got != want:
                return ("enumerate_words", "(%d, %r) = %r, spec %r" % (L, v, got, want))
            got = sorted(f.enumerate_words(L, start_vertex=v))
            if got != sorted(w for w, _ in want):
                return ("enumerate_words.words", "(%d, %r) = %r, spec %r" % (L, v, got, sorted(w for w, _ in want)))
    if start in vs:
        d = t["lang"][start]
        for L in t["bounds"]:
            got = sorted(f.enumerate_words(L))
            if got != sorted(w for k in range(L + 1) for w, _ in d[k]):
                return ("enumerate_words.default_start", "(%d) = %r" % (L, got))
    bad = unchanged("queries")
    if bad:
        return bad
    # k-multiple automaton
    for k, (V, Ek) in enumerate(t["mult"], start=1):
        m = f.automaton_multiple(k)
        bad = fc.project_check(m, V, Ek) or unchanged("automaton_multiple")
        if bad:
            return ("automaton_multiple(%d):%s" % (k, bad[0]), bad[1])
        if list(m.start_vertices) != [start]:
            return ("automaton_multiple.start", "%r" % (m.start_vertices,))
        # feed the result back: it must accept exactly the accepted words of length k*j
        stepk = {(a, l): b for (a, l, b) in Ek}
        for w, n in t["prefix"]:
            if len(w) % k:
                continue
            chunks = [w[i:i + k] for i in range(0, len(w), k)]
            got = m.accepts(chunks)
            if bool(got) != (n == len(w)):
                return ("automaton_multiple(%d).accepts" % k, "accepts(%r) = %r, original prefix %d" % (chunks, got, n))
        bad = fc.query_battery(m, V, Ek) or fc.project_check(m, V, Ek)
        if bad:
            return ("automaton_multiple(%d).queries:%s" % (k, bad[0]), bad[1])
        if k == 2:
            m2 = f.even_automaton()
            bad = fc.project_check(m2, V, Ek)
            if bad:
                return ("even_automaton:" + bad[0], bad[1])
    # recurrent copy
    r = f.recurrent(inplace=False)
    bad = fc.project_check(r, *t["rec"]) or unchanged("recurrent")
    if bad:
        return ("recurrent:" + bad[0], bad[1])
    bad = fc.query_battery(r, *t["rec"]) or fc.project_check(r, *t["rec"])
    if bad:
        return ("recurrent.queries:" + bad[0], bad[1])
    r2 = r.recurrent(inplace=False)
    bad = fc.project_check(r2, *t["rec"])
    if bad:
        return ("recurrent.idempotent:" + bad[0], bad[1])
    # shortest-path version from every root
    for root, Es in t["short"].items():
        h = f.remove_long_paths(root=root)
        bad = fc.project_check(h, vs, Es) or unchanged("remove_long_paths")
        if bad:
            return ("remove_long_paths(%r):%s" % (root, bad[0]), bad[1])
    if start in vs:
        h = f.remove_long_paths()
        bad = fc.project_check(h, vs, t["short"][start])
        if bad:
            return ("remove_long_paths():" + bad[0], bad[1])
    # relabelling, copy and in place (on a copy)
    import copy
    labs = sorted(labels)
    maps = [dict(zip(labs, p)) for p in itertools.permutations(labs)]
    maps.append({l: l.upper() * 2 for l in labs})   # injective map to multi-letter names
    for mp in maps:
        Er = {(a, mp[l], b) for (a, l, b) in E}
        g = f.rename_generators(mp, inplace=False)
        bad = fc.project_check(g, vs, Er) or unchanged("rename_generators")
        if bad:
            return ("rename_generators(%r):%s" % (mp, bad[0]), bad[1])
        if list(g.start_vertices) != list(f.start_vertices):
            return ("rename_generators.start", "%r" % (g.start_vertices,))
        c = copy.deepcopy(f)
        c.rename_generators(mp)      # documented default: in place
        bad = fc.project_check(c, vs, Er) or unchanged("rename_generators(inplace)")
        if bad:
            return ("rename_generators_inplace(%r):%s" % (mp, bad[0]), bad[1])
    return None
