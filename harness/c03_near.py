"""C03 near the identity: spec/proj/NearIdentity.tla emits one-parameter families A(e) as matrices of integer
polynomials in e together with the exact polynomial images of objects under A, B A, A B, A A, A^-1, and the image
`ref` each expression would have if A were the identity.  The replay substitutes the spec's values of e, lets the
library compute the expressions and requires  dist(library, img) <= RTOL * dist(ref, img)  (projective distance):
the library must reproduce the DISPLACEMENT, to four digits, however small it is."""
import math

import numpy as np

from . import core
from . import hyp_common as hc

RTOL = 1e-3        # rounding is ~1e-16 absolute, the smallest displacement ~1e-10: measured ratios on the library are <= 4e-6


def peval(p, e):
    v = 0.0
    for c in reversed(p):
        v = v * e + c
    return v


def pvec(v, e):
    return np.array([peval(p, e) for p in v], float)


def pmat(M, e):
    return np.array([[peval(p, e) for p in row] for row in M], float)


def pdist(u, v):
    """projective distance of two non-zero real vectors: min over sign of |u/|u| -+ v/|v||"""
    u, v = np.asarray(u, float).ravel(), np.asarray(v, float).ravel()
    nu, nv = np.linalg.norm(u), np.linalg.norm(v)
    if u.shape != v.shape or not np.isfinite(u).all() or nu == 0 or nv == 0:
        return float("inf")
    u, v = u / nu, v / nv
    return float(min(np.abs(u - v).max(), np.abs(u + v).max()))


def parts(lib, cls):
    """the projective vectors that make up a library object: primary rows and derived rows"""
    pd = np.asarray(lib.proj_data, float)
    if cls == "transformation":
        return [("matrix", np.swapaxes(pd, -1, -2))]
    if cls == "point":
        return [("point", pd)]
    out = [("row[%d]" % i, pd[i]) for i in range(len(pd))]
    aux = np.asarray(lib.aux_data, float)
    k = len(pd)
    if aux.shape != (k, 2, pd.shape[-1]):
        return out + [("edges.shape", None)]
    for i in range(k):
        out += [("edge[%d].start" % i, aux[i, 0]), ("edge[%d].end" % i, aux[i, 1])]
    return out


def spec_parts(o, e):
    cls = o["cls"]
    if cls == "transformation":
        return [pmat(o["h"], e)]
    rows = [pvec(r, e) for r in o["rows"]]
    if cls == "point":
        return rows
    k = len(rows)
    out = list(rows)
    for i in range(k):
        out += [rows[i], rows[(i + 1) % k]]
    return out


def compare(lib, X, ex, e):
    cls = ex["img"]["cls"]
    if type(lib) is not type(X):
        return ("type", "result is %s, X is %s" % (type(lib).__name__, type(X).__name__))
    if tuple(lib.shape) != tuple(X.shape):
        return ("shape", "%r vs %r" % (lib.shape, X.shape))
    got, img, ref = parts(lib, cls), spec_parts(ex["img"], e), spec_parts(ex["ref"], e)
    if len(got) != len(img):
        return ("derived_data.shape", "%d parts, expected %d" % (len(got), len(img)))
    for (name, g), w, r in zip(got, img, ref):
        err, disp = pdist(g, w), pdist(r, w)
        if not (err <= RTOL * disp):
            return (name, "distance to the exact image %.3e, the exact displacement is %.3e (ratio %.2e > %.0e): library %r, exact %r, "
                    "unmoved %r" % (err, disp, err / disp if disp else float("inf"), RTOL, np.asarray(g).tolist(), w.tolist(), r.tolist()))
    return None


def tlc_job():
    c = core.cfg(invariants=["IdentityAtZero", "AdjugateIsInverse", "BSound", "FormPreserved", "ActionLaw", "InverseActs", "Moves",
                             "RowsNonZero", "EmitCase"])
    return dict(module="proj/NearIdentity.tla", cfg=c, name="NearIdentity", emit_prefix="NEAR ")


def replay(run, emits):
    from geometry_tools import projective as P
    H = hc.H()
    for em in emits:
        hyp = em["hyp"]
        Wrap = H.Isometry if hyp else P.Transformation
        Xs = em["X"]
        cls = Xs["cls"]
        for num, den in sorted(em["eps"]):
            e = num / den
            routes = [("matrix", lambda: Wrap(pmat(em["mat"], e) / peval(em["den"], e), column_vectors=True))]
            if em["ctor"]["name"] == "standard_loxodromic":
                routes.append(("standard_loxodromic", lambda: H.Isometry.standard_loxodromic(2, peval(em["ctor"]["param"][0], e))))
            elif em["ctor"]["name"] == "standard_rotation":
                routes.append(("standard_rotation", lambda: H.Isometry.standard_rotation(
                    math.atan2(peval(em["ctor"]["param"][1], e), peval(em["ctor"]["param"][0], e)))))
            for rname, mk in routes:
                run.case(key=None, action="near_identity:%s:%s" % (em["fam"], cls))
                bad = None
                try:
                    A = mk()
                    B = Wrap(np.array(em["B"]["mat"], float) / em["B"]["den"], column_vectors=True)

                    def mkX():
                        if cls == "transformation":
                            return Wrap(np.array(Xs["h"], float) / Xs["den"], column_vectors=True)
                        rows = np.array(Xs["rows"], float)
                        if cls == "point":
                            return (H.Point if hyp else P.Point)(rows[0])
                        return (H.Polygon if hyp else P.Polygon)(rows)
                    X = mkX()
                    ex = em["exprs"]
                    exprs = (("A@X", lambda: A @ X, ex["AX"]), ("(B@A)@X", lambda: (B @ A) @ X, ex["BAX"]), ("B@(A@X)", lambda: B @ (A @ X), ex["BAX"]),
                             ("(A@B)@X", lambda: (A @ B) @ X, ex["ABX"]), ("A@(B@X)", lambda: A @ (B @ X), ex["ABX"]),
                             ("(A@A)@X", lambda: (A @ A) @ X, ex["AAX"]), ("A@(A@X)", lambda: A @ (A @ X), ex["AAX"]),
                             ("A.inv()@X", lambda: A.inv() @ X, ex["AinvX"]),
                             # back to X: the error must be small against the displacement A makes
                             ("A.inv()@(A@X)", lambda: A.inv() @ (A @ X), dict(img=ex["AX"]["ref"], ref=ex["AX"]["img"])))
                    for name, f, spec in exprs:
                        bad = compare(f(), X, spec, e)
                        if bad:
                            bad = ("near_identity:%s:%s" % (name, bad[0]), bad[1])
                            break
                except Exception as exn:
                    bad = ("raised:near_identity", "%s: %s" % (type(exn).__name__, exn))
                if bad:
                    run.violation("near:%s:%s:e=%d/%d:B=%s:X=%s" % (em["fam"], rname, num, den, em["B"]["mat"], cls), bad[0],
                                  dict(family=em["fam"], route=rname, e=[num, den], B=em["B"], X=Xs, observed=bad[1]))
    run.traces += len(emits)
    run.nontrivial_count += len(emits)
    shown = set()
    for em in emits:
        if em["fam"] in ("lox", "gen") and em["X"]["cls"] == "point" and em["fam"] not in shown:
            shown.add(em["fam"])
            run.sample(dict(kind="near-identity family (%s)" % em["fam"], matrix_polynomials=em["mat"], den=em["den"], X=em["X"], B=em["B"],
                            exact_image_A_X=em["exprs"]["AX"]["img"], eps=sorted(em["eps"])))
