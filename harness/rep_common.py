"""C05 helpers: building a live Representation from a specified generator dictionary under a
naming / parsing / dtype / assignment-order mode, rendering specification words in the word
syntax of that mode, projecting library results to plain arrays, and the comparisons
(exact up to a 1e-9 relative tolerance; wrapped objects up to projective scale).

Nothing here computes an expected value: expected values come from the TLC-emitted tables.
"""
import numpy as np

LOWER = "abcd"

NAMINGS = {
    "single": {l: l for l in "abcdABCD"},
    "multi": {"a": "s0", "A": "S0", "b": "s1", "B": "S1", "c": "s2", "C": "S2", "d": "s3", "D": "S3"},
    "long": {"a": "word1", "A": "WORD1", "b": "word2", "B": "WORD2", "c": "word3", "C": "WORD3",
             "d": "word4", "D": "WORD4"},
    # legal names (at least one letter, one case, none of '*()') that do not start with a letter
    "digit": {"a": "1x", "A": "1X", "b": "2y", "B": "2Y", "c": "3z", "C": "3Z", "d": "4w", "D": "4W"},
    # every other legal shape: leading underscore, letter in the middle, trailing digits, punctuation
    "shapes": {"a": "_s", "A": "_S", "b": "0t0", "B": "0T0", "c": "x_1", "C": "X_1", "d": "-.q", "D": "-.Q"},
}
for _nm, _tab in NAMINGS.items():      # the upper-case name is the case swap of the lower-case one
    for _l in "abcd":
        assert _tab[_l].upper() == _tab[_l.upper()] and _tab[_l.upper()].lower() == _tab[_l] and _tab[_l] != _tab[_l.upper()]


def swapcase(l):
    return l.upper() if l.islower() else l.lower()


def to_array(m, cx=False):
    """specification matrix (list of rows, or {re, im}) -> ndarray"""
    if isinstance(m, dict):
        return np.array(m["re"], dtype=float) + 1j * np.array(m["im"], dtype=float)
    a = np.array(m, dtype=float)
    return a.astype(complex) if cx else a


class Mode:
    """How a representation is built and addressed.

    naming: key of NAMINGS; parse: None (default parsing) or False (Representation(parse_simple=False));
    order: 'lower' (a, b, .. by lower-case name), 'reverse' (.., b, a), 'upper' (by the upper-case name,
    i.e. rep['A'] = inverse), 'mixed' (alternating), 'twice' (every generator first assigned a different
    matrix, then re-assigned);  dtype: 'float', 'int', 'mixed' (first float, rest int), 'complex'.
    """

    def __init__(self, naming="single", parse=None, order="lower", dtype="float", via="item"):
        self.naming, self.parse, self.order, self.dtype, self.via = naming, parse, order, dtype, via
        self.names = NAMINGS[naming]

    def __str__(self):
        return "%s/parse=%s/order=%s/%s%s" % (self.naming, self.parse, self.order, self.dtype,
                                               "" if self.via == "item" else "/via=set_generator")

    def assign(self, rep, letter, value):
        """the two public assignment routes: rep[name] = M and rep.set_generator(name, M)"""
        if self.via == "method":
            rep.set_generator(self.name(letter), value)
        else:
            rep[self.name(letter)] = value

    # ---- words
    def name(self, l):
        return self.names[l]

    def word(self, w):
        """the primary rendering of a specification word (tuple of letters) for rep[...]"""
        if self.parse is False:
            return "*".join(self.names[l] for l in w)
        if self.naming == "single":
            return "".join(w)
        return [self.names[l] for l in w]

    def star(self, w):
        return "*".join(self.names[l] for l in w)

    def cast(self, arr, i=0):
        a = np.array(arr)
        if np.iscomplexobj(a) and self.dtype != "complex" and not np.any(a.imag):
            a = a.real      # a real generator of a complex representation is handed over as a real array
        if self.dtype == "int" or (self.dtype == "mixed" and i > 0):
            if np.iscomplexobj(a):
                return a
            return np.round(a).astype("int64")
        if self.dtype == "complex":
            return a.astype("complex128")
        return a.astype(complex if np.iscomplexobj(a) else "float64")


def new_rep(mode, cls=None, **kw):
    from geometry_tools import representation
    cls = cls or representation.Representation
    if mode.parse is False:
        return cls(parse_simple=False, **kw)
    return cls(**kw)


def assignment_plan(mode, gens):
    """gens: dict letter -> ndarray (full dictionary of the specification, both cases).
    Returns the list of (letter used for the assignment, matrix) realising mode.order."""
    lower = sorted(l for l in gens if l.islower())
    plan = []
    if mode.order == "lower":
        plan = [(l, gens[l]) for l in lower]
    elif mode.order == "reverse":
        plan = [(l, gens[l]) for l in reversed(lower)]
    elif mode.order == "upper":
        plan = [(l.upper(), gens[l.upper()]) for l in reversed(lower)]
    elif mode.order == "mixed":
        plan = [((l.upper(), gens[l.upper()]) if i % 2 == 0 else (l, gens[l])) for i, l in enumerate(reversed(lower))]
    elif mode.order == "twice":
        # first a stale value (the matrix of another letter, by the other case), then the real one
        for i, l in enumerate(lower):
            other = lower[(i + 1) % len(lower)]
            plan.append((l.upper(), gens[other]))
        for i, l in enumerate(lower):
            plan.append(((l, gens[l]) if i % 2 == 0 else (l.upper(), gens[l.upper()])))
    else:
        raise ValueError(mode.order)
    return plan


def build(mode, gens, cls=None, wrap=None, **kw):
    """a live representation holding the specified dictionary, built by public assignments"""
    rep = new_rep(mode, cls, **kw)
    for i, (l, m) in enumerate(assignment_plan(mode, gens)):
        val = mode.cast(m, i)
        mode.assign(rep, l, wrap(val) if wrap else val)
    return rep


def plain(x):
    """library result -> complex/float ndarray (unwrapping Transformation-like objects)"""
    if hasattr(x, "matrix") and hasattr(x, "proj_data"):
        x = np.swapaxes(np.asarray(x.matrix), -1, -2)
    a = np.asarray(x)
    if a.dtype == object:
        a = a.astype(complex)
    return a


def mnorm(a):
    """max(row sum, column sum) of |a|: sub-multiplicative, bounds every entry of a product"""
    a = np.abs(np.asarray(a))
    return float(max(a.sum(axis=-1).max(), a.sum(axis=-2).max())) if a.size else 0.0


def word_slack(w, norms):
    """floating-point allowance for a product along w: a few ulps of the magnitude of the intermediate
    products (inverses of integer matrices are stored as rounded floats); 0 when norms is None"""
    if norms is None:
        return 0.0
    p = 1.0
    for l in w:
        p *= max(1.0, norms[l])
    return 1e-14 * max(1, len(w)) * p


def close(got, want, scale=None, slack=0.0):
    got = plain(got)
    want = np.asarray(want)
    if got.shape != want.shape:
        return False
    if got.size == 0:
        return True
    tol = 1e-9 * max(1.0, float(np.abs(want).max()))
    if scale is not None:
        tol *= scale
    tol += slack
    return bool(np.all(np.abs(got - want) <= tol)) and bool(np.all(np.isfinite(got)))


def proj_close(got, want):
    """equal up to one non-zero scalar"""
    got = plain(got)
    want = np.asarray(want)
    if got.shape != want.shape or not np.all(np.isfinite(got)):
        return False
    idx = np.unravel_index(np.argmax(np.abs(want)), want.shape)
    if want[idx] == 0:
        return bool(np.all(got == 0))
    s = got[idx] / want[idx]
    if abs(s) < 1e-12:
        return False
    return bool(np.all(np.abs(got - s * want) <= 1e-9 * abs(s) * max(1.0, float(np.abs(want).max()))))


def show(x):
    try:
        a = plain(x)
        if np.iscomplexobj(a) and np.all(a.imag == 0):
            a = a.real
        return np.round(a, 6).tolist() if not np.iscomplexobj(a) else [[str(z) for z in row] for row in np.atleast_2d(a)]
    except Exception:
        return repr(x)[:200]


def dict_check(rep, want, mode, what="generators"):
    """the full generator dictionary (every stored name, both cases) equals the specified one"""
    names = {mode.name(l): l for l in want}
    have = set(rep.generators.keys())
    if have != set(names):
        return (what + ".keys", "stored names %r, specified %r" % (sorted(have), sorted(names)))
    for nm, l in names.items():
        kind = np.asarray(rep.generators[nm]).dtype.kind
        if kind not in "iufc":       # a numerical representation stores numerical arrays (no silent object dtype)
            return (what + ".dtype", "stored matrix %r has dtype %s" % (nm, np.asarray(rep.generators[nm]).dtype))
        if not close(rep.generators[nm], want[l]):
            return (what + "[%s]" % nm, "stored %r, specified %r" % (show(rep.generators[nm]), show(want[l])))
    return None


def word_forms(rep, mode, w):
    """every public way of evaluating the word under this mode: list of (form name, thunk)"""
    forms = []
    lst = [mode.name(l) for l in w]
    st = "*".join(lst)
    if len(lst) >= 2:
        # '(' and ')' are reserved for grouping in the '*'-joined syntax
        par = "(" + "*".join(lst[:2]) + ")" + "".join("*" + g for g in lst[2:])
        forms.append(("rep.element(%r, parse_simple=False)" % par, lambda: rep.element(par, parse_simple=False)))
    if mode.parse is False:
        # a representation constructed with parse_simple=False reads 'g1*g2*...'
        forms.append(("rep[%r]" % st, lambda: rep[st]))
        forms.append(("rep.elements([%r])[0]" % st, lambda: _first(rep.elements([st]))))
        forms.append(("rep.element(%r, parse_simple=False)" % st, lambda: rep.element(st, parse_simple=False)))
        forms.append(("rep[%r]" % (lst,), lambda: rep[lst]))
        forms.append(("rep.elements([%r])[0]" % (lst,), lambda: _first(rep.elements([lst]))))
    elif mode.naming == "single":
        s = "".join(w)
        forms.append(("rep[%r]" % s, lambda: rep[s]))
        forms.append(("rep.element(%r)" % s, lambda: rep.element(s)))
        forms.append(("rep.elements([%r])[0]" % s, lambda: _first(rep.elements([s]))))
        forms.append(("rep[%r]" % (lst,), lambda: rep[lst]))
        forms.append(("rep.element(%r, parse_simple=False)" % st, lambda: rep.element(st, parse_simple=False)))
    else:
        forms.append(("rep[%r]" % (lst,), lambda: rep[lst]))
        forms.append(("rep.element(%r, parse_simple=False)" % st, lambda: rep.element(st, parse_simple=False)))
        forms.append(("rep.elements([%r])[0]" % (lst,), lambda: _first(rep.elements([lst]))))
    return forms


def _first(x):
    if hasattr(x, "matrix") and hasattr(x, "proj_data"):
        return np.swapaxes(np.asarray(x.matrix), -1, -2)[0]
    return np.asarray(x)[0]


def _primary(forms):
    """rep[...] in the mode's primary syntax and rep.elements([...]) only"""
    keep = [f for f in forms if f[0].startswith("rep[")][:1] + [f for f in forms if f[0].startswith("rep.elements(")][:1]
    return keep or forms[:1]


def norms_of(gens):
    return {l: mnorm(m) for l, m in gens.items()}


def words_check(rep, mode, table, what="image", all_forms=True, cmp=None, norms=None):
    """table: list of (word tuple, ndarray).  Returns None or (clause, detail)."""
    for w, want in table:
        if cmp is None:
            slack = word_slack(w, norms)
            cmp_w = lambda g, x, slack=slack: close(g, x, slack=slack)
        else:
            cmp_w = cmp
        forms = word_forms(rep, mode, w)
        if not all_forms:
            forms = _primary(forms)
        for fname, f in forms:
            try:
                got = f()
            except Exception as e:
                return ("raised:" + what, "%s raised %s: %s (specified %r)" % (fname, type(e).__name__, e, show(want)))
            if not cmp_w(got, want):
                return (what, "%s = %r, specified %r" % (fname, show(got), show(want)))
    return None
