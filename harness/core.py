"""Core of the verification harness: TLC runner, EMIT parser, verdict bookkeeping,
known-findings handling and evidence writer.

Everything a property adapter needs from the machinery lives here so that the adapters
contain only (a) the constants they feed to the TLA+ module and (b) the projection from a
live library object to the abstract state the specification talks about.
"""
import hashlib
import json
import os
import re
import shutil
import subprocess
import sys
import time

VERIF = os.path.dirname(os.path.dirname(os.path.abspath(__file__)))
REPO = os.environ.get("VERIF_REPO", "/repo")
SPEC = os.path.join(VERIF, "spec")
WORK = os.path.join(VERIF, ".work")
TLA_CP = "/opt/veriftools/tla/tla2tools.jar:/opt/veriftools/tla/CommunityModules-deps.jar"
def _ncpu():
    n = os.cpu_count() or 4
    try:
        if os.environ.get("VERIF_JOBS"):
            n = min(n, int(os.environ["VERIF_JOBS"]))
        elif os.path.exists(os.path.join(WORK, "JOBS")):     # development-time throttle when many jobs share the machine
            n = min(n, int(open(os.path.join(WORK, "JOBS")).read().strip()))
    except Exception:
        pass
    return max(1, n)


NCPU = _ncpu()


class MachineryFailure(Exception):
    """Raised when the checking machinery itself (TLC, parsing, harness) failed. Exit code 2."""


# ----------------------------------------------------------------------------------------
# TLC
# ----------------------------------------------------------------------------------------
class TLCResult:
    def __init__(self):
        self.emits = []
        self.generated = 0
        self.distinct = 0
        self.depth = 0
        self.stdout = ""
        self.wall = 0.0
        self.coverage = {}
        self.invariant_violated = None
        self.sim_traces = 0

    def as_dict(self):
        return dict(generated=self.generated, distinct=self.distinct, depth=self.depth,
                    wall_s=round(self.wall, 2), emits=len(self.emits))


_SUMMARY = re.compile(r"(\d+) states generated, (\d+) distinct states found")
_DEPTH = re.compile(r"The depth of the complete state graph search is (\d+)")
_COVER = re.compile(r"^<(\w+) line (\d+), col (\d+) to line (\d+), col (\d+) of module (\w+)>: (\d+):(\d+)")


def _lib_dirs():
    out = []
    for d in sorted(os.listdir(SPEC)):
        p = os.path.join(SPEC, d)
        if os.path.isdir(p):
            out.append(p)
    return out


def run_tlc(module_path, cfg_text, workdir, workers=1, simulate=None, depth=None, seed=None,
            timeout=1800, coverage=False, env_extra=None, heap="4g", deadlock=False,
            expect_ok=True, emit_prefix="EMIT "):
    """Run TLC on `module_path` with configuration text `cfg_text`.

    Returns a TLCResult whose `.emits` is the list of JSON objects printed by the
    specification through `PrintT("EMIT " \\o ToJson(...))`.
    An invariant violation *of the model* or any TLC error raises MachineryFailure when
    `expect_ok` (the model is part of the machinery: the unchanged spec must check clean
    whatever the implementation does).
    """
    os.makedirs(workdir, exist_ok=True)
    mod = os.path.splitext(os.path.basename(module_path))[0]
    # copy module next to the cfg so that the metadir and cfg are private to this run
    cfg_path = os.path.join(workdir, mod + ".cfg")
    with open(cfg_path, "w") as f:
        f.write(cfg_text)
    meta = os.path.join(workdir, "meta")
    shutil.rmtree(meta, ignore_errors=True)
    libpath = os.pathsep.join(_lib_dirs())
    jtmp = os.path.join(workdir, "jtmp")        # TLC creates /tmp/tlc-* scratch directories: keep them in the work directory
    os.makedirs(jtmp, exist_ok=True)
    cmd = ["java", "-XX:+UseParallelGC", "-Xmx" + heap, "-Xss16m", "-Djava.io.tmpdir=" + jtmp,
           "-DTLA-Library=" + libpath, "-cp", TLA_CP, "tlc2.TLC",
           "-workers", str(workers), "-metadir", meta, "-noGenerateSpecTE",
           "-config", cfg_path]
    if not deadlock:
        cmd += ["-deadlock"]
    if coverage:
        cmd += ["-coverage", "1"]
    if simulate is not None:
        cmd += ["-simulate", "num=%d" % simulate]
        cmd += ["-depth", str(depth or 20)]
    if seed is not None:
        cmd += ["-seed", str(seed)]
    cmd += [module_path]
    env = dict(os.environ)
    env.pop("JAVA_TOOL_OPTIONS", None)
    if env_extra:
        env.update(env_extra)
    t0 = time.time()
    try:
        p = subprocess.run(cmd, stdout=subprocess.PIPE, stderr=subprocess.STDOUT, env=env,
                           timeout=timeout, cwd=workdir)
    except subprocess.TimeoutExpired:
        raise MachineryFailure("TLC timed out after %ss on %s" % (timeout, mod))
    finally:
        shutil.rmtree(meta, ignore_errors=True)
        shutil.rmtree(jtmp, ignore_errors=True)
    res = TLCResult()
    res.wall = time.time() - t0
    out = p.stdout.decode("utf-8", "replace")
    res.stdout = out
    qprefix = '"' + emit_prefix
    for line in out.splitlines():
        if line.startswith(qprefix):
            try:
                s = json.loads(line)
                res.emits.append(json.loads(s[len(emit_prefix):]))
            except Exception as e:  # interleaved or truncated line: never guess
                raise MachineryFailure("unparsable EMIT line from %s: %r (%s)" % (mod, line[:200], e))
            continue
        m = _SUMMARY.search(line)
        if m:
            res.generated, res.distinct = int(m.group(1)), int(m.group(2))
        m = _DEPTH.search(line)
        if m:
            res.depth = int(m.group(1))
        m = _COVER.match(line)
        if m:
            res.coverage[m.group(1)] = res.coverage.get(m.group(1), 0) + int(m.group(8))
        if "is violated" in line or "Error:" in line:
            if res.invariant_violated is None:
                res.invariant_violated = line.strip()
    ok = ("Model checking completed. No error has been found." in out) or \
         (simulate is not None and res.invariant_violated is None and p.returncode == 0)
    if expect_ok and not ok:
        tail = "\n".join(out.splitlines()[-40:])
        # keep only non-EMIT lines for the message
        tail = "\n".join(l for l in tail.splitlines() if not l.startswith(qprefix))
        raise MachineryFailure("TLC did not complete cleanly on %s (rc=%s): %s\n%s"
                               % (mod, p.returncode, res.invariant_violated, tail))
    return res


def cfg(constants=None, init="Init", next_="Next", invariants=(), view=None, action_constraints=(),
        constraints=(), properties=(), spec=None, postcondition=None, extra=""):
    lines = []
    if spec:
        lines.append("SPECIFICATION " + spec)
    else:
        lines.append("INIT " + init)
        lines.append("NEXT " + next_)
    if constants:
        lines.append("CONSTANTS")
        for k, v in constants.items():
            lines.append("  %s = %s" % (k, tla(v)))
    for i in invariants:
        lines.append("INVARIANT " + i)
    for i in properties:
        lines.append("PROPERTY " + i)
    if view:
        lines.append("VIEW " + view)
    for c in action_constraints:
        lines.append("ACTION_CONSTRAINT " + c)
    for c in constraints:
        lines.append("CONSTRAINT " + c)
    if postcondition:
        lines.append("POSTCONDITION " + postcondition)
    if extra:
        lines.append(extra)
    return "\n".join(lines) + "\n"


class Raw(str):
    """A TLA+ expression to be placed verbatim in a cfg."""


def tla(v):
    """Python value -> TLA+ constant expression accepted inside a cfg file."""
    if isinstance(v, Raw):
        return str(v)
    if isinstance(v, bool):
        return "TRUE" if v else "FALSE"
    if isinstance(v, int):
        if v < 0:
            raise ValueError("cfg files reject negative literals; use a module definition")
        return str(v)
    if isinstance(v, str):
        return '"%s"' % v
    if isinstance(v, (set, frozenset)):
        return "{" + ", ".join(sorted(tla(x) for x in v)) + "}"
    if isinstance(v, (list, tuple)):
        return "<<" + ", ".join(tla(x) for x in v) + ">>"
    raise TypeError(v)


def tla_expr(v):
    """Python value -> TLA+ expression usable inside a generated module (negatives allowed)."""
    if isinstance(v, Raw):
        return str(v)
    if isinstance(v, bool):
        return "TRUE" if v else "FALSE"
    if isinstance(v, int):
        return str(v) if v >= 0 else "(%d)" % v
    if isinstance(v, str):
        return '"%s"' % v
    if isinstance(v, (set, frozenset)):
        return "{" + ", ".join(sorted(tla_expr(x) for x in v)) + "}"
    if isinstance(v, (list, tuple)):
        return "<<" + ", ".join(tla_expr(x) for x in v) + ">>"
    if isinstance(v, dict):
        return "[" + ", ".join("%s |-> %s" % (k, tla_expr(x)) for k, x in v.items()) + "]"
    raise TypeError(v)


def write_module(workdir, name, extends, body):
    """Generate a small wrapper module (constants as definitions) in the work directory."""
    os.makedirs(workdir, exist_ok=True)
    p = os.path.join(workdir, name + ".tla")
    with open(p, "w") as f:
        f.write("---- MODULE %s ----\nEXTENDS %s\n%s\n====\n" % (name, ", ".join(extends), body))
    return p


# ----------------------------------------------------------------------------------------
# Verdict bookkeeping
# ----------------------------------------------------------------------------------------
def load_known():
    p = os.path.join(VERIF, "known_findings.jsonl")
    known, fixed = [], []
    if os.path.exists(p):
        for line in open(p):
            line = line.strip()
            if not line or line.startswith("#"):
                continue
            e = json.loads(line)
            (known if e.get("status") == "known" else fixed).append(e)
    return known, fixed


class Run:
    """One execution of one property's check."""

    def __init__(self, prop, tier, seed):
        self.prop = prop
        self.tier = tier
        self.seed = seed
        self.t0 = time.time()
        self.scratch_run = bool(os.environ.get("VERIF_NO_EVIDENCE")) or REPO != "/repo"
        self.work = os.path.join(WORK, prop + ("-%d" % os.getpid() if self.scratch_run else ""))
        shutil.rmtree(self.work, ignore_errors=True)
        os.makedirs(self.work, exist_ok=True)
        self.evaluations = 0
        self.nontrivial = set()
        self.nontrivial_count = 0
        self.samples = []
        self.states = 0
        self.transitions = 0
        self.traces = 0
        self.tlc_runs = []
        self.violations = []          # unlisted
        self.known_hits = {}          # key -> entry
        self.assumptions = []
        self.extra = {}
        self.actions = {}
        self.known, self.fixed = load_known()
        self.rule = ""
        self.exhaustive = False

    # -- TLC bookkeeping
    def tlc(self, module, cfg_text, name=None, **kw):
        mod_path = module if os.path.isabs(module) else os.path.join(SPEC, module)
        wd = os.path.join(self.work, name or os.path.splitext(os.path.basename(mod_path))[0])
        r = run_tlc(mod_path, cfg_text, wd, seed=kw.pop("seed", self.seed), **kw)
        self.states += r.distinct
        self.transitions += r.generated
        d = r.as_dict()
        d["module"] = os.path.relpath(mod_path, VERIF)
        if name:
            d["run"] = name
        self.tlc_runs.append(d)
        return r

    # -- case bookkeeping
    def case(self, key=None, nontrivial=True, action=None):
        self.evaluations += 1
        if nontrivial:
            if key is None:
                self.nontrivial_count += 1
            else:
                h = hashlib.blake2b(repr(key).encode(), digest_size=8).digest()
                self.nontrivial.add(h)
        if action:
            self.actions[action] = self.actions.get(action, 0) + 1

    def sample(self, obj, limit=12, per_kind=2):
        kind = obj.get("kind") if isinstance(obj, dict) else None
        n_kind = sum(1 for s in self.samples if isinstance(s, dict) and s.get("kind") == kind)
        if len(self.samples) < limit and n_kind < per_kind:
            self.samples.append(obj)

    def violation(self, key, clause, detail):
        """Record a violation. `key` identifies the failing input/history (stable string);
        listed known findings with the same key are reported as KNOWN-FINDING instead."""
        for e in self.known:
            if e.get("property") != self.prop:
                continue
            # a listed finding is identified by the exact failing input (key) or, for a defect whose failing
            # inputs form a family that cannot be enumerated stably, by the call-site family (key_regex) together
            # with the violated clauses; anything else is still reported
            hit = e.get("key") == key if "key" in e else False
            if not hit and "key_regex" in e and re.match(e["key_regex"], key):
                hit = ("clauses" not in e) or (clause in e["clauses"])
            if hit:
                self.known_hits[e.get("id", key)] = e
                return False
        if len(self.violations) < 50:
            self.violations.append(dict(key=key, clause=clause, detail=detail))
        else:
            self.violations.append(None)
        return True

    @property
    def n_violations(self):
        return len(self.violations)

    # -- finish
    def finish(self, level="model_checking"):
        wall = time.time() - self.t0
        # X-ids are extension checks of behaviour outside the listed properties: same machinery, separate evidence
        ev_dir = os.path.join(VERIF, "evidence_extra" if self.prop.startswith("X") else "evidence")
        os.makedirs(ev_dir, exist_ok=True)
        distinct = len(self.nontrivial) + self.nontrivial_count
        cov = dict(
            states=self.states, transitions=self.transitions,
            traces_validated_against_impl=self.traces,
            samples=self.samples if self.samples else [{"note": "no sample recorded"}],
            evaluations=self.evaluations, distinct_nontrivial=distinct,
            rule=self.rule, exhaustive=self.exhaustive,
            tlc_runs=self.tlc_runs, actions=self.actions,
            known_findings_hit=sorted(self.known_hits),
        )
        cov.update(self.extra)
        ev = dict(property_id=self.prop, tier=self.tier, seed=self.seed, level=level,
                  coverage=cov, assumptions=self.assumptions, wall_s=round(wall, 2),
                  violations=self.n_violations)
        ev_path = os.path.join(ev_dir, self.prop + ".json")
        if self.scratch_run:     # runs against a scratch copy (mutants, proposed fixes) never touch the evidence
            ev_path = os.path.join(self.work, self.prop + ".evidence.json")
        with open(ev_path, "w") as f:
            json.dump(ev, f, indent=1, default=str)
            f.write("\n")
        for key, e in sorted(self.known_hits.items()):
            print("KNOWN-FINDING: property=%s %s" % (self.prop, e.get("what", key)))
        rc = 0
        if self.violations:
            real = [v for v in self.violations if v]
            rdir = os.path.join(VERIF, "replays", self.prop + ("-scratch" if self.scratch_run else ""))
            os.makedirs(rdir, exist_ok=True)
            first = real[0]
            h = hashlib.blake2b(json.dumps(first, sort_keys=True, default=str).encode(),
                                digest_size=6).hexdigest()
            rp = os.path.join(rdir, h + ".json")
            with open(rp, "w") as f:
                json.dump(dict(property=self.prop, tier=self.tier, seed=self.seed,
                               first=first, others=real[1:20], total=len(self.violations)),
                          f, indent=1, default=str)
            for v in real[:5]:
                print("  violated clause=%s key=%s :: %s" % (v["clause"], v["key"],
                                                            str(v["detail"])[:300]))
            print("VIOLATION property=%s replay=%s" % (self.prop, rp))
            rc = 1
        else:
            print("OK property=%s tier=%s states=%d transitions=%d replayed=%d evaluations=%d "
                  "distinct=%d wall=%.1fs" % (self.prop, self.tier, self.states, self.transitions,
                                              self.traces, self.evaluations, distinct, wall))
        shutil.rmtree(self.work, ignore_errors=True)
        return rc


def import_repo():
    """Make sure `geometry_tools` is imported from REPO's working tree."""
    if REPO not in sys.path:
        sys.path.insert(0, REPO)
    import geometry_tools  # noqa
    got = os.path.dirname(os.path.dirname(os.path.abspath(geometry_tools.__file__)))
    if os.path.realpath(got) != os.path.realpath(REPO):
        raise MachineryFailure("geometry_tools imported from %s, expected %s" % (got, REPO))
    return geometry_tools
