"""pytest plug-in (lives outside the repository): records every FSA instance touched while the repository's own
test-suite runs — constructor route, every mutating call, the three views after each call — so that the histories
the existing tests already exercise can be validated by TLC against spec/fsa/FSATrace.tla (code -> spec).

Usage (done by harness/props/c09_suite.py):
    FSA_TRACE_OUT=<file> python -m pytest -p harness.fsa_pytest_trace testing/test_automata.py ...

Vertices and labels of each instance are renamed to small integers / short strings by first appearance so that TLC
never compares values of different kinds.  Histories that leave the domain of the property (insertion of a second
head for an existing (tail, label); relabelling by a non-injective map; several start vertices are irrelevant
here) are closed at that point and marked, not reported.
"""
import copy
import json
import os

TRACES = []          # list of dict(events=[...], closed=reason or None)
BY_ID = {}
DEPTH = [0]          # public methods call each other: only the outermost call is an event


class Inst:
    def __init__(self):
        self.events = []
        self.vmap = {}
        self.lmap = {}
        self.closed = None

    def v(self, x):
        try:
            hash(x)
        except TypeError:
            x = repr(x)
        if x not in self.vmap:
            self.vmap[x] = len(self.vmap)
        return self.vmap[x]

    def l(self, x):
        if not isinstance(x, str):
            x = repr(x)
        if x not in self.lmap:
            self.lmap[x] = "L%d" % len(self.lmap)
        return self.lmap[x]


def views(inst, f):
    gd, od, idd = f.graph_dict, f.out_dict, f.in_dict
    v, l = inst.v, inst.l
    return dict(
        gk=[v(x) for x in gd.keys()], ok=[v(x) for x in od.keys()], ik=[v(x) for x in idd.keys()],
        ge=[[v(a), l(lab), v(b)] for a, d in gd.items() for lab, b in d.items()],
        oe=[[v(a), l(lab), v(b)] for a, d in od.items() for b, ls in d.items() for lab in ls],
        ie=[[v(b), l(lab), v(a)] for a, d in idd.items() for b, ls in d.items() for lab in ls],
        on=[[v(a), v(b)] for a, d in od.items() for b in d.keys()],
        inn=[[v(a), v(b)] for a, d in idd.items() for b in d.keys()],
    )


def inst_of(f, create_from_state=True):
    i = BY_ID.get(id(f))
    if i is None or i.owner is not f:
        i = Inst()
        i.owner = f
        BY_ID[id(f)] = i
        TRACES.append(i)
        if create_from_state:
            # first seen without a constructor call (deepcopy): synthesise the constructor from its state
            try:
                keys = [i.v(x) for x in f.graph_dict.keys()]
                edges = [[i.v(a), i.l(lab), i.v(b)] for a, d in f.graph_dict.items() for lab, b in d.items()]
                i.events.append(dict(op="build_graph_dict", keys=keys, edges=edges, post=views(i, f), synthetic=True))
            except Exception:
                i.closed = "unreadable"
    return i


def pytest_configure(config):
    from geometry_tools.automata import fsa
    FSA = fsa.FSA
    orig_init = FSA.__init__

    def init(self, vert_dict={}, start_vertices=[], graph_dict=True):
        orig_init(self, vert_dict, start_vertices, graph_dict)
        i = inst_of(self, create_from_state=False)
        try:
            if graph_dict:
                keys = [i.v(x) for x in vert_dict.keys()]
                edges = [[i.v(a), i.l(lab), i.v(b)] for a, d in vert_dict.items() for lab, b in d.items()]
                i.events.append(dict(op="build_graph_dict", keys=keys, edges=edges, post=views(i, self)))
            else:
                keys = [i.v(x) for x in vert_dict.keys()]
                edges = [[i.v(a), i.l(lab), i.v(b)] for a, d in vert_dict.items() for b, ls in d.items() for lab in ls]
                if any(e[2] not in keys for e in edges):
                    i.closed = "out-dict constructor with heads that are not keys (outside the domain)"
                i.events.append(dict(op="build_out_dict", keys=keys, edges=edges, post=views(i, self)))
        except Exception as e:
            i.closed = "constructor arguments unreadable: %s" % e
    FSA.__init__ = init

    def wrap(name, describe):
        orig = getattr(FSA, name)

        def wrapped(self, *a, **kw):
            if DEPTH[0] > 0:
                return orig(self, *a, **kw)
            i = inst_of(self)
            pre = None
            if i.closed is None:
                try:
                    pre = describe(i, self, *a, **kw)
                except Exception as e:
                    i.closed = "arguments unreadable: %s" % e
            DEPTH[0] += 1
            try:
                res = orig(self, *a, **kw)
            except BaseException:
                i.closed = i.closed or "call raised (the test expects it)"
                raise
            finally:
                DEPTH[0] -= 1
            if i.closed is None and pre is not None:
                if pre.get("close"):
                    i.closed = pre["close"]
                else:
                    pre["post"] = views(i, self)
                    i.events.append(pre)
            return res
        wrapped._fsa_trace_wrapped = True
        setattr(FSA, name, wrapped)

    def d_add_vertices(i, f, vertices):
        return dict(op="add_vertices", vertices=[i.v(x) for x in list(vertices)])

    def d_add_edges(i, f, edges, elist=False, ignore_redundant=True):
        es = []
        for (t, h, lab) in list(edges):
            for one in (list(lab) if elist else [lab]):
                es.append([i.v(t), i.l(one), i.v(h)])
        # deterministic insertion? (second head for an existing (tail, label) leaves the domain)
        cur = {}
        for a, d in f.graph_dict.items():
            for lab, b in d.items():
                cur[(i.v(a), i.l(lab))] = i.v(b)
        for (t, lab, h) in es:
            if cur.setdefault((t, lab), h) != h:
                return dict(close="non-deterministic insertion (outside the domain)")
        if not ignore_redundant:
            return dict(close="ignore_redundant=False (outside the domain)")
        return dict(op="add_edges", edges=es)

    def d_delete_vertex(i, f, vertex):
        return dict(op="delete_vertex", v=i.v(vertex))

    def d_delete_vertices(i, f, vertices):
        return dict(op="delete_vertices", vertices=[i.v(x) for x in list(vertices)])

    def d_recurrent(i, f, inplace=False):
        return dict(op="recurrent_inplace") if inplace else None

    def d_rename(i, f, rename_map, inplace=True):
        if not inplace:
            return None
        used = {lab for d in f.graph_dict.values() for lab in d}
        img = [rename_map[lab] for lab in used]
        if len(set(img)) != len(img):
            return dict(close="non-injective relabelling (outside the domain)")
        return dict(op="rename_inplace", m={i.l(lab): i.l(rename_map[lab]) for lab in used})

    wrap("add_vertices", d_add_vertices)
    wrap("add_edges", d_add_edges)
    wrap("delete_vertex", d_delete_vertex)
    wrap("delete_vertices", d_delete_vertices)
    wrap("recurrent", d_recurrent)
    wrap("rename_generators", d_rename)


def pytest_unconfigure(config):
    out = os.environ.get("FSA_TRACE_OUT")
    if not out:
        return
    data = [dict(events=i.events, closed=i.closed) for i in TRACES if i.events]
    with open(out, "w") as f:
        json.dump(data, f, default=str)
