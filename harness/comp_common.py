"""Shared by C04 / C11: tables emitted by spec/comp/{CompUnits,Composite,Derived}.tla, construction
of live geometry_tools objects from arrays of unit ids, and the projection of a live object back
onto an array of unit ids (decoded from proj_data and, independently, from aux_data).

The oracle (which unit sits at which index, and the exact integer payload of every unit) is the
TLA+ side; this module only indexes those tables and compares projectively with a tolerance."""
import json
import threading
import warnings

import numpy as np

from . import core

TOL = 1e-9
TOL32 = 5e-4          # after a conversion to float32

# ----------------------------------------------------------------------------------------
# class adapters: how a class name of the specification is realised in the library
# ----------------------------------------------------------------------------------------
def _mods():
    from geometry_tools import hyperbolic as H, projective as P
    return H, P


def lib_class(cls):
    H, P = _mods()
    return {"Point": P.Point, "PointPair": P.PointPair, "Polygon": P.Polygon, "Transformation": P.Transformation,
            "HPoint": H.Point, "Geodesic": H.Geodesic, "Segment": H.Segment, "Tangent": H.TangentVector,
            "HPolygon": H.Polygon, "Isometry": H.Isometry, "Horosphere": H.Horosphere, "HoroArc": H.HorosphereArc, "Subspace": H.Subspace}[cls]


UNIT_RANK = {"Point": 1, "HPoint": 1}
AUX_RANK = {"Polygon": 3, "HPolygon": 3, "Segment": 2, "Tangent": 2}
PROJ = {"Point", "PointPair", "Polygon", "Transformation"}
ALL_CLASSES = ["Point", "HPoint", "PointPair", "Geodesic", "Segment", "Tangent", "Polygon", "HPolygon",
               "Transformation", "Isometry", "Horosphere", "HoroArc", "Subspace"]


def tclass(cls):
    return "Transformation" if cls in PROJ else "Isometry"


def letters(cls):
    return 5 if cls in PROJ else 4


# ----------------------------------------------------------------------------------------
# tables
# ----------------------------------------------------------------------------------------
class Tables:
    def __init__(self):
        self.units = {}     # dim -> cls -> (k, w) -> dict(prim=array(r, n), der=array or None)
        self.trans = {}     # dim -> list of matrices
        self.gram = {}      # dim -> K x K x 3 integer array
        self.sl2 = None
        self.sl2c = None
        self.converts = []
        self.eig = {}       # dim -> dict(lam, mu, mats): transformations with a repeated eigenvalue
        self.K = None
        self.whole = {}
        self.apply = {}     # (sx, st) -> record
        self.unary = {}     # sx -> record
        self.setitem = {}   # (sx, st) -> list of objects
        self.maxabs = 0


def _prefixed(stdout, prefix):
    q = '"' + prefix
    out = []
    for line in stdout.splitlines():
        if line.startswith(q):
            out.append(json.loads(json.loads(line)[len(prefix):]))
    return out


def _der_array(cls, der):
    if not der:
        return None
    a = np.array(der, dtype=float)
    return a


def absorb_units(tabs, dim, r):
    u = {}
    for o in r.emits:
        d = u.setdefault(o["cls"], {})
        prim = np.array(o["prim"], dtype=float)
        d[(o["k"], tuple(o["w"]))] = dict(prim=prim, der=_der_array(o["cls"], o["der"]), lox=bool(o["lox"]), chart0=bool(o["chart0"]))
        tabs.whole[o["cls"]] = bool(o["whole"])
        tabs.maxabs = max(tabs.maxabs, float(np.abs(prim).max()))
    tabs.units[dim] = u
    for o in _prefixed(r.stdout, "TRANS "):
        tabs.trans[o["dim"]] = [np.array(t["m"], dtype=float) for t in o["trans"]]
    for o in _prefixed(r.stdout, "GRAM "):
        tabs.gram[o["dim"]] = np.array(o["gram"], dtype=float)
    for o in _prefixed(r.stdout, "EIG "):
        tabs.eig[o["dim"]] = dict(lam=float(o["lam"]), mu=float(o["mu"]), mats=[np.array(m, dtype=float) for m in o["mats"]])
    for o in _prefixed(r.stdout, "CONVERTS "):
        tabs.converts = sorted(tuple(x) for x in o)
    for o in _prefixed(r.stdout, "SL2C "):
        tabs.sl2c = [np.array([[complex(e[0], e[1]) for e in row] for row in m]) for m in o]
    for o in _prefixed(r.stdout, "SL2 "):
        tabs.sl2 = [np.array(m, dtype=float) for m in o]
    if dim not in tabs.trans or dim not in tabs.gram or tabs.sl2 is None or dim not in tabs.eig:
        raise core.MachineryFailure("CompUnits.tla did not print its constant tables")


def absorb_composite(tabs, r):
    for o in r.emits:
        tabs.apply[(tuple(o["sx"]), tuple(o["st"]))] = o
    for o in _prefixed(r.stdout, "UNARY "):
        tabs.unary[tuple(o["sx"])] = o
    for o in _prefixed(r.stdout, "SETITEM "):
        tabs.setitem[(tuple(o["sx"]), tuple(o["st"]))] = o["set"]
    if not tabs.apply or not tabs.unary or not tabs.setitem:
        raise core.MachineryFailure("Composite.tla did not print its tables")


def load_all(run, maxrank, dims=(2, 3), K=5, maxword=2, with_composite=True, workers=4, classes=None):
    """Run spec/comp/CompUnits.tla (one TLC run per dimension) and spec/comp/Composite.tla
    concurrently (each run is dominated by its serial initial-state phase) and absorb the tables."""
    tabs = Tables()
    tabs.K = K
    results, errors = {}, []

    def unit_job(dim):
        try:
            c = core.cfg(constants=dict(Dim=dim, K=K, MaxWord=maxword, ClassSel=set(classes or ALL_CLASSES)),
                         invariants=["InDomain", "FormPreserved", "Equivariant", "Distinguishable", "ShortIdsInjective",
                                     "EmitObs"])
            results[("units", dim)] = run.tlc("comp/CompUnits.tla", c, name="CompUnits_dim%d" % dim,
                                              workers=workers, emit_prefix="UNIT ")
        except BaseException as e:      # re-raised in the caller's thread
            errors.append(e)

    def comp_job():
        try:
            c = core.cfg(constants=dict(MaxRank=maxrank, DimVals={1, 2, 3}),
                         invariants=["RavelInverse", "PairwiseIsOuterProduct", "ElementwiseIsBroadcast", "SpecialShapes",
                                     "Naturality", "ShapeOpsPreserveUnits", "SetItemLaw", "EmitApply", "EmitUnary",
                                     "EmitSet"])
            results["composite"] = run.tlc("comp/Composite.tla", c, name="Composite_rank%d" % maxrank,
                                           workers=workers, emit_prefix="APPLY ")
        except BaseException as e:
            errors.append(e)

    ths = [threading.Thread(target=unit_job, args=(dim,)) for dim in dims]
    if with_composite:
        ths.append(threading.Thread(target=comp_job))
    for t in ths:
        t.start()
    for t in ths:
        t.join()
    if errors:
        raise errors[0]
    for dim in dims:
        absorb_units(tabs, dim, results[("units", dim)])
    if with_composite:
        absorb_composite(tabs, results["composite"])
    return tabs


# ----------------------------------------------------------------------------------------
# building live objects from unit ids
# ----------------------------------------------------------------------------------------
def as_id(x):
    """id as emitted by TLC ([k, [letters]]) or a bare base index -> (k, w)."""
    if isinstance(x, (int, np.integer)):
        return (int(x), ())
    return (int(x[0]), tuple(int(a) for a in x[1]))


def unit_shape(tabs, cls, dim):
    p = tabs.units[dim][cls][(1, ())]["prim"]
    return (p.shape[1],) if UNIT_RANK.get(cls, 2) == 1 else tuple(p.shape)


def prim_rows(tabs, cls, dim, ids):
    u = tabs.units[dim][cls]
    return np.stack([u[as_id(i)]["prim"] for i in ids])          # (size, r, n)


def der_rows(tabs, cls, dim, ids):
    u = tabs.units[dim][cls]
    return np.stack([u[as_id(i)]["der"] for i in ids])


def data_of(tabs, cls, dim, shape, ids):
    rows = prim_rows(tabs, cls, dim, ids)
    return rows.reshape(tuple(shape) + unit_shape(tabs, cls, dim)).copy()


def build(tabs, cls, dim, shape, ids, route="array", neg=(), scale=None):
    """A live object of class `cls` whose unit at flat position p is ids[p].  `neg`: 1-based flat positions of the
    units handed over with the representative -x (every row of the unit negated: the same projective unit)."""
    C = lib_class(cls)
    shape = tuple(shape)
    data = data_of(tabs, cls, dim, shape, ids)
    if scale is not None:              # another representative of the same units (non-integer float data)
        data = data * scale
    if neg:
        us = unit_shape(tabs, cls, dim)
        flat = data.reshape((-1,) + us)
        for p in neg:
            if route == "negrow":          # only the first row of the unit (one end point / vertex)
                blk = flat[p - 1]
                (blk if blk.ndim == 1 else blk[0])[...] *= -1
            else:
                flat[p - 1] *= -1
        data = flat.reshape(shape + us).copy()
    if route == "intdata":             # the payloads are integers: an integer-typed array holds them exactly
        data = np.rint(data).astype(np.int64)
    elif route == "fortran":           # Fortran-contiguous, as produced by np.array([t, x, y]).T
        data = np.asfortranarray(data)
    elif route == "strided":           # a non-contiguous view with a negative stride into a larger buffer
        big = np.zeros(data.shape[:-1] + (2 * data.shape[-1] + 1,))
        big[..., 1::2] = data[::-1]
        data = big[1::2][::-1] if data.ndim == 1 else big[::-1, ..., 1::2]
    if route in ("array", "negarray", "negrow", "intdata", "fortran", "strided") or (route in ("list", "iterator") and len(shape) == 0):
        return C(data), [data]
    if route == "object":
        return C(C(data)), [data]
    if route in ("list", "iterator"):
        subs = [C(data[i]) for i in range(shape[0])]
        return C(iter(subs) if route == "iterator" else subs), [data]
    raise core.MachineryFailure("unknown construction route %r" % (route,))


def build_trans(tabs, cls, dim, shape, cell):
    """composite transformation acting on objects of class cls; cells are transformation indices"""
    C = lib_class(tclass(cls))
    mats = np.stack([tabs.trans[dim][j - 1] for j in cell])
    n = mats.shape[-1]
    return C(mats.reshape(tuple(shape) + (n, n)).copy())


# ----------------------------------------------------------------------------------------
# projective comparison
# ----------------------------------------------------------------------------------------
def proj_dev(A, E):
    """A, E: arrays (..., n). Deviation between the projective points of the rows (one free scale
    per row): || a/|a| - phase e/|e| ||. NaN / zero rows give inf."""
    A = np.asarray(A)
    E = np.asarray(E)
    with np.errstate(all="ignore"):
        na = np.sqrt((np.abs(A) ** 2).sum(-1))
        ne = np.sqrt((np.abs(E) ** 2).sum(-1))
        c = (np.conj(E) * A).sum(-1)
        ac = np.abs(c)
        phase = np.where(ac > 0, c / np.where(ac > 0, ac, 1), 0)
        d = A / na[..., None] - phase[..., None] * E / ne[..., None]
        dev = np.sqrt((np.abs(d) ** 2).sum(-1))
    dev = np.where(np.isfinite(dev) & (na > 0) & (ne > 0), dev, np.inf)
    return dev


def rows_dev(cls_whole, A, E):
    """A, E: (size, r, n). Returns per-unit deviation (size,)."""
    if cls_whole:
        return proj_dev(A.reshape(A.shape[0], -1), E.reshape(E.shape[0], -1))
    return proj_dev(A, E).max(-1)


def der_dev(cls, A, E):
    """derived data: A actual (size, auxshape...), E expected (size, auxshape...); row by row (a segment's two ideal
    endpoints are ordered: first the one beyond end point 0)"""
    s = A.shape[0]
    return proj_dev(A.reshape(s, -1, A.shape[-1]), E.reshape(s, -1, E.shape[-1])).max(-1)


def who(tabs, cls, dim, rows, tol, derived=False):
    """names of the ids whose payload matches `rows` (for messages only)"""
    out = []
    for idk, rec in tabs.units[dim][cls].items():
        E = rec["der"] if derived else rec["prim"]
        if E is None or E.shape != rows.shape:
            continue
        d = der_dev(cls, rows[None], E[None])[0] if derived else rows_dev(tabs.whole[cls], rows[None], E[None])[0]
        if d <= tol:
            out.append("%d%s" % (idk[0], "." + "".join(map(str, idk[1])) if idk[1] else ""))
    return out[:4]


def ids_str(ids):
    return [("%d" % as_id(i)[0]) + ("." + "".join(map(str, as_id(i)[1])) if as_id(i)[1] else "") for i in ids]


def check_object(tabs, obj, cls, dim, shape, ids, tol=TOL, recompute=True):
    """Project the live object onto (class, shape, primary ids, derived ids) and compare with the
    specification's state. Returns None or (clause, detail)."""
    C = lib_class(cls)
    shape = tuple(int(x) for x in shape)
    if type(obj) is not C:
        return ("class", "result is %s, spec %s" % (type(obj).__name__, C.__name__))
    try:
        oshape = tuple(obj.shape)
    except Exception as e:
        return ("shape", "obj.shape raised %s: %s" % (type(e).__name__, e))
    if oshape != shape:
        return ("shape", "obj.shape = %r, spec %r" % (oshape, shape))
    us = unit_shape(tabs, cls, dim)
    pd = obj.proj_data
    if tuple(pd.shape) != shape + us:
        return ("proj_data.shape", "%r, spec %r" % (tuple(pd.shape), shape + us))
    size = int(np.prod(shape)) if shape else 1
    E = prim_rows(tabs, cls, dim, ids)
    A = np.asarray(pd).reshape((size,) + E.shape[1:])
    dev = rows_dev(tabs.whole[cls], A, E)
    bad = np.nonzero(~(dev <= tol))[0]
    if len(bad):
        p = int(bad[0])
        return ("primary_units", "unit at flat position %d is %s, spec %s (deviation %.3g); spec cell %s"
                % (p, who(tabs, cls, dim, A[p], tol) or "unknown", ids_str([ids[p]])[0], float(dev[p]),
                   ids_str(ids)))
    if cls in AUX_RANK:
        ad = obj.aux_data
        if ad is None:
            return ("aux_data.missing", "aux_data is None")
        ED = der_rows(tabs, cls, dim, ids)
        if tuple(ad.shape) != shape + ED.shape[1:]:
            return ("aux_data.shape", "%r, spec %r" % (tuple(ad.shape), shape + ED.shape[1:]))
        AD = np.asarray(ad).reshape((size,) + ED.shape[1:])
        dev = der_dev(cls, AD, ED)
        bad = np.nonzero(~(dev <= tol))[0]
        if len(bad):
            p = int(bad[0])
            return ("derived_units", "derived data at flat position %d decodes to %s, primary data to %s (deviation %.3g)"
                    % (p, who(tabs, cls, dim, AD[p], tol, derived=True) or "unknown", ids_str([ids[p]])[0],
                       float(dev[p])))
        if recompute:
            try:
                with warnings.catch_warnings():
                    warnings.simplefilter("ignore")
                    with np.errstate(all="ignore"):
                        fresh = C(np.array(obj.proj_data)).aux_data
            except Exception as e:
                return ("recompute.raised", "%s: %s" % (type(e).__name__, e))
            if fresh is None or tuple(fresh.shape) != tuple(ad.shape):
                return ("recompute.shape", "%r vs stored %r" % (None if fresh is None else fresh.shape, ad.shape))
            FD = np.asarray(fresh).reshape((size,) + ED.shape[1:])
            dev = der_dev(cls, AD, FD)
            bad = np.nonzero(~(dev <= tol))[0]
            if len(bad):
                p = int(bad[0])
                return ("aux_data_vs_recomputed", "stored derived data of unit %d differs projectively from "
                        "type(obj)(obj.proj_data).aux_data (deviation %.3g)" % (p, float(dev[p])))
    elif getattr(obj, "aux_data", None) is not None:
        return ("aux_data.unexpected", "class without derived data carries aux_data")
    return None


def snapshot(obj):
    """geometric content of an object / array: rows normalised (projective points)"""
    a = np.array(obj.proj_data if hasattr(obj, "proj_data") else obj, dtype=complex)
    return a


def moved(before, now, whole=False, tol=TOL):
    """None if the rows of `now` are the projective points of the rows of `before`."""
    now = np.asarray(now.proj_data if hasattr(now, "proj_data") else now)
    if tuple(now.shape) != tuple(before.shape):
        return "shape %r -> %r" % (tuple(before.shape), tuple(now.shape))
    if whole:
        n2 = before.shape[-1] * before.shape[-2]
        d = proj_dev(now.reshape(-1, n2), before.reshape(-1, n2))
    else:
        d = proj_dev(now.reshape(-1, now.shape[-1]), before.reshape(-1, before.shape[-1]))
    if not (d <= tol).all():
        i = int(np.argmax(~(d <= tol)))
        return "row %d moved (deviation %.3g)" % (i, float(d[i]))
    return None
