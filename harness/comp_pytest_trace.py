"""pytest plug-in (lives outside the repository): records what the repository's OWN test-suite does with
ProjectiveObject-family objects, in the trace format of spec/comp/CompositeTrace.tla (code -> spec).

Usage (done by harness/props/c11_suite.py):
    COMP_TRACE_OUT=<file> python -m pytest -p harness.comp_pytest_trace testing/test_projective.py ...

Nothing in /repo is touched: the public constructors / mutators / derivers are wrapped when the plug-in is
configured, inside the pytest process only.  Public methods call each other: only the outermost call is an
event (DEPTH counter).

Projection (what is validated).  The tests use arbitrary float data, so unit ids cannot be decoded against the
exact payload tables of CompUnits.tla.  Per history the units are NAMED BY FIRST APPEARANCE instead: a unit is
the block of rows of proj_data at one composite index, two blocks are the same unit iff they are projectively
equal (one scale per row; one scale per matrix for transformations), and
    pc[p] = name of the unit read from proj_data at flat position p,
    dc[p] = pc[p] if the derived data stored at p equals, projectively, what the library recomputes from the
            primary rows of that one unit (type(obj)(rows).aux_data), else 0.
For T.apply(X) the unit named k + 100 a is the block  rows(X unit k) @ matrix(T unit a)  (the definition of
applying a transformation, evaluated in NumPy by this plug-in); the result's blocks are decoded against all
those products.  TLC then validates the index algebra of every call (which unit sits where afterwards) and
coherence (dc = pc) on this projection.

Every deriving call (indexing, reshape, flatten, astype, combine, stacking constructor, copy constructor,
apply) becomes a short history  [construct(state of the receiver), the call];  mutating calls (item
assignment, set) continue the history of their object.  Calls the specification does not model, and calls
that raise, are logged as opaque `observe` events carrying the projection after the call.  Whatever cannot be
projected is skipped and COUNTED with its reason (never reported).
"""
import collections
import json
import os
import warnings

import numpy as np

TOL = 1e-9
TRACES = []                      # dict(events, cls, test, namer)
SKIPS = collections.Counter()    # reason -> count
COUNTS = collections.Counter()   # op -> logged events
DEPTH = [0]
CURRENT = ["<collection>"]
HIST = {}                        # id(obj) -> (obj, history) : the history later mutators of obj continue


class Skip(Exception):
    pass


def _mods():
    from geometry_tools import projective as P, hyperbolic as H
    return P, H


def proj_dev(A, E):
    A = np.asarray(A)
    E = np.asarray(E)
    with np.errstate(all="ignore"):
        na = np.sqrt((np.abs(A) ** 2).sum(-1))
        ne = np.sqrt((np.abs(E) ** 2).sum(-1))
        c = (np.conj(E) * A).sum(-1)
        ac = np.abs(c)
        phase = np.where(ac > 0, c / np.where(ac > 0, ac, 1), 0)
        d = A / na[..., None] - phase[..., None] * E / ne[..., None]
        dev = np.sqrt((np.abs(d) ** 2).sum(-1))
    return np.where(np.isfinite(dev) & (na > 0) & (ne > 0), dev, np.inf)


def unit_dev(whole, a, e):
    """a, e: (r, n) blocks of one unit"""
    if a.shape != e.shape:
        return np.inf
    if whole:
        return float(proj_dev(a.reshape(-1), e.reshape(-1)))
    return float(proj_dev(a, e).max())


def aux_dev(segment, a, e):
    if a.shape != e.shape:
        return np.inf
    return float(proj_dev(a.reshape(-1, a.shape[-1]), e.reshape(-1, e.shape[-1])).max())


class View:
    """numeric view of one object: composite shape, unit blocks, derived blocks"""
    def __init__(self, obj):
        P, H = _mods()
        if isinstance(obj, P.ConvexPolygon):
            raise Skip("ConvexPolygon (composite use documented as unsupported; dual data not modelled)")
        pd = getattr(obj, "proj_data", None)
        if not isinstance(pd, np.ndarray):
            raise Skip("proj_data is not an ndarray")
        if pd.dtype.kind not in "fiuc":
            raise Skip("non-numeric dtype %s" % pd.dtype)
        u = int(getattr(obj, "unit_ndims", 0))
        if u not in (1, 2) or pd.ndim < u:
            raise Skip("unit rank %r not modelled" % u)
        if getattr(obj, "dual_data", None) is not None:
            raise Skip("dual data not modelled")
        self.obj = obj
        self.cls = type(obj)
        self.whole = isinstance(obj, P.Transformation)
        self.segment = isinstance(obj, H.Segment)
        self.shape = [int(x) for x in pd.shape[:pd.ndim - u]]
        self.size = int(np.prod(self.shape)) if self.shape else 1
        if self.size == 0 or self.size > 90:
            raise Skip("empty or large object (%d units)" % self.size)
        ush = pd.shape[pd.ndim - u:]
        self.rows = np.array(pd, dtype=complex if pd.dtype.kind == "c" else float).reshape((self.size,) + ((1,) + ush if u == 1 else ush))
        if not np.isfinite(self.rows).all():
            raise Skip("non-finite coordinates")
        norms = np.abs(self.rows).reshape(self.size, -1).max(-1) if self.whole else np.abs(self.rows).max(-1)
        if (norms == 0).any():
            raise Skip("zero vector among the coordinates")
        self.unit_nd = u
        ad = getattr(obj, "aux_data", None)
        a = int(getattr(obj, "aux_ndims", 0) or 0)
        self.aux = None
        if ad is not None:
            if not isinstance(ad, np.ndarray) or a < 1 or ad.ndim < a or list(ad.shape[:ad.ndim - a]) != self.shape:
                raise Skip("aux_data with an unexpected shape")
            self.aux = np.array(ad, dtype=complex if ad.dtype.kind == "c" else float).reshape((self.size,) + ad.shape[ad.ndim - a:])

    def unit_array(self, p):
        r = self.rows[p]
        return r[0] if self.unit_nd == 1 else r


class Namer:
    """names of the units of one history, by first appearance (1..99); k + 100 a for applied units"""
    def __init__(self, whole):
        self.whole = whole
        self.known = []           # (code, block)
        self.small = 0

    def name(self, block):
        for code, b in self.known:
            if unit_dev(self.whole, block, b) <= TOL:
                return code
        self.small += 1
        if self.small > 99:
            raise Skip("more than 99 distinct units in one history")
        self.known.append((self.small, np.array(block)))
        return self.small

    def register(self, code, block):
        self.known.append((code, np.array(block)))


def derived_ok(view, p):
    """does the derived data stored at p belong to the unit stored at p? (the library recomputes it from the unit)"""
    if view.aux is None:
        return True
    DEPTH[0] += 1
    try:
        with warnings.catch_warnings():
            warnings.simplefilter("ignore")
            with np.errstate(all="ignore"):
                fresh = view.cls(np.array(view.obj.proj_data).reshape((view.size,) + view.obj.proj_data.shape[len(view.shape):])[p]).aux_data
    except Exception as e:
        raise Skip("derived data of a single unit cannot be recomputed: %s" % type(e).__name__)
    finally:
        DEPTH[0] -= 1
    if fresh is None:
        raise Skip("class recomputes no derived data")
    fresh = np.asarray(fresh)
    if not np.isfinite(fresh.astype(complex)).all() or not np.isfinite(view.aux[p]).all():
        raise Skip("non-finite derived data (degenerate unit)")
    return aux_dev(view.segment, view.aux[p], fresh.astype(view.aux.dtype)) <= 1e-7


def project(view, namer, codes=None):
    pc = codes if codes is not None else [namer.name(view.rows[p]) for p in range(view.size)]
    dc = [pc[p] if (pc[p] == 0 or derived_ok(view, p)) else 0 for p in range(view.size)]
    return dict(shape=view.shape, pc=[int(c) for c in pc], dc=[int(c) for c in dc])


class History:
    def __init__(self, view, namer=None):
        self.namer = namer or Namer(view.whole)
        self.events = []
        self.cls = view.cls.__module__.split(".")[-1] + "." + view.cls.__name__
        self.test = CURRENT[0]
        self.closed = False
        post = project(view, self.namer)
        self.add(dict(op="construct", shape=post["shape"], cell=post["pc"], post=post))
        TRACES.append(self)

    def add(self, ev):
        self.events.append(ev)
        COUNTS[ev["op"]] += 1


def skip(reason):
    SKIPS[str(reason)[:110]] += 1


def history_of(obj):
    """the history later mutators of obj continue (synthesised from its state if it was never seen)"""
    h = HIST.get(id(obj))
    if h is not None and h[0] is obj and not h[1].closed:
        return h[1]
    hist = History(View(obj))
    HIST[id(obj)] = (obj, hist)
    return hist


def adopt(obj, hist):
    HIST[id(obj)] = (obj, hist)


def derive(parent, result, ev, others=()):
    """a call on `parent` returned `result`: history [construct(parent), ev] with the projection of the result"""
    try:
        pv = View(parent)
        hist = History(pv)
        rv = View(result)
        if rv.whole != pv.whole:
            raise Skip("result and receiver are different kinds of units")
        ev = dict(ev)
        ev["post"] = project(rv, hist.namer)
        hist.add(ev)
        adopt(result, hist)
    except Skip as e:
        skip(e)


def fresh_only(result):
    """an object made by a call the specification does not model: its projection must be coherent"""
    try:
        hist = History(View(result))
        adopt(result, hist)
        COUNTS["observe"] += 1
    except Skip as e:
        skip(e)


def cells_of(obj_or_list, namer):
    v = View(obj_or_list)
    return v.shape, [int(namer.name(v.rows[p])) for p in range(v.size)]


def classify_key(key, shape):
    """-> (kind, payload) with kind in index / slice / getrows / None"""
    if not shape:
        return None, None
    n = shape[0]
    if isinstance(key, (int, np.integer)) and not isinstance(key, (bool, np.bool_)):
        i = int(key)
        if -n <= i < n:
            return "index", [i % n]
        return None, None
    if isinstance(key, tuple) and key and len(key) <= len(shape) and all(isinstance(k, (int, np.integer)) and not isinstance(k, (bool, np.bool_)) for k in key):
        ix = []
        for k, d in zip(key, shape):
            if not -d <= int(k) < d:
                return None, None
            ix.append(int(k) % d)
        return "index", ix
    if isinstance(key, slice):
        lo, hi, st = key.indices(n)
        rows = list(range(lo, hi, st))
        if st == 1 and rows:
            return "slice", (lo, hi)
        if rows:
            return "getrows", rows
        return None, None
    if isinstance(key, (list, np.ndarray)):
        a = np.asarray(key)
        if a.ndim == 1 and a.dtype.kind == "b" and len(a) == n and a.any():
            return "getrows", [int(i) for i in np.nonzero(a)[0]]
        if a.ndim == 1 and a.dtype.kind in "iu" and len(a) and ((-n <= a) & (a < n)).all():
            rows = [int(i) % n for i in a]
            if len(set(rows)) == len(rows):
                return "getrows", rows
    return None, None


def _guarded(f, *a, **kw):
    DEPTH[0] += 1
    try:
        return f(*a, **kw)
    finally:
        DEPTH[0] -= 1


def install():
    P, H = _mods()
    try:
        from geometry_tools import complex_projective  # noqa: F401  (its classes are handled generically)
    except Exception:
        pass
    PO = P.ProjectiveObject

    def family(c):
        out = [c]
        for s in c.__subclasses__():
            for x in family(s):
                if x not in out:
                    out.append(x)
        return out

    # ---------------------------------------------------------------- constructors
    def wrap_init(C):
        orig = C.__dict__["__init__"]

        def init(self, *a, **kw):
            if DEPTH[0] > 0:
                return orig(self, *a, **kw)
            DEPTH[0] += 1
            try:
                orig(self, *a, **kw)
            except BaseException:
                skip("constructor raised (the test expects it, or it is a wrong test)")
                raise
            finally:
                DEPTH[0] -= 1
            try:
                a0 = a[0] if a else None
                if isinstance(a0, PO) and type(a0) is type(self) and len(a) == 1 and not kw:
                    derive(a0, self, dict(op="copy", kind="ctor"))
                elif (isinstance(a0, (list, tuple)) and len(a0) > 0 and len(a) == 1 and not kw
                      and all(type(x) is type(self) for x in a0)):
                    pv = View(a0[0])
                    hist = History(pv)
                    others = []
                    for x in a0[1:]:
                        s, c = cells_of(x, hist.namer)
                        others.append(dict(shape=s, cell=c))
                    ev = dict(op="stack", others=others)
                    ev["post"] = project(View(self), hist.namer)
                    hist.add(ev)
                    adopt(self, hist)
                else:
                    hist = History(View(self))
                    adopt(self, hist)
            except Skip as e:
                skip(e)
        init._comp_trace_wrapped = True
        C.__init__ = init

    for C in family(PO):
        if "__init__" in C.__dict__:
            wrap_init(C)

    # ---------------------------------------------------------------- mutators
    orig_set = PO.set

    def set_(self, *a, **kw):
        if DEPTH[0] > 0:
            return orig_set(self, *a, **kw)
        return mutate(self, lambda: orig_set(self, *a, **kw), lambda hist: "set")
    PO.set = set_
    for C in family(PO):
        if C is not PO and "set" in C.__dict__:
            skip("class %s overrides set (not wrapped)" % C.__name__)

    def mutate(self, call, describe):
        """run a mutating call; log it on the object's history (the description is evaluated BEFORE the call)"""
        hist = pre = None
        try:
            hist = history_of(self)
            pre = describe(hist)
        except Skip as e:
            skip(e)
            hist = None
        DEPTH[0] += 1
        try:
            res = call()
        except BaseException:
            # error path: the object may have been touched; its projection must still be coherent
            if hist is not None:
                try:
                    hist.add(dict(op="observe", why="call raised", post=project(View(self), hist.namer)))
                except Skip as e:
                    skip(e)
                    hist.closed = True
            raise
        finally:
            DEPTH[0] -= 1
        if hist is None:
            HIST.pop(id(self), None)
            return res
        try:
            post = project(View(self), hist.namer)
            if pre == "set":
                hist.add(dict(op="set", shape=post["shape"], cell=post["pc"], post=post))
            elif pre is None:
                hist.add(dict(op="observe", why="call not modelled", post=post))
            else:
                pre["post"] = post
                hist.add(pre)
        except Skip as e:
            skip(e)
            hist.closed = True
        return res

    orig_setitem = PO.__setitem__

    def setitem(self, key, value):
        if DEPTH[0] > 0:
            return orig_setitem(self, key, value)

        def describe(hist):
            v = View(self)
            kind, payload = classify_key(key, v.shape)
            if kind is None:
                return None
            val = value if isinstance(value, PO) else _guarded(type(self), value)
            ys, yc = cells_of(val, hist.namer)
            if kind == "index":
                return dict(op="settuple", ix=payload, yshape=ys, ycell=yc)
            rows = list(range(payload[0], payload[1])) if kind == "slice" else payload
            return dict(op="setrows", rows=rows, yshape=ys, ycell=yc)
        return mutate(self, lambda: orig_setitem(self, key, value), describe)
    PO.__setitem__ = setitem

    orig_set_ndims = PO.set_ndims

    def set_ndims(self, *a, **kw):
        if DEPTH[0] > 0:
            return orig_set_ndims(self, *a, **kw)
        res = _guarded(orig_set_ndims, self, *a, **kw)
        # the meaning of the axes changed: from here on it is another object for the specification
        HIST.pop(id(self), None)
        if hasattr(self, "proj_data"):
            fresh_only(self)
        return res
    PO.set_ndims = set_ndims

    # ---------------------------------------------------------------- derivers
    def wrap_deriver(name, describe):
        orig = getattr(PO, name)

        def wrapped(self, *a, **kw):
            if DEPTH[0] > 0:
                return orig(self, *a, **kw)
            DEPTH[0] += 1
            try:
                res = orig(self, *a, **kw)
            except BaseException:
                skip("%s raised (end of iteration, or the test expects it)" % name)
                raise
            finally:
                DEPTH[0] -= 1
            try:
                ev = describe(self, *a, **kw)
            except Skip as e:
                skip(e)
                return res
            except Exception as e:
                skip("arguments of %s unreadable: %s" % (name, type(e).__name__))
                return res
            if isinstance(res, PO):
                if ev is None:
                    skip("%s with arguments the specification does not model (result observed)" % name)
                    fresh_only(res)
                else:
                    derive(self, res, ev)
            return res
        setattr(PO, name, wrapped)

    def d_getitem(self, key):
        kind, payload = classify_key(key, View(self).shape)
        if kind == "index":
            return dict(op="index", ix=payload)
        if kind == "slice":
            return dict(op="slice", lo=payload[0], hi=payload[1])
        if kind == "getrows":
            return dict(op="getrows", rows=payload)
        return None

    def d_reshape(self, shape):
        shape = [int(x) for x in shape]
        return dict(op="reshape", shape=shape) if all(x > 0 for x in shape) else None

    def d_flatten(self, unit=None):
        return dict(op="flatten") if unit is None else None

    wrap_deriver("__getitem__", d_getitem)
    wrap_deriver("reshape", d_reshape)
    wrap_deriver("flatten_to_unit", d_flatten)
    wrap_deriver("flatten_to_aux", lambda self: None)
    wrap_deriver("astype", lambda self, dtype: dict(op="astype", dtype=str(np.dtype(dtype))))

    orig_combine = PO.__dict__["combine"].__func__

    def combine(cls, to_combine):
        if DEPTH[0] > 0:
            return orig_combine(cls, to_combine)
        DEPTH[0] += 1
        try:
            res = orig_combine(cls, to_combine)
        except BaseException:
            skip("combine raised")
            raise
        finally:
            DEPTH[0] -= 1
        try:
            objs = list(to_combine)
            if isinstance(res, PO) and objs and all(isinstance(x, PO) for x in objs):
                pv = View(objs[0])
                hist = History(pv)
                others = []
                for x in objs[1:]:
                    s, c = cells_of(x, hist.namer)
                    others.append(dict(shape=s, cell=c))
                ev = dict(op="combine", others=others)
                ev["post"] = project(View(res), hist.namer)
                hist.add(ev)
                adopt(res, hist)
        except Skip as e:
            skip(e)
        return res
    PO.combine = classmethod(combine)

    # ---------------------------------------------------------------- transformations
    T = P.Transformation
    orig_apply = T.apply

    def apply(self, proj_obj, broadcast="elementwise"):
        if DEPTH[0] > 0:
            return orig_apply(self, proj_obj, broadcast)
        DEPTH[0] += 1
        try:
            res = orig_apply(self, proj_obj, broadcast)
        except BaseException:
            skip("apply raised (shapes that do not broadcast: the test expects it)")
            raise
        finally:
            DEPTH[0] -= 1
        try:
            if not isinstance(proj_obj, PO):
                raise Skip("apply to a bare ndarray")
            if broadcast not in ("elementwise", "pairwise", "pairwise_reversed"):
                raise Skip("unknown broadcast mode")
            xv, tv, rv = View(proj_obj), View(self), View(res)
            if xv.aux is not None and isinstance(proj_obj, H.HyperbolicObject):
                n = tv.rows.shape[-1]
                J = np.diag([-1.0] + [1.0] * (n - 1))
                for m in tv.rows:
                    g = m @ J @ m.T
                    if not np.allclose(g, J * g[1, 1], atol=1e-8 * max(1.0, abs(g).max())):
                        raise Skip("a transformation that is not an isometry applied to hyperbolic derived data (outside the domain)")
            hist = History(xv)
            tn = Namer(True)
            tcell = [int(tn.name(tv.rows[p])) for p in range(tv.size)]
            if tn.small > 20:
                raise Skip("more than 20 distinct transformations")
            # the unit named k + 100 a is  rows(unit k) @ matrix(a)
            prods = [(k + 100 * a, bk @ ma) for (k, bk) in hist.namer.known for (a, ma) in tn.known]
            codes = []
            for p in range(rv.size):
                hits = [c for (c, b) in prods if unit_dev(rv.whole, rv.rows[p], b) <= 1e-8]
                if len(hits) > 1:
                    raise Skip("ambiguous decoding of an applied unit (two products coincide)")
                codes.append(hits[0] if hits else 0)
            child = Namer(rv.whole)
            seen = set()
            for p, c in enumerate(codes):
                if c and c not in seen:
                    seen.add(c)
                    child.register(c, rv.rows[p])
            ev = dict(op="apply", tshape=tv.shape, tcell=tcell, mode=broadcast)
            ev["post"] = project(rv, child, codes=codes)
            hist.add(ev)
            hist.namer = child
            hist.closed = True         # a later mutation of the result starts a new history (names k + 100 a are taken)
        except Skip as e:
            skip(e)
        return res
    T.apply = apply

    orig_inv = T.inv

    def inv(self):
        if DEPTH[0] > 0:
            return orig_inv(self)
        res = _guarded(orig_inv, self)
        skip("inv is not modelled (result observed)")
        fresh_only(res)
        return res
    T.inv = inv
    for C in family(T):
        if C is not T and ("apply" in C.__dict__ or "inv" in C.__dict__):
            skip("class %s overrides apply / inv (not wrapped)" % C.__name__)


def pytest_configure(config):
    install()


def pytest_runtest_setup(item):
    CURRENT[0] = item.nodeid


def pytest_unconfigure(config):
    out = os.environ.get("COMP_TRACE_OUT")
    if not out:
        return
    data = dict(traces=[dict(events=h.events, cls=h.cls, test=h.test) for h in TRACES if h.events],
                skipped=dict(SKIPS), logged=dict(COUNTS))
    with open(out, "w") as f:
        json.dump(data, f, default=str)
